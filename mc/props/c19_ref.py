"""Reference model for C19 - plain numpy, NO quimb imports.

The meaning of an operator given as a sum of products of named single-site
operators, written from the documented meaning of the names
(``SparseOperatorBuilder.add_term`` docstring) and textbook definitions:

* basis: one bit per register, bit 0 <-> index 0 of the local 2-vector,
  register 0 is the most significant factor of the Kronecker product, i.e.
  ``index = sum_r bit[r] * 2**(N-1-r)`` (lexicographic bitstring order);
* 'x','y','z' Pauli matrices, 'sx','sy','sz' = Pauli / 2, '+' / '-' creation /
  annihilation (|1><0| / |0><1| in the occupation basis), 'n' number, 'sn' =
  n - 1/2, 'h' = 1 - n, 'I' identity, 'ZX' glyph = Z X = iY;
* a term is coefficient x the matrix PRODUCT of its embedded factors in the
  order written; the operator is the sum of its terms;
* Jordan-Wigner: every '+'/'-' on register r carries Z on all registers < r
  (c_r = Z_0 ... Z_{r-1} a_r), everything else is left alone.

Also: brute-force sector enumeration in the documented rank order, ordering of
sites, and spin-S chain Hamiltonians from their docstring formulas.
"""

from __future__ import annotations

import functools
import itertools

import numpy as np

ZX = "ⴵ"  # the 'real Y' glyph used by quimb for ZX = iY

_I = np.eye(2, dtype=complex)
_X = np.array([[0, 1], [1, 0]], dtype=complex)
_Y = np.array([[0, -1j], [1j, 0]], dtype=complex)
_Z = np.array([[1, 0], [0, -1]], dtype=complex)
_CRE = np.array([[0, 0], [1, 0]], dtype=complex)  # |1><0|
_ANN = np.array([[0, 1], [0, 0]], dtype=complex)  # |0><1|
_NUM = np.array([[0, 0], [0, 1]], dtype=complex)

OPM = {
    "I": _I,
    "x": _X,
    "y": _Y,
    "z": _Z,
    ZX: np.array([[0, 1], [-1, 0]], dtype=complex),  # Z @ X = iY
    "sx": _X / 2,
    "sy": _Y / 2,
    "sz": _Z / 2,
    "+": _CRE,
    "-": _ANN,
    "n": _NUM,
    "sn": _NUM - _I / 2,
    "h": _I - _NUM,
}
ALL_OPS = tuple(OPM)

# unit-entry representative of every proportionality class of the alphabet
CANON = ("I", "x", "y", "z", "+", "-", "n", "h")


# --------------------------------------------------------------------------- #
#                                  operators                                  #
# --------------------------------------------------------------------------- #


@functools.lru_cache(maxsize=4096)
def _embed(op, reg, N):
    out = np.eye(1, dtype=complex)
    for r in range(N):
        out = np.kron(out, OPM[op] if r == reg else _I)
    return out


@functools.lru_cache(maxsize=4096)
def site_op(op, reg, N, jw):
    M = _embed(op, reg, N)
    if jw and op in ("+", "-"):
        for r in range(reg):
            M = _embed("z", r, N) @ M
    return M


def term_matrix(ops, reg_of, N, jw=False):
    M = np.eye(2**N, dtype=complex)
    for op, site in ops:
        M = M @ site_op(op, reg_of[site], N, bool(jw))
    return M


def operator(terms, reg_of, N, jw=False):
    """terms: iterable of (coeff, ops) with ops = sequence of (name, site)."""
    H = np.zeros((2**N, 2**N), dtype=complex)
    for coeff, ops in terms:
        H = H + coeff * term_matrix(ops, reg_of, N, jw)
    return H


def jw_expand(ops, reg_of, site_of_reg):
    """The operator string with the Z strings written out (same convention)."""
    out = []
    for op, site in ops:
        if op in ("+", "-"):
            for r in range(reg_of[site]):
                out.append(("z", site_of_reg[r]))
        out.append((op, site))
    return out


def same_site_scalar(ops):
    """Product over sites of the scalar c_s with (ordered product of the
    operators written on site s) = c_s * (unit-entry alphabet operator);
    None if some same-site product vanishes.  1.0 if no site carries two
    operators."""
    per = {}
    for op, site in ops:
        per.setdefault(site, []).append(op)
    tot = 1.0 + 0j
    for site, lst in per.items():
        if len(lst) < 2:
            continue
        P = functools.reduce(np.matmul, [OPM[o] for o in lst])
        if np.max(np.abs(P)) < 1e-14:
            return None
        k = int(np.argmax(np.abs(P)))
        c = None
        for name in CANON:
            R = OPM[name]
            if abs(R.flat[k]) < 0.5:
                continue
            cc = P.flat[k] / R.flat[k]
            if np.max(np.abs(P - cc * R)) < 1e-12:
                c = cc
                break
        if c is None:
            raise AssertionError("product outside the alphabet: %r" % (lst,))
        tot *= c
    return tot


def has_nonunit_same_site_product(terms, reg_of=None, site_of_reg=None, jw=False):
    """Structural root-cause predicate of the known same-site rescaling defect:
    some term has same-site products whose total scalar c satisfies c*c != 1."""
    for _, ops in terms:
        ops = list(ops)
        if jw:
            ops = jw_expand(ops, reg_of, site_of_reg)
        c = same_site_scalar(ops)
        if c is not None and abs(c * c - 1.0) > 1e-9:
            return True
    return False


def embed_regs(mat, regs, N):
    """mat acting on the ordered registers ``regs`` (first = most significant
    factor of mat) embedded in N qubits."""
    regs = list(regs)
    k = len(regs)
    if k == 0:
        return np.asarray(mat).reshape(()) * np.eye(2**N, dtype=complex)
    op = np.asarray(mat, dtype=complex).reshape([2] * (2 * k))
    full = np.eye(2**N, dtype=complex).reshape([2] * (2 * N))
    res = np.tensordot(op, full, axes=(list(range(k, 2 * k)), regs))
    rest = [i for i in range(2 * N) if i not in regs]
    cur = regs + rest
    perm = [cur.index(i) for i in range(2 * N)]
    return res.transpose(perm).reshape(2**N, 2**N)


def embed_dims(mat, dims, where):
    """general local dimensions (used for spin-S chains)."""
    dims = list(dims)
    n = len(dims)
    where = list(where)
    k = len(where)
    dw = [dims[w] for w in where]
    D = int(np.prod(dims))
    op = np.asarray(mat, dtype=complex).reshape(dw + dw)
    full = np.eye(D, dtype=complex).reshape(dims + dims)
    res = np.tensordot(op, full, axes=(list(range(k, 2 * k)), where))
    rest = [i for i in range(2 * n) if i not in where]
    cur = where + rest
    perm = [cur.index(i) for i in range(2 * n)]
    return res.transpose(perm).reshape(D, D)


# --------------------------------------------------------------------------- #
#                              sectors and ranks                              #
# --------------------------------------------------------------------------- #


def binom(n, k):
    if k < 0 or k > n:
        return 0
    row = [1]
    for _ in range(n):
        row = [1] + [row[i] + row[i + 1] for i in range(len(row) - 1)] + [1]
    return row[k]


def config_index(c):
    r = 0
    for b in c:
        r = 2 * r + int(b)
    return r


def sector_configs(N, sym=None, sector=None, blocks=None):
    """All bit configurations (tuples in REGISTER order) of the sector, in the
    documented rank order: lexicographic bitstrings; for U1U1 lexicographic in
    the blocked string (all registers of block a, then all of block b).

    sym None | 'Z2' (sector = parity 0/1) | 'U1' (sector = k) |
    'U1U1' (sector = (ka, kb), blocks = (regs_a, regs_b))."""
    allc = list(itertools.product((0, 1), repeat=N))
    if sym is None:
        return allc
    if sym == "Z2":
        return [c for c in allc if sum(c) % 2 == sector]
    if sym == "U1":
        return [c for c in allc if sum(c) == sector]
    if sym == "U1U1":
        ra, rb = blocks
        ka, kb = sector
        sel = [c for c in allc if sum(c[r] for r in ra) == ka and sum(c[r] for r in rb) == kb]
        sel.sort(key=lambda c: (tuple(c[r] for r in ra), tuple(c[r] for r in rb)))
        return sel
    raise KeyError(sym)


def sector_size(N, sym=None, sector=None, blocks=None):
    if sym is None:
        return 2**N
    if sym == "Z2":
        return 2 ** (N - 1)
    if sym == "U1":
        return binom(N, sector)
    ra, rb = blocks
    return binom(len(ra), sector[0]) * binom(len(rb), sector[1])


def mixed_radix_configs(dims):
    return list(itertools.product(*[range(d) for d in dims]))


def conserved(H, charges, tol=1e-12):
    """True if H has no matrix element between basis states of different
    charge (charges: one hashable per basis index)."""
    H = np.asarray(H)
    q = {}
    for i, c in enumerate(charges):
        q.setdefault(c, []).append(i)
    if len(q) < 2:
        return True
    mask = np.zeros(H.shape, dtype=bool)
    for c, idx in q.items():
        mask[np.ix_(idx, idx)] = True
    off = np.abs(H[~mask])
    return off.size == 0 or float(off.max()) <= tol


def ordered_sites(supplied, order):
    """Expected register order of the sites (HilbertSpace docstring).
    order: ('none',) | ('sorted',) | ('seq', [sites...]) | ('key', name) |
    ('preset', 'blocked'|'interleaved')"""
    supplied = list(supplied)
    kind = order[0]
    if kind == "none":
        return supplied
    if kind == "sorted":
        return sorted(supplied)
    if kind == "seq":
        seq = list(order[1])
        return sorted(supplied, key=seq.index)
    if kind == "key":
        return sorted(supplied, key=KEYFNS[order[1]])
    if kind == "preset":
        if order[1] == "blocked":
            return sorted(supplied, key=lambda s: (s[0], s[1:]))
        return sorted(supplied, key=lambda s: (s[1:], s[0]))
    raise KeyError(kind)


def _key_desc(s):
    # descending order for ints / tuples of ints / strings
    if isinstance(s, tuple):
        return tuple(_key_desc(x) for x in s)
    if isinstance(s, str):
        return tuple(-ord(ch) for ch in s)
    return -s


def _key_last(s):
    # order by the last component first
    if isinstance(s, tuple):
        return tuple(reversed(s))
    if isinstance(s, str):
        return s[::-1]
    return (s % 2, s)


KEYFNS = {"desc": _key_desc, "last": _key_last}


# --------------------------------------------------------------------------- #
#                              spin-S chain models                            #
# --------------------------------------------------------------------------- #


def spin_ops(S):
    """(Sx, Sy, Sz, S+, S-) in the basis m = S, S-1, ..., -S (textbook)."""
    d = int(round(2 * S + 1))
    m = [S - i for i in range(d)]
    sz = np.diag(m).astype(complex)
    sp = np.zeros((d, d), dtype=complex)
    for i in range(1, d):
        sp[i - 1, i] = np.sqrt(S * (S + 1) - m[i] * (m[i] + 1))
    sm = sp.conj().T
    return (sp + sm) / 2, (sp - sm) / 2j, sz, sp, sm


def spin_named(S):
    sx, sy, sz, sp, sm = spin_ops(S)
    d = sx.shape[0]
    return {"X": sx, "Y": sy, "Z": sz, "+": sp, "-": sm, "I": np.eye(d, dtype=complex)}


def chain(L, d, one=None, two=None, cyclic=False):
    """sum_i one(i) on site i + sum_bonds two(i) on (i, i+1 mod L);
    one/two: callables site -> matrix (or None)."""
    dims = [d] * L
    D = d**L
    H = np.zeros((D, D), dtype=complex)
    if one is not None:
        for i in range(L):
            h = one(i)
            if h is not None:
                H = H + embed_dims(h, dims, [i])
    if two is not None:
        nb = L if cyclic else L - 1
        for i in range(nb):
            h = two(i)
            if h is not None:
                H = H + embed_dims(h, dims, [i, (i + 1) % L])
    return H


def heis_bond(S, jx, jy, jz):
    sx, sy, sz, _, _ = spin_ops(S)
    return jx * np.kron(sx, sx) + jy * np.kron(sy, sy) + jz * np.kron(sz, sz)


def field(S, bx, by, bz):
    sx, sy, sz, _, _ = spin_ops(S)
    return bx * sx + by * sy + bz * sz


def blbq_bond(S, theta):
    """cos(theta) S.S + sin(theta) (S.S)^2 (PhysRevB.93.184428)."""
    sx, sy, sz, _, _ = spin_ops(S)
    SS = np.kron(sx, sx) + np.kron(sy, sy) + np.kron(sz, sz)
    return np.cos(theta) * SS + np.sin(theta) * (SS @ SS)


def single_site_fields(R, L):
    """Decompose a spin-1/2 operator R into sum_i h_i . S_i; returns (h[L,3],
    residual norm)."""
    sx, sy, sz, _, _ = spin_ops(0.5)
    dims = [2] * L
    h = np.zeros((L, 3), dtype=complex)
    rec = np.zeros_like(R, dtype=complex)
    for i in range(L):
        for a, s in enumerate((sx, sy, sz)):
            E = embed_dims(s, dims, [i])
            # Tr(S_a S_b) on the full space = delta_ab 2^L / 4
            h[i, a] = np.trace(E @ R) / (2**L / 4)
            rec = rec + h[i, a] * E
    return h, float(np.max(np.abs(R - rec))) if R.size else 0.0


# --------------------------------------------------------------------------- #
#                                   compare                                   #
# --------------------------------------------------------------------------- #


def err(x, y):
    x = np.asarray(x)
    y = np.asarray(y)
    if x.shape != y.shape:
        return float("inf")
    if x.size == 0:
        return 0.0
    d = np.abs(x - y)
    if not np.all(np.isfinite(d)):
        return float("inf")
    scale = max(float(np.max(np.abs(y))), float(np.max(np.abs(x))), 1.0)
    return float(np.max(d)) / scale


def same(x, y, tol=1e-9):
    return err(x, y) <= tol

"""C01 - a tensor network denotes one value; every contraction route returns it.

Bounded exhaustive enumeration (DESIGN.md section 3, C01):

  table A  network x dtype x stored exponent x output request x every public
           "evaluate everything" entry point (contract/^/contract_tags over
           covering tags/contract_cumulative for every permutation of the
           tag groups/optimizers, explicit paths, trees, expressions/
           to_dense for every split/norm, overlap, trace/TNLinearOperator
           for every bipartition/tensor_contract, @)
  table B  network x every tag route (tag subset x which) x every admissible
           local output x (contract_tags|contract) x inplace x strip_exponent
           x equalize_norms: the partially contracted network must denote the
           same value
  table C  histories: networks reached by <= 2 (3) partial contractions /
           exponent manipulations; invariant checked on every transition
  table D  the 1D structured route (MPS / MPO, ``^ ...``, ``^ slice``,
           contract_structured with several block sizes, cyclic or not)
  table E  exponent propagation when networks are combined / copied / selected

Oracle: ``mc.ref.tn_value`` (one explicit numpy einsum, no quimb).
"""

from __future__ import annotations

import itertools
import sys

import numpy as np

from .. import core, ref
from ..alphabet import fill

DIM = {"a": 2, "b": 3, "c": 1, "d": 2}
LAB = "abcd"
CHOICES = [c for k in range(0, 4) for c in itertools.combinations(LAB, k)]  # 15 label subsets, rank <= 3

VALUE_REJECTIONS = (ValueError,)

# --------------------------------------------------------------------------- #
#                              enumeration helpers                            #
# --------------------------------------------------------------------------- #


def network_specs(n, labels=LAB):
    """All multisets of n label-subsets (<= 3 labels each, drawn from
    ``labels``), each in two insertion orders.  The axis order of tensor i is
    sorted for even i and reversed for odd i, so every route has to align
    axes by label, never by position."""
    seen = set()
    out = []
    idx = [i for i, c in enumerate(CHOICES) if set(c) <= set(labels)]
    for combo in itertools.combinations_with_replacement(idx, n):
        for order in (combo, combo[::-1]):
            if order in seen:
                continue
            seen.add(order)
            spec = tuple(CHOICES[c] if i % 2 == 0 else CHOICES[c][::-1] for i, c in enumerate(order))
            out.append(spec)
    return out


def label_freq(spec):
    f = {}
    for labs in spec:
        for l in labs:
            f[l] = f.get(l, 0) + 1
    return f


def output_requests(spec, with_reversed=True):
    """None (only when no label sits on >= 3 tensors) + every subset of the
    labels present in sorted and reversed order."""
    f = label_freq(spec)
    labs = sorted(f)
    outs = []
    if all(v <= 2 for v in f.values()):
        outs.append(None)
    for k in range(len(labs) + 1):
        for o in itertools.combinations(labs, k):
            outs.append(tuple(o))
            if with_reversed and k > 1:
                outs.append(tuple(o[::-1]))
    return outs


def default_out(spec):
    f = label_freq(spec)
    return tuple(l for l in dict.fromkeys(l for labs in spec for l in labs) if f[l] == 1)


def pairwise_paths(n):
    """Every explicit pairwise contraction path (opt_einsum 'linear' format)
    for n tensors: 1, 3, 18 for n = 2, 3, 4."""
    if n < 2:
        return []
    out = []

    def rec(m, acc):
        if m == 1:
            out.append(tuple(acc))
            return
        for i, j in itertools.combinations(range(m), 2):
            rec(m - 1, acc + [(i, j)])

    rec(n, [])
    return out


# --------------------------------------------------------------------------- #
#                         building networks, comparing                        #
# --------------------------------------------------------------------------- #


def rtol_of(dtype):
    return ref.rtol_for(dtype, double=1e-9, single=5e-4)


class Net:
    """One enumerated network: the real quimb object + the raw arrays the
    reference works on."""

    def __init__(self, spec, dtype, expo, fillkey="x", scale=0.0):
        import quimb.tensor as qtn

        self.spec = tuple(tuple(s) for s in spec)
        self.dtype = dtype
        self.expo = float(expo)
        self.n = len(self.spec)
        self.scale = float(scale)  # log10 of the overall data scale, shared evenly by the tensors
        self.fillkey = fillkey
        self.raw = []
        ts = []
        for i, labs in enumerate(self.spec):
            d = fill("generic", [DIM[l] for l in labs], dtype, key=("c01", fillkey, i, labs))
            if self.scale:
                d = (d * 10.0 ** (self.scale / self.n)).astype(dtype)
            self.raw.append((d, labs))
            ts.append(qtn.Tensor(d.copy(), labs, tags=["T%d" % i, "G%d" % (i % 2)]))
        self.tn = qtn.TensorNetwork(ts)
        self.tn.exponent = self.expo
        self.freq = label_freq(self.spec)
        self.labels = sorted(self.freq)
        self.hyper = any(v > 2 for v in self.freq.values())
        self.dflt = default_out(self.spec)
        self.ttags = ["T%d" % i for i in range(self.n)]
        self._refs = {}
        self._abs = {}
        self.rtol = rtol_of(dtype)

    def ref(self, out, with_expo=True):
        out = tuple(out)
        k = (out, with_expo)
        if k not in self._refs:
            self._refs[k] = ref.tn_value(self.raw, out, self.expo if with_expo else 0.0)
        return self._refs[k]

    def absref(self, out):
        """upper bound on the size of the individual terms of the sum (used
        as the scale of the rounding error when a sum cancels)"""
        out = tuple(out)
        if out not in self._abs:
            v = ref.tn_value([(np.abs(a), l) for a, l in self.raw], out, self.expo)
            self._abs[out] = float(np.max(v)) if np.size(v) else 0.0
        return self._abs[out]

    def hyperish(self, out):
        """some label sits on >= 3 tensors, or a requested output label sits
        on >= 2 tensors: the cases for which default output inference is not
        the denotation and ``output_inds`` is semantically needed"""
        if self.hyper:
            return True
        if out is None:
            return False
        return any(self.freq[l] >= 2 for l in out)

    def intact(self):
        tn = self.tn
        if tn.num_tensors != self.n or tn.exponent != self.expo:
            return False
        for (d, labs), t in zip(self.raw, tn.tensors):
            if t.inds != labs or not np.array_equal(t.data, d):
                return False
        return True

    def rebuild(self):
        """Repair the SAME network object after a call changed it (callers
        hold references to ``self.tn``): restore every tensor and the
        exponent; if the structure itself changed, refill the object."""
        import quimb.tensor as qtn

        tn = self.tn
        ts = tn.tensors
        if len(ts) == self.n and all(set(t.tags) == {"T%d" % i, "G%d" % (i % 2)} for i, t in enumerate(ts)):
            for (d, labs), t in zip(self.raw, ts):
                t.modify(data=d.copy(), inds=labs)
        else:
            for tid in list(tn.tensor_map):
                tn.pop_tensor(tid)
            for i, (d, labs) in enumerate(self.raw):
                tn.add_tensor(qtn.Tensor(d.copy(), labs, tags=["T%d" % i, "G%d" % (i % 2)]))
        tn.exponent = getattr(self, "expo_set", self.expo)


def denote_tn(tn, out):
    """Reference denotation of a LIVE network over ``out`` (numpy einsum on
    its arrays x 10**exponent)."""
    return ref.tn_value([(np.asarray(t.data), t.inds) for t in tn.tensors], tuple(out), float(tn.exponent))


def normalise(x, out):
    """Bring whatever an entry point returned into (labels, ndarray).
    ``out``: labels over which a returned NETWORK is denoted."""
    import quimb.tensor as qtn

    if isinstance(x, tuple) and len(x) == 2 and not isinstance(x[0], str):
        # (mantissa, exponent) from strip_exponent=True
        m, e = x
        labs, arr = normalise(m, out)
        return labs, arr * 10.0 ** float(np.real(e))
    if isinstance(x, qtn.TensorNetwork):
        return tuple(out), denote_tn(x, out)
    if isinstance(x, qtn.Tensor):
        return tuple(x.inds), np.asarray(x.data)
    return (), np.asarray(x)


def compare(labs, arr, want_labs, want, rtol, order_matters, absscale=None):
    """-> None when equal, else kind in {'labels','order','shape','value'}"""
    labs = tuple(labs)
    want_labs = tuple(want_labs)
    if labs != want_labs:
        if sorted(labs) != sorted(want_labs) or len(set(labs)) != len(labs):
            return "labels"
        if order_matters:
            return "order"
        arr = np.transpose(arr, [labs.index(l) for l in want_labs])
    arr = np.asarray(arr)
    want = np.asarray(want)
    if arr.shape != want.shape:
        return "shape"
    if arr.size == 0:
        return None
    if not np.all(np.isfinite(arr)):
        return "value"
    err = float(np.max(np.abs(arr - want)))
    scale = float(np.max(np.abs(want)))
    if err <= rtol * scale:
        return None
    if absscale is not None and err <= rtol * 1e-3 * absscale():
        return None
    return "value"


def diagnose(arr, want, expo, rtol):
    """Structural explanation of a value mismatch (part of the root-cause
    signature): which simple transformation of the expected value was
    returned instead."""
    arr = np.asarray(arr)
    want = np.asarray(want)
    if arr.shape != want.shape:
        return "other"

    def eq(x, y):
        s = float(np.max(np.abs(y))) if y.size else 0.0
        return bool(np.all(np.isfinite(x))) and float(np.max(np.abs(x - y))) <= max(rtol, 1e-7) * s

    for cj, cname in ((False, ""), (True, ",conjugated")):
        a = np.conj(arr) if cj else arr
        if cj and eq(want, np.conj(want)):
            break
        if cj and eq(a, want):
            return "conjugated"
        if expo != 0.0:
            if eq(a * 10.0**expo, want):
                return "missing-10**exponent" + cname
            if eq(a, want * 10.0**expo):
                return "double-10**exponent" + cname
            if eq(a * 10.0 ** (2 * expo), want):
                return "missing-10**(2*exponent)" + cname
            if eq(a * 10.0 ** (0.5 * expo), want):
                return "missing-10**(exponent/2)" + cname
    return "other"


class Acc:
    """Per-cell accumulator (kept small: one record per distinct signature)."""

    def __init__(self, only=None):
        self.n = 0
        self.by = {}
        self.rej = {}
        self.bad = {}
        self.nt = []
        self.out = {}
        self.only = only
        import time

        self.t0 = time.process_time()

    def want(self, sub):
        return self.only is None or core.jsonable(sub) == core.jsonable(self.only)

    def ok(self, entry, outcome=None):
        self.n += 1
        self.by[entry] = self.by.get(entry, 0) + 1
        if outcome:
            self.out[outcome] = self.out.get(outcome, 0) + 1

    def reject(self, what):
        self.rej[what] = self.rej.get(what, 0) + 1

    def violation(self, msg, sub, **sig):
        k = core.sig_key(sig)
        if k in self.bad:
            self.bad[k]["count"] += 1
        else:
            self.bad[k] = {"prob": core.problem(msg, **sig), "sub": core.jsonable(sub), "count": 1}

    def result(self):
        import time

        return {"n": self.n, "by": self.by, "rej": self.rej, "bad": list(self.bad.values()), "nt": self.nt, "out": self.out, "cpu": time.process_time() - self.t0}


def evaluate(acc, net, sub, entry, thunk, out, *, want=None, want_labs=None, order=True, opts="", allow=None, denote_over=None, facts=None, with_expo=True, force=False):
    """Run one entry point and compare with the reference.

    out        requested output labels (None = default inference)
    want       expected array when it is not simply ref(out)
    want_labs  labels of ``want``
    allow      callable(exc) -> rejection name or None  (documented rejection)
    denote_over labels over which a returned network is denoted
    """
    if not force and not acc.want(sub):
        return None
    eff = net.dflt if out is None else tuple(out)
    if want is None:
        want = net.ref(eff, with_expo)
        want_labs = eff
    facts = dict(facts or {})
    base = dict(entry=entry, strip="strip" in opts.split(","), expo=bool(net.expo != 0.0), hyperish=bool(net.hyperish(out)), out_given=out is not None)
    base.update(facts)
    if getattr(net, "scale", 0.0):
        base["data_scale"] = "tiny" if net.scale < 0 else "huge"
    try:
        got = thunk()
    except Exception as ex:
        what = None
        if allow is not None and not isinstance(ex, np.linalg.LinAlgError):
            what = allow(ex)
        if what:
            acc.reject("%s:%s" % (entry, what))
        else:
            acc.violation("%s[%s] on %s out=%r expo=%s raised %s: %s" % (entry, opts, net.spec, out, net.expo, type(ex).__name__, str(ex)[:200]), sub, kind="exception", exc=type(ex).__name__, **base)
        if not net.intact():
            net.rebuild()
        return None
    try:
        labs, arr = normalise(got, denote_over if denote_over is not None else eff)
    except KeyError as ex:
        # a returned network no longer carries a requested label
        acc.violation("%s[%s] on %s out=%r: returned network lost label %s" % (entry, opts, net.spec, out, ex), sub, kind="labels", diag=None, **base)
        return None
    except Exception as ex:
        acc.violation("%s[%s] on %s out=%r: result %r cannot be read: %s" % (entry, opts, net.spec, out, type(got).__name__, str(ex)[:200]), sub, kind="unreadable", **base)
        return None
    kind = compare(labs, arr, want_labs, want, net.rtol, order_matters=(out is not None) and order, absscale=(lambda: net.absref(eff)))
    if not net.intact():
        # the caller's network was changed by a non-inplace call: that is the
        # root cause, whatever else the comparison says
        kind = "input-mutated"
    if kind is not None:
        diag = None
        if kind == "value":
            a2 = arr
            if tuple(labs) != tuple(want_labs):
                a2 = np.transpose(arr, [tuple(labs).index(l) for l in want_labs])
            diag = diagnose(a2, want, net.expo, net.rtol)
        acc.violation(
            "%s[%s] on network %s dtype=%s exponent=%s out=%r: %s mismatch (got labels %r; max|got|=%.6g, max|want|=%.6g, diag=%s)"
            % (entry, opts, net.spec, net.dtype, net.expo, out, kind, labs, float(np.max(np.abs(arr))) if np.size(arr) else 0.0, float(np.max(np.abs(want))) if np.size(want) else 0.0, diag),
            sub,
            kind=kind,
            diag=diag,
            **base,
        )
        if not net.intact():
            net.rebuild()
        return None
    acc.ok(entry, "%s:%s" % (entry, "scalar" if not want_labs else "rank%d" % len(want_labs)))
    return got


def _is_hyper_msg(ex):
    return isinstance(ex, ValueError) and "appears more than twice" in str(ex)


# --------------------------------------------------------------------------- #
#                      table A: full evaluation entry points                  #
# --------------------------------------------------------------------------- #


def splits(out):
    """every split of the ordered labels ``out`` into (left, right), both in
    the order of ``out``"""
    out = tuple(out)
    res = []
    for mask in range(2 ** len(out)):
        l = tuple(x for i, x in enumerate(out) if mask >> i & 1)
        r = tuple(x for i, x in enumerate(out) if not mask >> i & 1)
        res.append((l, r))
    return res


def _vec(n, dtype, key, cols=None):
    shape = (n,) if cols is None else (n, cols)
    return fill("generic", shape, "complex128" if np.dtype(dtype).kind == "c" else "float64", key=("c01vec", key)).astype(dtype)


def full_entries(acc, net, out, cfg):
    """All 'evaluate the whole network' routes for one (network, out)."""
    import quimb.tensor as qtn

    tn = net.tn
    n = net.n
    E = net.expo
    kw = {} if out is None else {"output_inds": out}
    eff = net.dflt if out is None else tuple(out)
    sub0 = ("A", repr(out))

    def ev(name, thunk, **k):
        return evaluate(acc, net, sub0 + (name + "|" + k.get("opts", ""),), name, thunk, out, **k)

    rich = cfg.get("rich", False)
    if out is not None and len(out) > 1 and tuple(out) != tuple(sorted(out)) and not rich:
        # reversed request: only the routes where the ORDER of the request is
        # handled by distinct code (final transposes); everything else is
        # covered by the sorted request
        ts = tn.tensors
        ev("contract(all)", lambda: tn.contract(all, **kw))
        ev("contract(...)", lambda: tn.contract(..., **kw))
        ev("contract_(all)", lambda: tn.copy().contract_(all, **kw), opts="inplace")
        ev("contract_tags", lambda: tn.contract_tags(net.ttags, **kw), opts="T*", facts={"covers_all": True, "inplace": False})
        ev("contract_tags_", lambda: tn.copy().contract_tags_(net.ttags, **kw), opts="T*,inplace", facts={"covers_all": True, "inplace": True})
        _cumul(acc, net, out, cfg, ev, kw, core=True)
        ev("tensor_contract", lambda: qtn.tensor_contract(*ts, exponent=E, **kw), opts="exponent=")
        gl = tuple(range(len(out)))
        ev("to_dense", lambda: qtn.Tensor(np.asarray(tn.to_dense(*[[x] for x in out])), gl), want=net.ref(out), want_labs=gl, opts="one-group-per-label")
        h = len(out) // 2
        g2 = [out[:h], out[h:]]
        ev("to_dense", lambda: qtn.Tensor(np.asarray(tn.to_dense(*g2)), (0, 1)), want=net.ref(out).reshape([int(np.prod([DIM[x] for x in g])) for g in g2]), want_labs=(0, 1), opts="halves")
        if cfg.get("linop", True):
            linop_entries(acc, net, out, cfg, only_split=(tuple(out[:h]), tuple(out[h:])))
        return

    # ---- contract / ^ ------------------------------------------------- #
    ev("contract(all)", lambda: tn.contract(all, **kw))
    ev("contract(...)", lambda: tn.contract(..., **kw))
    ev("contract()", lambda: tn.contract(**kw))
    if out is None:
        ev("^all", lambda: tn ^ all)
        ev("^...", lambda: tn ^ ...)
    ev("contract(all)", lambda: tn.contract(all, strip_exponent=True, **kw), opts="strip")
    ev("contract(all)", lambda: tn.contract(all, preserve_tensor=True, **kw), opts="preserve")
    ev("contract(all)", lambda: tn.contract(all, strip_exponent=True, preserve_tensor=True, **kw), opts="strip,preserve")
    ev("contract_(all)", lambda: tn.copy().contract_(all, **kw), opts="inplace")
    ev("contract_(all)", lambda: tn.copy().contract_(all, strip_exponent=True, **kw), opts="inplace,strip")
    ev("contract_(all)", lambda: tn.copy().contract_(all, equalize_norms=True, **kw), opts="inplace,eqnorm")
    if out is None:

        def ixor():
            t2 = tn.copy()
            t2 ^= all
            return t2

        ev("^=all", ixor, opts="inplace")

    # ---- tag routes that cover the whole network ---------------------- #
    covers = [("T*", list(net.ttags), "any")]
    if n >= 1:
        covers.append(("G*", ["G0", "G1"][: min(n, 2)], "any"))
    if n == 1:
        covers.append(("T0&G0", ["T0", "G0"], "all"))
    for cname, tags, which in covers:
        f = {"covers_all": True, "inplace": False}
        ev("contract(tags)", lambda: tn.contract(tags, which=which, **kw), opts=cname, facts=f)
        ev("contract_tags", lambda: tn.contract_tags(tags, which=which, **kw), opts=cname, facts=f)
        ev("contract(tags)", lambda: tn.contract(tags, which=which, strip_exponent=True, **kw), opts=cname + ",strip", facts=f)
        if cname == "T*":
            ev("contract_tags", lambda: tn.contract_tags(tags, which=which, preserve_tensor=True, **kw), opts=cname + ",preserve", facts=f)
            ev("contract_tags", lambda: tn.contract_tags(tags, which=which, equalize_norms=True, **kw), opts=cname + ",eqnorm", facts=f)
            ev("contract_tags", lambda: tn.contract_tags(tags, which=which, strip_exponent=True, equalize_norms=False, **kw), opts=cname + ",strip,noeq", facts=f)
            fi = {"covers_all": True, "inplace": True}
            ev("contract_tags_", lambda: tn.copy().contract_tags_(tags, which=which, **kw), opts=cname + ",inplace", facts=fi)
            ev("contract_(tags)", lambda: tn.copy().contract_(tags, which=which, strip_exponent=True, **kw), opts=cname + ",inplace,strip", facts=fi)
    f = {"covers_all": True, "inplace": False}
    ev("contract_tags", lambda: tn.contract_tags(all, **kw), opts="all", facts=f)
    ev("contract_tags", lambda: tn.contract_tags(..., **kw), opts="...", facts=f)
    ev("contract_tags", lambda: tn.contract_tags(..., strip_exponent=True, **kw), opts="...,strip", facts=f)

    _cumul(acc, net, out, cfg, ev, kw, core=False)

    # ---- optimizers, explicit paths, trees, expressions ---------------- #
    for o in cfg["optimizers"]:
        ev("contract(all)", lambda: tn.contract(all, optimize=o, **kw), opts="optimize=" + o)
    for o in cfg["optimizers"][:1]:
        ev("contract(tags)", lambda: tn.contract(net.ttags, optimize=o, **kw), opts="T*,optimize=" + o, facts={"covers_all": True, "inplace": False})
    for p in pairwise_paths(n):
        ev("contract(all)", lambda: tn.contract(all, optimize=p, **kw), opts="path=%s" % (p,))

    def via_tree():
        tree = tn.contraction_tree(optimize="greedy", output_inds=out)
        return tn.contract(all, optimize=tree, **kw)

    ev("contract(all)", via_tree, opts="optimize=tree")
    # (an empty LIST path for a one-tensor network trips cotengra's hashing of
    # the optimize argument - third-party, not an evaluation route of quimb)

    def via_path():
        path = tn.contraction_path(optimize="greedy", output_inds=out)
        return tn.contract(all, optimize=path, **kw)

    if n >= 2:
        ev("contract(all)", via_path, opts="optimize=contraction_path")

    def via_expr():
        expr = tn.contract(all, get="expression", **kw)
        return qtn.Tensor(expr(*tn.arrays), eff)

    # an expression acts on the raw arrays: the stored exponent is not part of it
    ev("contract(get=expression)", via_expr, with_expo=False)

    def via_expr_tags():
        expr = tn.contract_tags(net.ttags, get="expression", **kw)
        return qtn.Tensor(expr(*tn.arrays), eff)

    ev("contract_tags(get=expression)", via_expr_tags, with_expo=False)

    # ---- tensor_contract / @ ------------------------------------------ #
    ts = tn.tensors
    ev("tensor_contract", lambda: qtn.tensor_contract(*ts, **kw), with_expo=False)
    ev("tensor_contract", lambda: qtn.tensor_contract(*ts, exponent=E, **kw), opts="exponent=")
    ev("tensor_contract", lambda: qtn.tensor_contract(*ts, exponent=E, strip_exponent=True, **kw), opts="exponent=,strip")
    ev("tensor_contract", lambda: qtn.tensor_contract(*ts, strip_exponent=True, preserve_tensor=True, **kw), opts="strip,preserve", with_expo=False)
    ev("tensor_contract", lambda: qtn.tensor_contract(*ts[::-1], exponent=E, **kw), opts="reversed,exponent=", order=out is not None)
    ev("Tensor.contract", lambda: ts[0].contract(*ts[1:], **kw) if n > 1 else qtn.tensor_contract(ts[0], **kw), with_expo=False)
    if n == 2 and out is None:
        ev("Tensor@Tensor", lambda: ts[0] @ ts[1], with_expo=False)
        ev("Tensor@Tensor", lambda: ts[1] @ ts[0], opts="swapped", with_expo=False)

    # ---- to_dense: every split of the outputs into <= 2 groups --------- #
    if out is not None:
        for l, r in splits(out):
            groups = [g for g in (l, r) if g]
            if not groups:
                continue
            labs = tuple(l) + tuple(r)
            wantarr = net.ref(labs).reshape([int(np.prod([DIM[x] for x in g])) for g in groups])
            gl = tuple(range(len(groups)))
            nm = "%s|%s" % ("".join(l), "".join(r))
            ev("to_dense", lambda: qtn.Tensor(np.asarray(tn.to_dense(*groups)), gl), want=wantarr, want_labs=gl, opts=nm)
            if len(groups) == 2 or len(l) <= 1:
                ev("to_qarray", lambda: qtn.Tensor(np.asarray(tn.to_qarray(*groups)), gl), want=wantarr, want_labs=gl, opts=nm)
        if len(out) >= 1:
            groups1 = [[x] for x in out]
            gl = tuple(range(len(out)))
            ev("to_dense", lambda: qtn.Tensor(np.asarray(tn.to_dense(*groups1)), gl), want=net.ref(out), want_labs=gl, opts="one-group-per-label")
            ev("to_dense", lambda: qtn.Tensor(np.asarray(tn.to_dense(*groups1, optimize="greedy")), gl), want=net.ref(out), want_labs=gl, opts="one-group-per-label,greedy")

    # ---- norm / overlap / make_norm / make_overlap --------------------- #
    nrm = float(np.sqrt(np.sum(np.abs(net.ref(eff)) ** 2)))
    W = lambda x: np.asarray(x)  # noqa: E731
    ev("norm", lambda: tn.norm(**kw), want=W(nrm), want_labs=())
    ev("norm", lambda: tn.norm(squared=True, **kw), want=W(nrm**2), want_labs=(), opts="squared")
    ev("norm", lambda: tn.norm(strip_exponent=True, **kw), want=W(nrm), want_labs=(), opts="strip")
    ev("norm", lambda: tn.norm(squared=True, strip_exponent=True, **kw), want=W(nrm**2), want_labs=(), opts="squared,strip")
    ev("norm", lambda: tn.norm(optimize="greedy", **kw), want=W(nrm), want_labs=(), opts="greedy")
    ev("make_norm", lambda: tn.make_norm(**kw).contract(all, output_inds=()), want=W(nrm**2), want_labs=(), opts="contract(all)")
    ev("make_norm", lambda: tn.make_norm(layer_tags=("KET", "BRA"), **kw).contract(["KET", "BRA"], output_inds=()), want=W(nrm**2), want_labs=(), opts="contract(KET,BRA)", facts={"covers_all": True, "inplace": False, "expo2": True})
    oth = other_net(net)
    ov = np.sum(np.conj(oth.ref(eff)) * net.ref(eff))
    ev("overlap", lambda: tn.overlap(oth.tn, **kw), want=W(ov), want_labs=(), opts="other")
    ev("overlap", lambda: tn.overlap(tn, **kw), want=W(nrm**2), want_labs=(), opts="self")
    ev("overlap", lambda: oth.tn.overlap(tn, **kw), want=W(np.conj(ov)), want_labs=(), opts="swapped")
    # every operand-type pair: x.overlap(y) = <y, x> = vdot(y, x), the ARGUMENT is conjugated
    # (dense single-tensor stand-ins built from the reference arrays)
    tx = qtn.Tensor(np.array(net.ref(eff)), eff, tags="X")
    ty = qtn.Tensor(np.array(oth.ref(eff)), eff, tags="Y")
    fo = {"overlap_pair": True}
    ev("Tensor.overlap(Tensor)", lambda: tx.overlap(ty), want=W(ov), want_labs=(), facts=fo)
    ev("Tensor.overlap(Tensor)", lambda: ty.overlap(tx), want=W(np.conj(ov)), want_labs=(), opts="swapped", facts=fo)
    ev("Tensor.overlap(TN)", lambda: tx.overlap(oth.tn, **kw), want=W(ov), want_labs=(), facts=fo)
    ev("Tensor.overlap(TN)", lambda: ty.overlap(tn, **kw), want=W(np.conj(ov)), want_labs=(), opts="swapped", facts=fo)
    ev("Tensor.overlap(TN)", lambda: tx.overlap(oth.tn, optimize="greedy", **kw), want=W(ov), want_labs=(), opts="greedy", facts=fo)
    ev("TN.overlap(Tensor)", lambda: tn.overlap(ty, **kw), want=W(ov), want_labs=(), facts=fo)
    ev("TN.overlap(Tensor)", lambda: oth.tn.overlap(tx, **kw), want=W(np.conj(ov)), want_labs=(), opts="swapped", facts=fo)
    ev("make_overlap", lambda: tn.make_overlap(oth.tn, **kw).contract(all, output_inds=()), want=W(ov), want_labs=(), opts="contract(all)")
    ev("make_overlap", lambda: tn.make_overlap(oth.tn, **kw).contract(..., output_inds=(), strip_exponent=True), want=W(ov), want_labs=(), opts="contract(...),strip")

    # ---- trace(left, right) -------------------------------------------- #
    # trace identifies two outer labels of equal size and sums them; the
    # default route is only defined when the result is not hyper
    if out is None:
        for l, r in (("a", "d"), ("d", "a")):
            if l in net.dflt and r in net.dflt:
                rest = tuple(x for x in net.dflt if x not in (l, r))
                full = net.ref(net.dflt)
                wanttr = np.trace(full, axis1=net.dflt.index(l), axis2=net.dflt.index(r))
                ev("trace", lambda: tn.trace([l], [r]), want=wanttr, want_labs=rest, opts="%s=%s" % (l, r), order=False, facts={"covers_all": True, "inplace": False})

    # ---- TNLinearOperator for every bipartition of the outputs --------- #
    if out is not None and cfg.get("linop", True):
        linop_entries(acc, net, out, cfg)


def _cumul(acc, net, out, cfg, ev, kw, core):
    """contract_cumulative / >> for every permutation of the tag groups"""
    tn = net.tn
    n = net.n
    rich = cfg.get("rich", False)
    hyperish = net.hyperish(out)
    not_perm = out is not None and sorted(out) != sorted(net.dflt)

    def allow_cumul(ex):
        # documented limits (DESIGN section 7): contract_cumulative cannot sum
        # a dangling label nor keep a shared one; on hyper networks its
        # intermediate default inference raises the documented hyper error
        if isinstance(ex, ValueError) and (not_perm or hyperish):
            return "ValueError(out-not-permutation-of-outer)" if not_perm and not net.hyper else "ValueError(hyper)"
        return None

    fc = {"cumulative": True}
    seqs = [("T" + "".join(str(i) for i in p), [net.ttags[i] for i in p]) for p in itertools.permutations(range(n))]
    ident = seqs[0][1]
    rev = seqs[-1][1]
    if core:
        ev("contract_cumulative", lambda: tn.contract_cumulative(ident, **kw), opts="T-fwd", allow=allow_cumul, facts=fc)
        ev("contract_cumulative", lambda: tn.contract_cumulative(rev, strip_exponent=True, **kw), opts="rev,strip", allow=allow_cumul, facts=fc)
        return
    for sname, sq in seqs:
        ev("contract_cumulative", lambda: tn.contract_cumulative(sq, **kw), opts=sname, allow=allow_cumul, facts=fc)
    variants = (("fwd", ident), ("rev", rev)) if (n > 1 and rich) else (("fwd", ident),)
    for sname, sq in variants:
        ev("contract_cumulative", lambda: tn.contract_cumulative(sq, strip_exponent=True, **kw), opts=sname + ",strip", allow=allow_cumul, facts=fc)
        ev("contract_cumulative", lambda: tn.contract_cumulative(sq, equalize_norms=True, **kw), opts=sname + ",eqnorm", allow=allow_cumul, facts=fc)
        ev("contract_cumulative", lambda: tn.contract_cumulative(sq, strip_exponent=True, equalize_norms=False, **kw), opts=sname + ",strip,noeq", allow=allow_cumul, facts=fc)
        ev("contract_cumulative", lambda: tn.contract_cumulative(sq, preserve_tensor=True, **kw), opts=sname + ",preserve", allow=allow_cumul, facts=fc)
        ev("contract_cumulative", lambda: tn.copy().contract_cumulative(sq, inplace=True, **kw), opts=sname + ",inplace", allow=allow_cumul, facts=fc)
        ev("contract_cumulative", lambda: tn.copy().contract_cumulative(sq, inplace=True, strip_exponent=True, **kw), opts=sname + ",inplace,strip", allow=allow_cumul, facts=fc)
    if n >= 2:
        gseqs = [("G01", [["G0"], ["G1"]]), ("G10", [["G1"], ["G0"]])]
        if rich:
            gseqs.append(("G0G1flat", ["G0", "G1"]))
        if n >= 3:
            gseqs.append(("T01|T2..", [net.ttags[:2]] + [[t] for t in net.ttags[2:]]))
            if rich:
                gseqs.append(("T0|T12..", [[net.ttags[0]], net.ttags[1:]]))
        for sname, sq in gseqs:
            ev("contract_cumulative", lambda: tn.contract_cumulative(sq, **kw), opts=sname, allow=allow_cumul, facts=fc)
        p0 = pairwise_paths(n)[-1]
        ev("contract_cumulative", lambda: tn.contract_cumulative([net.ttags], optimize=p0, **kw), opts="onegroup,path", allow=allow_cumul, facts=fc)
    if out is None:
        ev(">>", lambda: tn >> ident, opts="fwd", facts=fc)
        ev(">>", lambda: tn >> rev, opts="rev", facts=fc)

        def irshift():
            t2 = tn.copy()
            t2 >>= ident
            return t2

        ev(">>=", irshift, opts="fwd,inplace", facts=fc)


_OTHER = {}


def other_net(net):
    k = (net.spec, net.dtype, net.expo != 0.0, net.scale)
    o = _OTHER.get(k)
    if o is None or not o.intact():
        if len(_OTHER) > 64:
            _OTHER.clear()
        o = _OTHER[k] = Net(net.spec, net.dtype, -0.75 if net.expo != 0.0 else 0.0, fillkey="other", scale=net.scale)
    return o


def linop_entries(acc, net, out, cfg, only_split=None):
    import quimb.tensor as qtn
    from quimb.tensor.tensor_core import TNLinearOperator as TNLO

    rich = cfg.get("rich", False)

    tn = net.tn
    sub0 = ("A", repr(out))
    is_dflt = sorted(out) == sorted(net.dflt) and not net.hyper
    for l, r in splits(out) if only_split is None else [only_split]:
        ld = int(np.prod([DIM[x] for x in l])) if l else 1
        rd = int(np.prod([DIM[x] for x in r])) if r else 1
        M = net.ref(tuple(l) + tuple(r)).reshape(ld, rd)
        nm = "%s|%s" % ("".join(l), "".join(r))
        f = {"linop": True}
        v = _vec(rd, net.dtype, ("v", rd))
        w = _vec(ld, net.dtype, ("w", ld))
        m = _vec(rd, net.dtype, ("m", rd), cols=2)

        def ev(name, thunk, want, opts="", xf=None, **k):
            want = np.asarray(want)
            ff = dict(f, **xf) if xf else f
            gl = tuple(range(want.ndim))

            def th():
                x = np.asarray(thunk())
                if x.shape != want.shape and x.size == want.size and "to_dense" in name or name == "linop.A":
                    # an empty side gives a missing axis instead of a size-1 axis: not a value question
                    x = x.reshape(want.shape)
                return qtn.Tensor(x, gl)

            return evaluate(acc, net, sub0 + (name + "|" + nm + "," + opts,), name, th, out, want=want, want_labs=gl, opts=opts, facts=ff, **k)

        mk = lambda: tn.aslinearoperator(l, r)  # noqa: E731
        try:
            A = mk()
        except Exception as ex:
            acc.violation("aslinearoperator(%r,%r) on %s raised %s: %s" % (l, r, net.spec, type(ex).__name__, str(ex)[:200]), sub0 + ("linop.shape|" + nm + ",",), entry="aslinearoperator", kind="exception", exc=type(ex).__name__)
            continue
        if not net.intact():
            if acc.want(sub0 + ("linop.shape|" + nm + ",",)):
                acc.violation("aslinearoperator(%r,%r) on %s exponent=%s changed the network it was built from" % (l, r, net.spec, net.expo), sub0 + ("linop.shape|" + nm + ",",), entry="aslinearoperator", kind="input-mutated", linop=True, expo=bool(net.expo != 0.0))
            net.rebuild()
            continue
        if (A.shape != (ld, rd)) and acc.want(sub0 + ("linop.shape|" + nm + ",",)):
            acc.violation("aslinearoperator(%r,%r) on %s has shape %r, want %r" % (l, r, net.spec, A.shape, (ld, rd)), sub0 + ("linop.shape|" + nm + ",",), entry="linop.shape", kind="shape")
        ev("linop@vec", lambda: mk() @ v, M @ v)
        ev("linop@mat", lambda: mk() @ m, M @ m)
        ev("linop.H@vec", lambda: mk().H @ w, M.conj().T @ w)
        ev("linop.T@vec", lambda: mk().T @ w, M.T @ w)
        ev("linop.conj()@vec", lambda: mk().conj() @ v, M.conj() @ v)
        ev("linop.astype@vec", lambda: mk().astype("complex128") @ v.astype("complex128"), M @ v, opts="complex128")
        # (real test vectors: a dropped conjugation then shows up as exactly the conjugate)
        wr = np.real(w).astype("complex128")
        vr = np.real(v).astype("complex128")
        ev("linop.H.astype@vec", lambda: mk().H.astype("complex128") @ wr, M.conj().T @ wr, opts="complex128", xf={"is_conj": True})
        ev("linop.conj().astype@vec", lambda: mk().conj().astype("complex128") @ vr, M.conj() @ vr, opts="complex128", xf={"is_conj": True})
        ev("TNLinearOperator@vec", lambda: TNLO(tn, l, r, optimize="greedy") @ v, M @ v, opts="from-network,greedy")
        ev("linop.H@mat", lambda: mk().H @ _vec(ld, net.dtype, ("wm", ld), cols=2), M.conj().T @ _vec(ld, net.dtype, ("wm", ld), cols=2))
        if rich or only_split is not None:
            ev("linop.matvec", lambda: mk().matvec(v), M @ v)
            ev("linop.rmatvec", lambda: mk().rmatvec(w), M.conj().T @ w)
            ev("linop.H.H@vec", lambda: mk().H.H @ v, M @ v)
            ev("TNLinearOperator@vec", lambda: TNLO(tn, l, r) @ v, M @ v, opts="from-network")
        # same object used twice (cached contractor), with different vectors
        v2 = _vec(rd, net.dtype, ("v2", rd))

        def twice():
            B = mk()
            B @ v
            return B @ v2

        ev("linop@vec", twice, M @ v2, opts="cached-contractor")
        if is_dflt and out:
            # to_dense / trace of the operator use default output inference:
            # defined when the operator's labels are exactly the outer labels
            ev("linop.to_dense", lambda: mk().to_dense(), M)
            ev("linop.A", lambda: mk().A, M)
            ev("linop.H.to_dense", lambda: mk().H.to_dense(), M.conj().T)
            ev("linop.T.to_dense", lambda: mk().T.to_dense(), M.T)
            ev("linop.conj().to_dense", lambda: mk().conj().to_dense(), M.conj())
            if l and r and tuple(DIM[x] for x in l) == tuple(DIM[x] for x in r):
                ev("linop.trace", lambda: mk().trace(), np.trace(M))
                ev("np.trace(linop)", lambda: np.trace(mk()), np.trace(M))
                ev("linop.H.trace", lambda: mk().H.trace(), np.conj(np.trace(M)), xf={"is_conj": True})
                ev("linop.conj().trace", lambda: mk().conj().trace(), np.conj(np.trace(M)), xf={"is_conj": True})
                ev("linop.T.trace", lambda: mk().T.trace(), np.trace(M))


def cell_full(cell, common):
    """worker for table A: one (network, dtype, exponent) x all outputs"""
    only = cell.get("only")
    acc = Acc(only)
    net = Net(cell["spec"], cell["dtype"], cell["expo"], scale=cell.get("scale", 0.0))
    cfg = common
    for out in output_requests(net.spec, with_reversed=cfg.get("reversed_outs", True)):
        if only is not None and repr(out) != only[1]:
            continue
        before = acc.n
        full_entries(acc, net, out, cfg)
        if acc.n > before and any(v >= 2 for v in net.freq.values()):
            acc.nt.append(core.digest(("A", net.spec, net.dtype, net.expo, net.scale, out))[:16])
    return acc.result()


# --------------------------------------------------------------------------- #
#                        table B: partial contraction routes                  #
# --------------------------------------------------------------------------- #


def tag_routes(n, all_subsets):
    """(tags, which) routes.  all_subsets: every non-empty subset of the tag
    alphabet with which in any/all; otherwise, for every selected tensor set,
    the first (simplest) route per ``which`` that reaches it."""
    tags = ["T%d" % i for i in range(n)] + ["G0", "G1"][: min(n, 2)]
    tag_of = {i: {"T%d" % i, "G%d" % (i % 2)} for i in range(n)}
    routes = []
    seen = set()
    for k in range(1, len(tags) + 1):
        for sub in itertools.combinations(tags, k):
            for which in ("any", "all"):
                if which == "any":
                    sel = tuple(i for i in range(n) if tag_of[i] & set(sub))
                else:
                    sel = tuple(i for i in range(n) if set(sub) <= tag_of[i])
                key = (sel, which)
                if not all_subsets:
                    if key in seen:
                        continue
                    if not sel and (which, "empty") in seen:
                        continue
                    seen.add(key)
                    if not sel:
                        seen.add((which, "empty"))
                routes.append((list(sub), which, sel))
    return routes


def local_outputs(net, sel):
    """Every admissible local output of contracting the tensors ``sel``:
    labels also carried by the rest must be kept; each label carried only by
    the group may be kept or summed.  Returns (local_out or None, global O)."""
    group = [net.spec[i] for i in sel]
    rest = [net.spec[i] for i in range(net.n) if i not in sel]
    glabs = list(dict.fromkeys(l for labs in group for l in labs))
    rlabs = list(dict.fromkeys(l for labs in rest for l in labs))
    must = [l for l in glabs if l in rlabs]
    optional = [l for l in glabs if l not in rlabs]
    gfreq = label_freq(group)
    res = []
    for k in range(len(optional) + 1):
        for keep in itertools.combinations(optional, k):
            lo = tuple(l for l in glabs if l in must or l in keep)
            O = lo + tuple(l for l in rlabs if l not in lo)
            res.append((lo, O))
            if len(lo) > 1:
                res.append((lo[::-1], O))
    # default inference is the denotation when no label sits more than twice
    # in the group and labels sitting twice in the group are not needed outside
    if all(v <= 2 for v in gfreq.values()) and not any(gfreq[l] == 2 and l in must for l in glabs):
        lo = tuple(l for l in glabs if gfreq[l] == 1)
        O = lo + tuple(l for l in rlabs if l not in lo)
        res.append((None, O))
    return res


def cell_partial(cell, common):
    only = cell.get("only")
    acc = Acc(only)
    net = Net(cell["spec"], cell["dtype"], cell["expo"])
    tn = net.tn
    n = net.n
    did = False
    for tags, which, sel in tag_routes(n, common.get("all_tag_subsets", False)):
        rname = "%s/%s" % ("+".join(tags), which)
        if not sel:
            sub = ("B", rname, "empty")
            if acc.want(sub):
                try:
                    tn.contract_tags(tags, which=which)
                    acc.violation("contract_tags(%r, which=%r) on %s matched nothing but returned" % (tags, which, net.spec), sub, entry="contract_tags", kind="no-rejection", opts="no-match")
                except ValueError:
                    acc.reject("contract_tags:no-tags-matched:ValueError")
                except Exception as ex:
                    acc.violation("contract_tags(%r, which=%r) matched nothing: %s" % (tags, which, type(ex).__name__), sub, entry="contract_tags", kind="exception", exc=type(ex).__name__, opts="no-match")
            continue
        covers = len(sel) == n
        for lo, O in local_outputs(net, sel):
            kw = {} if lo is None else {"output_inds": lo}
            for via, inplace, strip, eq in common["partial_opts"]:
                if eq == "preserve" and not covers:
                    continue
                opts = "%s%s%s%s" % (via, ",inplace" if inplace else "", ",strip" if strip else "", "" if eq == "auto" else ",eq=%s" % eq)
                sub = ("B", rname, repr(lo), opts)
                if not (acc.want(sub) or acc.want(sub + ("finish",))):
                    continue
                k2 = dict(kw)
                if strip:
                    k2["strip_exponent"] = True
                if eq == "preserve":
                    k2["preserve_tensor"] = True
                elif eq != "auto":
                    k2["equalize_norms"] = eq
                base = tn.copy() if inplace else tn

                def thunk():
                    if via == "contract_tags":
                        return base.contract_tags(tags, which=which, inplace=inplace, **k2)
                    return base.contract(tags, which=which, inplace=inplace, **k2)

                facts = {"covers_all": covers, "inplace": inplace, "partial": not covers}
                entry = {"contract_tags": "contract_tags", "contract": "contract(tags)"}[via] + ("_" if inplace else "")
                if inplace:
                    entry = {"contract_tags_": "contract_tags_", "contract(tags)_": "contract_(tags)"}[entry]
                # the local request order is only visible when a tensor comes back
                got = evaluate(acc, net, sub, entry, thunk, O, want=net.ref(O), want_labs=O, order=False, opts=("strip" if strip else "") + ("" if eq == "auto" else ",eq=%s" % eq), denote_over=O, facts=facts, force=True)
                did = did or got is not None
                if got is not None and covers and not inplace and lo is not None:
                    # a tensor came back: its labels must be exactly the request, in order
                    import quimb.tensor as qtn

                    g = got[0] if isinstance(got, tuple) else got
                    if isinstance(g, qtn.Tensor) and tuple(g.inds) != tuple(lo):
                        acc.violation("%s(%r) on %s output_inds=%r returned labels %r" % (entry, tags, net.spec, lo, g.inds), sub, entry=entry, kind="order", **facts)
                if got is not None and not isinstance(got, tuple) and common.get("finish", True):
                    import quimb.tensor as qtn

                    if isinstance(got, qtn.TensorNetwork) and not inplace and not strip:
                        # finish by a second route
                        evaluate(acc, net, sub + ("finish",), "partial-then-contract(all)", lambda: got.contract(all, output_inds=O), O, want=net.ref(O), want_labs=O, facts=facts)
    if did and any(v >= 2 for v in net.freq.values()):
        acc.nt.append(core.digest(("B", net.spec, net.dtype, net.expo))[:16])
    return acc.result()


# --------------------------------------------------------------------------- #
#                 table C: histories of partial contractions                  #
# --------------------------------------------------------------------------- #


def h_global_outs(net):
    """The outputs over which the history invariant is checked: the outer
    labels (labels on >= 2 tensors are summed, hyper ones included), and for
    a hyper network additionally the outer labels plus the hyper labels."""
    order = list(dict.fromkeys(l for labs in net.spec for l in labs))
    outs = [tuple(l for l in order if net.freq[l] == 1)]
    if net.hyper:
        outs.append(tuple(l for l in order if net.freq[l] == 1 or net.freq[l] > 2))
    return outs


def h_menu(tn, O, rich):
    """Events enabled in the live network ``tn`` (tags/labels that exist)."""
    ev = []
    ttags = sorted(t for t in tn.tag_map if t.startswith("T"))
    gtags = sorted(t for t in tn.tag_map if t.startswith("G"))
    tid_of = {}
    for t in ttags:
        (tid,) = tn.tag_map[t]
        tid_of[t] = tid
    # partial contractions by tag (pairs of T tags, single G tag)
    seen = set()
    routes = [((a, b), "any") for a, b in itertools.combinations(ttags, 2)] + [((g,), "any") for g in gtags]
    if rich:
        routes += [((a, b, c), "any") for a, b, c in itertools.combinations(ttags, 3)]
    for tags, which in routes:
        tids = frozenset(tn._get_tids_from_tags(tags, which))
        if len(tids) < 2 or tids in seen:
            continue
        seen.add(tids)
        for via in ("contract_tags_", "contract_", "^="):
            for strip in (0, 1):
                if via == "^=" and strip:
                    continue
                ev.append(("ctags", via, tags, which, strip))
    for ix in sorted(tn.ind_map):
        ev.append(("cind", ix))
    for a, b in itertools.combinations(ttags, 2):
        if tid_of[a] != tid_of[b]:
            ev.append(("cbetween", a, b, 0))
            if rich:
                ev.append(("cbetween", b, a, 1))
    seen_t = set()
    for t in ttags:
        if tid_of[t] in seen_t:
            continue
        seen_t.add(tid_of[t])
        ev.append(("strip", t, None))
        if rich:
            ev.append(("strip", t, 2.0))
    ev.append(("eqnorm", 1.0))
    ev.append(("eqnorm", None))
    ev.append(("dist", 0.0))
    if rich:
        ev.append(("eqnorm", 3.0))
        ev.append(("dist", 1.5))
    return ev


def h_apply(tn, e, O):
    """Apply one event IN PLACE through the public API; returns the network
    to continue with (``^=`` rebinds)."""
    k = e[0]
    if k == "ctags":
        _, via, tags, which, strip = e
        tags = list(tags)
        tids = tn._get_tids_from_tags(tags, which)
        group = [tn.tensor_map[t] for t in sorted(tids)]
        rest = [t for tid, t in tn.tensor_map.items() if tid not in tids]
        rl = {ix for t in rest for ix in t.inds}
        lo = tuple(ix for ix in dict.fromkeys(ix for t in group for ix in t.inds) if ix in rl or ix in O)
        kw = {"strip_exponent": True} if strip else {}
        if via == "contract_tags_":
            r = tn.contract_tags_(tags, which=which, output_inds=lo, **kw)
        elif via == "contract_":
            r = tn.contract_(tags, which=which, output_inds=lo, **kw)
        else:
            # ^= uses default inference: only offered through the same code
            # path when that equals the denotation, else fall back to contract_
            fr = label_freq([t.inds for t in group])
            if all(v <= 2 for v in fr.values()) and tuple(ix for ix in fr if fr[ix] == 1) == lo:
                tn ^= tags
                r = tn
            else:
                r = tn.contract_(tags, which=which, output_inds=lo)
        return r
    if k == "cind":
        tn.contract_ind(e[1], output_inds=O)
        return tn
    if k == "cbetween":
        if e[3]:
            tn.contract_between(e[1], e[2], output_inds=O, equalize_norms=1.0)
        else:
            tn.contract_between(e[1], e[2], output_inds=O)
        return tn
    if k == "strip":
        (tid,) = tn.tag_map[e[1]]
        if e[2] is None:
            tn.strip_exponent(tid)
        else:
            tn.strip_exponent(tn.tensor_map[tid], e[2])
        return tn
    if k == "eqnorm":
        if e[1] is None:
            tn.equalize_norms_()
        else:
            tn.equalize_norms_(e[1])
        return tn
    if k == "dist":
        tn.distribute_exponent(e[1]) if e[1] else tn.distribute_exponent()
        return tn
    raise KeyError(k)


def h_key(tn):
    from ..qhelp import arr_digest

    items = sorted((tuple(t.inds), tuple(t.shape), tuple(sorted(t.tags)), arr_digest(t.data, 7)) for t in tn.tensors)
    return core.digest((items, round(float(np.real(tn.exponent)), 7)))[:20]


def h_check(acc, net, tn, O, hist, sub):
    """invariant after every transition"""
    import quimb.tensor as qtn

    e = hist[-1]
    sig = dict(entry="history:" + e[0] + (":" + e[1] if e[0] == "ctags" else ""), expo=bool(net.expo != 0.0), hyper=net.hyper, depth=len(hist))
    if not isinstance(tn, qtn.TensorNetwork):
        acc.violation("history %r on %s: inplace event returned %s" % (hist, net.spec, type(tn).__name__), sub, kind="type", **sig)
        return False
    try:
        val = denote_tn(tn, O)
    except Exception as ex:
        acc.violation("history %r on %s: outer label lost (%s)" % (hist, net.spec, str(ex)[:100]), sub, kind="labels", **sig)
        return False
    want = net.ref(O)
    kind = compare(O, val, O, want, net.rtol, True, absscale=lambda: net.absref(O))
    if kind:
        acc.violation("history %r on %s exponent=%s: network no longer denotes the same value over %r (%s, %s)" % (hist, net.spec, net.expo, O, kind, diagnose(val, want, net.expo, net.rtol)), sub, kind=kind, **sig)
        return False
    return True


def h_state_routes(acc, net, tn, O, sub, depth):
    """Full evaluation routes started from a reached (non-initial) state:
    its exponent was accrued by the library, not set by the harness."""
    f = {"depth": depth}
    ref_O = net.ref(O)
    evaluate(acc, net, sub, "history-state.contract(all)", lambda: tn.contract(all, output_inds=O), O, want=ref_O, want_labs=O, facts=f)
    evaluate(acc, net, sub, "history-state.contract(all,strip)", lambda: tn.contract(all, output_inds=O, strip_exponent=True), O, want=ref_O, want_labs=O, facts=f)
    evaluate(acc, net, sub, "history-state.contract_(all)", lambda: tn.copy().contract_(all, output_inds=O), O, want=ref_O, want_labs=O, facts=f)
    nrm = float(np.sqrt(np.sum(np.abs(ref_O) ** 2)))
    evaluate(acc, net, sub, "history-state.norm", lambda: tn.norm(output_inds=O), O, want=np.asarray(nrm), want_labs=(), facts=f)
    fr = label_freq([t.inds for t in tn.tensors])
    if all(v <= 2 for v in fr.values()) and sorted(l for l in fr if fr[l] == 1) == sorted(O):
        # plain state: cumulative over the T tags still present, default route
        tags = sorted(t for t in tn.tag_map if t.startswith("T"))
        evaluate(acc, net, sub, "history-state.contract_cumulative", lambda: tn.contract_cumulative(tags, output_inds=O), O, want=ref_O, want_labs=O, facts=dict(f, cumulative=True))
        evaluate(acc, net, sub, "history-state.^all", lambda: tn ^ all, O, want=ref_O, want_labs=O, order=False, facts=f)


def h_rebuild(net, hist, O):
    tn = net.tn.copy()
    for e in hist:
        tn = h_apply(tn, e, O)
    return tn


def cell_history(cell, common):
    only = cell.get("only")
    acc = Acc(None)
    net = Net(cell["spec"], cell["dtype"], cell["expo"])
    depth = common["depth"]
    rich = common.get("rich", False)
    if only is not None:
        # replay: rebuild from scratch and check every step
        O = tuple(only[0])
        hist = [tuple(e) for e in only[1:]]
        tn = net.tn.copy()
        for i, e in enumerate(hist):
            try:
                tn = h_apply(tn, e, O)
            except Exception as ex:
                acc.violation("history %r on %s raised %s: %s" % (hist[: i + 1], net.spec, type(ex).__name__, str(ex)[:200]), hist[: i + 1], entry="history:" + e[0] + (":" + e[1] if e[0] == "ctags" else ""), kind="exception", exc=type(ex).__name__, expo=bool(net.expo != 0.0), hyper=net.hyper, depth=i + 1)
                break
            if not h_check(acc, net, tn, O, hist[: i + 1], hist[: i + 1]):
                break
        else:
            if hist:
                h_state_routes(acc, net, tn, O, [list(O)] + hist, len(hist))
        return acc.result()
    states = 0
    trans = 0
    for O in h_global_outs(net):
        seen = {h_key(net.tn)}
        frontier = [()]
        states += 1
        for d in range(1, depth + 1):
            nxt = []
            for hist in frontier:
                tn0 = h_rebuild(net, hist, O) if hist else net.tn
                for e in h_menu(tn0, O, rich):
                    tn = tn0.copy()
                    h2 = hist + (e,)
                    trans += 1
                    try:
                        tn = h_apply(tn, e, O)
                    except Exception as ex:
                        acc.violation("history %r on %s raised %s: %s" % (h2, net.spec, type(ex).__name__, str(ex)[:200]), [list(O)] + list(h2), entry="history:" + e[0] + (":" + e[1] if e[0] == "ctags" else ""), kind="exception", exc=type(ex).__name__, expo=bool(net.expo != 0.0), hyper=net.hyper, depth=len(h2))
                        continue
                    if not h_check(acc, net, tn, O, h2, [list(O)] + list(h2)):
                        continue
                    acc.ok("history:" + e[0], "history:%s:%d-tensors" % (e[0], tn.num_tensors))
                    k = h_key(tn)
                    if k not in seen:
                        seen.add(k)
                        states += 1
                        nxt.append(h2)
                        # second, real routes from the reached state
                        h_state_routes(acc, net, tn, O, [list(O)] + list(h2), len(h2))
                        if any(v >= 2 for v in net.freq.values()):
                            acc.nt.append(core.digest(("C", net.spec, net.dtype, net.expo, O, k))[:16])
            frontier = nxt
    if not net.intact():
        acc.violation("history exploration mutated the initial network %s" % (net.spec,), [], entry="history", kind="input-mutated")
    res = acc.result()
    res["states"] = states
    res["trans"] = trans
    return res


# --------------------------------------------------------------------------- #
#                       table D: the 1D structured route                      #
# --------------------------------------------------------------------------- #


def cell_1d(cell, common):
    import quimb.tensor as qtn

    only = cell.get("only")
    acc = Acc(only)
    kind, L, D, cyclic, dtype, expo = cell["kind"], cell["L"], cell["D"], cell["cyclic"], cell["dtype"], cell["expo"]
    # arrays from the data alphabet (not from quimb's generators, which
    # normalise through the very routes under test)
    arrays = []
    for i in range(L):
        if cyclic:
            shp = (D, D)
        elif L == 1:
            shp = ()
        elif i == 0 or i == L - 1:
            shp = (D,)
        else:
            shp = (D, D)
        shp = shp + ((2,) if kind == "mps" else (2, 2))
        arrays.append(fill("generic", shp, dtype, key=("c01-1d", kind, L, D, cyclic, i)))
    if kind == "mps":
        tn = qtn.MatrixProductState(arrays, shape="lrp")
    else:
        tn = qtn.MatrixProductOperator(arrays, shape="lrud")
    tn.exponent = float(expo)
    raw = [(np.array(t.data), tuple(t.inds)) for t in tn.tensors]
    outer = tuple(tn.outer_inds())
    rtol = rtol_of(dtype)

    class N:  # minimal Net-like adapter for evaluate()
        pass

    net = N()
    net.spec = "%s(L=%d,D=%d,cyclic=%s)" % (kind, L, D, cyclic)
    net.dtype, net.expo, net.rtol, net.dflt, net.hyper = dtype, float(expo), rtol, outer, False
    net.hyperish = lambda out: False
    _r = {}

    def refv(out, with_expo=True):
        k = (tuple(out), with_expo)
        if k not in _r:
            _r[k] = ref.tn_value(raw, tuple(out), expo if with_expo else 0.0)
        return _r[k]

    net.ref = refv
    net.absref = lambda out: float(np.max(ref.tn_value([(np.abs(a), l) for a, l in raw], tuple(out), expo)))

    def intact():
        return tn.num_tensors == L and tn.exponent == float(expo) and all(t.inds == l and np.array_equal(t.data, a) for (a, l), t in zip(raw, tn.tensors))

    net.intact = intact
    net.rebuild = lambda: None
    outs = [None, outer, outer[::-1]]
    for out in outs:
        kw = {} if out is None else {"output_inds": out}
        s0 = ("D", repr(out))

        def ev(name, thunk, **k):
            return evaluate(acc, net, s0 + (name + "|" + k.get("opts", ""),), name, thunk, out, facts={"structured": True}, **{kk: vv for kk, vv in k.items()})

        ev("1d.contract(...)", lambda: tn.contract(..., **kw))
        ev("1d.contract(all)", lambda: tn.contract(all, **kw))
        ev("1d.contract()", lambda: tn.contract(**kw))
        ev("1d.contract(...)", lambda: tn.contract(..., strip_exponent=True, **kw), opts="strip")
        ev("1d.contract(...)", lambda: tn.contract(..., preserve_tensor=True, **kw), opts="preserve")
        ev("1d.contract_(...)", lambda: tn.copy().contract_(..., **kw), opts="inplace")
        ev("1d.contract_(...)", lambda: tn.copy().contract_(..., strip_exponent=True, **kw), opts="inplace,strip")
        for bsz in (1, 2, 3, 5):
            ev("1d.contract_structured", lambda: tn.contract_structured(..., structure_bsz=bsz, **kw), opts="bsz=%d" % bsz)
            ev("1d.contract_structured", lambda: tn.contract_structured(slice(0, L), structure_bsz=bsz, strip_exponent=True, **kw), opts="bsz=%d,slice,strip" % bsz)
            ev("1d.contract(...)", lambda: tn.contract(..., structure_bsz=bsz, equalize_norms=True, **kw), opts="bsz=%d,eqnorm" % bsz)
        ev("1d.contract(slice-all)", lambda: tn.contract(slice(0, L), **kw))
        if out is None:
            ev("1d^...", lambda: tn ^ ...)
            ev("1d^all", lambda: tn ^ all)
            ev("1d^slice", lambda: tn ^ slice(0, L))
            ev("1d>>", lambda: tn >> [tn.site_tag(i) for i in range(L)])
            # partial structured contraction: network must denote the same
            for i in range(L):
                for j in range(i + 1, L + 1):
                    if j - i < 2 and L > 1:
                        continue
                    ev("1d^slice-partial", lambda: tn ^ slice(i, j), opts="%d:%d" % (i, j), denote_over=outer)
                    ev("1d.contract_(slice)", lambda: tn.copy().contract_(slice(i, j), strip_exponent=True), opts="%d:%d,inplace,strip" % (i, j), denote_over=outer)
    # norm / overlap on the structured classes (H @, & then ^ ...)
    full = refv(outer)
    nrm2 = float(np.sum(np.abs(full) ** 2))
    W = np.asarray
    sN = ("D", "norm")
    ev2 = lambda name, thunk, want, opts="", xf=None: evaluate(acc, net, sN + (name + "|" + opts,), name, thunk, None, want=W(want), want_labs=(), opts=opts, facts=dict({"structured": True}, **(xf or {})))  # noqa: E731
    ev2("1d.norm", lambda: tn.norm(), np.sqrt(nrm2))
    ev2("1d.H@", lambda: tn.H @ tn, nrm2)
    ev2("1d.(H&tn)^...", lambda: (tn.H & tn) ^ ..., nrm2) if kind == "mps" else None
    ev2("1d.(H&tn)^all", lambda: (tn.H & tn) ^ all, nrm2)
    ev2("1d.overlap", lambda: tn.overlap(tn), nrm2)
    if kind == "mps":
        ev2("1d.to_dense", lambda: qtn.Tensor(np.asarray(tn.to_dense()).reshape(-1)[0], ()), np.asarray(full).reshape(-1)[0], opts="first-amplitude")
        evaluate(acc, net, ("D", "to_dense"), "1d.to_dense", lambda: qtn.Tensor(np.asarray(tn.to_dense()).reshape([2] * L), tuple(tn.site_ind(i) for i in range(L))), None, want=refv(tuple(tn.site_ind(i) for i in range(L))), want_labs=tuple(tn.site_ind(i) for i in range(L)), facts={"structured": True})
    else:
        up = tuple(tn.upper_ind(i) for i in range(L))
        lo = tuple(tn.lower_ind(i) for i in range(L))
        evaluate(acc, net, ("D", "to_dense"), "1d.to_dense", lambda: qtn.Tensor(np.asarray(tn.to_dense()).reshape([2] * (2 * L)), up + lo), None, want=refv(up + lo), want_labs=up + lo, facts={"structured": True})
        # MatrixProductOperator.trace -> TensorNetwork.trace -> contract_tags(...) over everything
        ev2("trace", lambda: tn.trace(), np.trace(refv(up + lo).reshape(2**L, 2**L)), opts="mpo", xf={"covers_all": True, "inplace": False})
    if acc.n:
        acc.nt.append(core.digest(("D", net.spec, dtype, expo))[:16])
    return acc.result()




# --------------------------------------------------------------------------- #
#            table E: exponent propagation on combine / copy / select         #
# --------------------------------------------------------------------------- #


def cell_combine(cell, common):
    import quimb.tensor as qtn

    only = cell.get("only")
    acc = Acc(only)
    spec = tuple(tuple(s) for s in cell["spec"])
    n = len(spec)
    e1, e2 = cell["e1"], cell["e2"]
    dtype = cell["dtype"]
    for k in range(1, n):
        # two sub-networks A = tensors[:k] (exponent e1), B = tensors[k:] (exponent e2)
        fa = label_freq(spec[:k])
        fb = label_freq(spec[k:])
        clash = sorted(l for l in fa if fa[l] >= 2 and fb.get(l, 0) >= 2)
        # with check_collisions the clashing INNER labels of B are private to B
        ren = {l: l + "'" for l in clash}
        spec_ref = spec[:k] + tuple(tuple(ren.get(l, l) for l in labs) for labs in spec[k:])
        net = Net(spec, dtype, e1 + e2)
        net.raw = [(a, spec_ref[i]) for i, (a, _) in enumerate(net.raw)]
        net.freq = label_freq(spec_ref)
        net.hyper = any(v > 2 for v in net.freq.values())
        net.dflt = default_out(spec_ref)
        DIM.update({l + "'": DIM[l] for l in clash})
        full = Net(spec, dtype, 0.0)

        def parts():
            ts = full.tn.tensors
            A = qtn.TensorNetwork([t.copy() for t in ts[:k]])
            B = qtn.TensorNetwork([t.copy() for t in ts[k:]])
            A.exponent = e1
            B.exponent = e2
            return A, B

        outs = [None] if not net.hyper else []
        outs.append(tuple(l for l in sorted(net.freq) if "'" not in l))
        for out in outs:
            kw = {} if out is None else {"output_inds": out}
            s0 = ("E", k, repr(out))

            def ev(name, thunk, **kk):
                net.intact = lambda: True
                return evaluate(acc, net, s0 + (name,), name, thunk, out, facts={"combine": True, "clash": bool(clash)}, **kk)

            def mk(op):
                A, B = parts()
                if op == "&":
                    return A & B
                if op == "|":
                    return A | B
                if op == "&=":
                    A &= B
                    return A
                if op == "|=":
                    A |= B
                    return A
                if op == "TN([A,B])":
                    return qtn.TensorNetwork([A, B])
                if op == "combine":
                    return A.combine(B)
                if op == "add_tensor_network":
                    A.add_tensor_network(B)
                    return A
                if op == "add":
                    A.add(B)
                    return A
                if op == "copy":
                    return (A & B).copy()
                if op == "copy(virtual)":
                    return (A & B).copy(virtual=True)
                if op == "TN(tn)":
                    return qtn.TensorNetwork(A & B)
                if op == "select(with_exponent)":
                    return (A & B).select(["G0", "G1"], which="any", with_exponent=True)
                if op == "select_any(virtual=False,with_exponent)":
                    return (A & B).select(["T%d" % i for i in range(n)], which="any", virtual=False, with_exponent=True)
                if op == "astype":
                    return (A & B).astype("complex128")
                if op == "H.H":
                    return (A & B).H.H
                if op == "view_as":
                    return (A & B).view_as(qtn.TensorNetwork)
                raise KeyError(op)

            for op in ("&", "|", "&=", "|=", "TN([A,B])", "combine", "add_tensor_network", "add", "copy", "copy(virtual)", "TN(tn)", "select(with_exponent)", "select_any(virtual=False,with_exponent)", "astype", "H.H", "view_as"):
                ev(op + ".contract(all)", lambda: mk(op).contract(all, **kw))
                ev(op + ".exponent", lambda: qtn.Tensor(np.asarray(float(mk(op).exponent)), ()), want=np.asarray(e1 + e2), want_labs=())
            if out is None and not clash:
                A, B = parts()
                ev("TN@TN", lambda: A @ B)
    if acc.n:
        acc.nt.append(core.digest(("E", spec, dtype, e1, e2))[:16])
    return acc.result()


# --------------------------------------------------------------------------- #
#        table F: stored exponents far outside the double range               #
# --------------------------------------------------------------------------- #
# The exponent mechanism exists for values that a double cannot hold.  Here
# the value is only ever handled as (array, log10 scale): the reference is
# einsum(raw arrays) with scale = stored exponent; a result is read as
# (mantissa, exponent) from the strip_exponent routes, or from a returned
# network as einsum(per-tensor normalised arrays) with scale = exponent +
# sum(log10 of the per-tensor factors).

SHARE_MAX = 280.0  # |exponent| / n_tensors must stay below this for routes that distribute the exponent into the tensors


def denote_log(tn, out):
    """(array, log10 scale) of a live network; raises FloatingPointError when
    a tensor has been zeroed / made non-finite (the value is lost)."""
    ts = []
    log = float(np.real(tn.exponent))
    if not np.isfinite(log):
        raise FloatingPointError("exponent %r" % (tn.exponent,))
    for t in tn.tensors:
        d = np.asarray(t.data)
        m = float(np.max(np.abs(d))) if d.size else 1.0
        if not np.isfinite(m) or m == 0.0:
            raise FloatingPointError("tensor %r has max|data| = %r" % (t.inds, m))
        ts.append((d / m, t.inds))
        log += float(np.log10(m))
    return ref.tn_value(ts, tuple(out), 0.0), log


def read_log(x, out):
    """result of an entry point -> (labels, array, log10 scale)"""
    import quimb.tensor as qtn

    if isinstance(x, qtn.TensorNetwork):
        arr, log = denote_log(x, out)
        return tuple(out), arr, log
    if isinstance(x, tuple) and len(x) == 2:
        m, e = x
        e = float(np.real(e))
        if isinstance(m, qtn.Tensor):
            return tuple(m.inds), np.asarray(m.data), e
        return (), np.asarray(m), e
    raise TypeError("result %s carries no exponent" % type(x).__name__)


def evaluate_log(acc, net, sub, entry, thunk, out, *, want=None, want_labs=None, want_log=None, order=True, opts="", facts=None, force=False, denote_over=None):
    if not force and not acc.want(sub):
        return None
    eff = net.dflt if out is None else tuple(out)
    if want is None:
        want, want_labs = net.ref(eff, False), eff
    if want_log is None:
        want_log = net.expo
    base = dict(entry=entry, extreme=True, expo_sign=int(np.sign(net.expo)), out_given=out is not None)
    base.update(facts or {})
    where = "%s[%s] on network %s dtype=%s exponent=%r(%s) out=%r" % (entry, opts, net.spec, net.dtype, net.expo, type(net.tn.exponent).__name__, out)
    try:
        got = thunk()
    except Exception as ex:
        acc.violation("%s raised %s: %s" % (where, type(ex).__name__, str(ex)[:200]), sub, kind="exception", exc=type(ex).__name__, **base)
        if not net.intact():
            net.rebuild()
        return None
    try:
        labs, arr, log = read_log(got, eff if denote_over is None else denote_over)
    except FloatingPointError as ex:
        acc.violation("%s: the returned network no longer carries the value (%s)" % (where, ex), sub, kind="value-lost", **base)
        return None
    except KeyError as ex:
        acc.violation("%s: returned network lost label %s" % (where, ex), sub, kind="labels", **base)
        return None
    except Exception as ex:
        acc.violation("%s: result %s cannot be read: %s" % (where, type(got).__name__, str(ex)[:200]), sub, kind="unreadable", **base)
        return None
    delta = log - want_log
    kind = None
    if not (np.all(np.isfinite(arr)) and np.isfinite(delta)) or not np.any(arr != 0):
        kind = "value-lost"
    elif abs(delta) > 250:
        kind = "log10-scale"
    else:
        kind = compare(labs, np.asarray(arr) * 10.0**delta, want_labs, want, net.rtol * 10, order_matters=(out is not None) and order, absscale=None)
        if kind == "value":
            # cancellation guard as in evaluate()
            a2 = np.asarray(arr) * 10.0**delta
            if tuple(labs) != tuple(want_labs):
                a2 = np.transpose(a2, [tuple(labs).index(l) for l in want_labs])
            absw = ref.tn_value([(np.abs(a), l) for a, l in net.raw], tuple(want_labs), 0.0) if len(want_labs) == len(eff) and sorted(want_labs) == sorted(eff) else None
            if absw is not None and float(np.max(np.abs(a2 - want))) <= net.rtol * 1e-2 * float(np.max(absw)):
                kind = None
    if kind is None and not net.intact():
        kind = "input-mutated"
    if kind is not None:
        acc.violation("%s: %s mismatch (got labels %r, log10 scale %.6f, want %.6f; max|mantissa|=%.6g)" % (where, kind, labs, log, want_log, float(np.max(np.abs(arr))) if np.size(arr) else 0.0), sub, kind=kind, **base)
        if not net.intact():
            net.rebuild()
        return None
    acc.ok(entry, "%s:%s" % (entry, "scalar" if not want_labs else "rank%d" % len(want_labs)))
    return got


def x_share_ok(tn):
    return tn.num_tensors > 0 and abs(float(np.real(tn.exponent))) / tn.num_tensors <= SHARE_MAX


def x_mass(tn):
    """sum over the tensors of |log10 max|data||: once the exponent has been
    distributed INTO the tensors their product is no longer a double, and a
    contraction of them cannot be represented by any route"""
    tot = 0.0
    for t in tn.tensors:
        m = float(np.max(np.abs(t.data))) if t.size else 1.0
        tot += abs(np.log10(m)) if m > 0 and np.isfinite(m) else np.inf
    return tot


MASS_MAX = 140.0  # also keeps |result|**2 a double: Tensor.norm() squares the entries
PER_TENSOR_MAX = 140.0


def x_norms_ok(tn):
    """every tensor's entries can be squared (strip_exponent / equalize_norms take Frobenius norms)"""
    for t in tn.tensors:
        m = float(np.max(np.abs(t.data))) if t.size else 1.0
        if not (m > 0 and np.isfinite(m)) or abs(np.log10(m)) > PER_TENSOR_MAX:
            return False
    return True


def x_menu(tn, O):
    """history events admissible in log space: an event that distributes the
    exponent into the tensors is offered only while the per-tensor share is
    representable, a contraction only while the product of the tensors is"""
    out = []
    can_contract = x_mass(tn) <= MASS_MAX
    norms_ok = x_norms_ok(tn)
    for e in h_menu(tn, O, False):
        if e[0] == "dist" or (e[0] == "eqnorm" and e[1] is None):
            if not x_share_ok(tn):
                continue
        if e[0] in ("strip", "eqnorm") and not norms_ok:
            continue
        if e[0] in ("ctags", "cind", "cbetween") and not can_contract:
            continue
        out.append(e)
    if x_share_ok(tn):
        out.append(("dist", round(float(np.real(tn.exponent)) / 2, 3)))
    return out


def x_state_routes(acc, net, tn, O, sub):
    f = {"history": True}
    if x_mass(tn) > MASS_MAX:
        return
    evaluate_log(acc, net, sub, "x:state.contract(all,strip)", lambda: tn.contract(all, output_inds=O, strip_exponent=True), O, facts=f)
    evaluate_log(acc, net, sub, "x:state.contract_(all)", lambda: tn.copy().contract_(all, output_inds=O), O, facts=f)
    fr = label_freq([t.inds for t in tn.tensors])
    if all(v <= 2 for v in fr.values()) and sorted(l for l in fr if fr[l] == 1) == sorted(O):
        tags = sorted(t for t in tn.tag_map if t.startswith("T"))
        evaluate_log(acc, net, sub, "x:state.contract_cumulative(strip)", lambda: tn.contract_cumulative(tags, output_inds=O, strip_exponent=True), O, facts=dict(f, cumulative=True))


def cell_extreme(cell, common):
    import quimb.tensor as qtn

    only = cell.get("only")
    hist_replay = only is not None and len(only) > 0 and only[0] == "H"
    acc = Acc(None if hist_replay else only)
    net = Net(cell["spec"], cell["dtype"], cell["expo"])
    if cell["ekind"] == "np":
        net.expo_set = np.float64(cell["expo"])
        net.tn.exponent = net.expo_set
    tn = net.tn
    n = net.n
    E = net.expo
    outs = ([None] if not net.hyper else []) + [tuple(net.labels), ()]
    if len(net.labels) > 1:
        outs.append(tuple(net.labels[::-1]))
    nrm_cache = {}
    if not hist_replay:
        for out in outs:
            if only is not None and repr(out) != only[1]:
                continue
            kw = {} if out is None else {"output_inds": out}
            eff = net.dflt if out is None else tuple(out)
            s0 = ("F", repr(out))
            not_perm = out is not None and sorted(out) != sorted(net.dflt)
            cumul_ok = not (not_perm or net.hyperish(out))

            def ev(name, thunk, **k):
                return evaluate_log(acc, net, s0 + (name + "|" + k.get("opts", ""),), name, thunk, out, **k)

            # ---- routes that return (mantissa, exponent) ------------------
            ev("x:contract(all,strip)", lambda: tn.contract(all, strip_exponent=True, **kw))
            ev("x:contract(...,strip)", lambda: tn.contract(..., strip_exponent=True, **kw))
            ev("x:contract(all,strip)", lambda: tn.contract(all, strip_exponent=True, preserve_tensor=True, **kw), opts="preserve")
            ev("x:contract(all,strip)", lambda: tn.contract(all, strip_exponent=True, optimize="greedy", **kw), opts="greedy")
            ev("x:contract(tags,strip)", lambda: tn.contract(net.ttags, strip_exponent=True, **kw), opts="T*", facts={"covers_all": True, "inplace": False})
            ev("x:contract_tags(strip)", lambda: tn.contract_tags(..., strip_exponent=True, **kw), opts="...", facts={"covers_all": True, "inplace": False})
            ev("x:contract_tags(strip)", lambda: tn.contract_tags(net.ttags, strip_exponent=True, equalize_norms=False, **kw), opts="T*,noeq", facts={"covers_all": True, "inplace": False})
            ev("x:tensor_contract(exponent=,strip)", lambda: qtn.tensor_contract(*tn.tensors, exponent=tn.exponent, strip_exponent=True, **kw))
            if cumul_ok:
                for p in itertools.permutations(range(n)):
                    sq = [net.ttags[i] for i in p]
                    ev("x:contract_cumulative(strip)", lambda: tn.contract_cumulative(sq, strip_exponent=True, **kw), opts="T" + "".join(map(str, p)), facts={"cumulative": True})
                ev("x:contract_cumulative(strip)", lambda: tn.contract_cumulative(net.ttags, strip_exponent=True, equalize_norms=False, **kw), opts="fwd,noeq", facts={"cumulative": True})
                ev("x:contract_cumulative(strip)", lambda: tn.contract_cumulative(net.ttags, strip_exponent=True, preserve_tensor=True, **kw), opts="fwd,preserve", facts={"cumulative": True})
            # ---- in-place routes: the network keeps the exponent ----------
            ev("x:contract_(all)", lambda: tn.copy().contract_(all, **kw), opts="inplace")
            ev("x:contract_(all)", lambda: tn.copy().contract_(all, strip_exponent=True, **kw), opts="inplace,strip")
            ev("x:contract_tags_", lambda: tn.copy().contract_tags_(net.ttags, **kw), opts="T*,inplace", facts={"covers_all": True, "inplace": True})
            ev("x:contract_tags_", lambda: tn.copy().contract_tags_(net.ttags, equalize_norms=True, **kw), opts="T*,inplace,eqnorm", facts={"covers_all": True, "inplace": True})
            if cumul_ok:
                ev("x:contract_cumulative(inplace)", lambda: tn.copy().contract_cumulative(net.ttags, inplace=True, strip_exponent=True, **kw), opts="fwd,strip", facts={"cumulative": True})
                ev("x:contract_cumulative(inplace)", lambda: tn.copy().contract_cumulative(net.ttags, inplace=True, **kw), opts="fwd", facts={"cumulative": True})
            # ---- norm / overlap with the exponent stripped ----------------
            r = net.ref(eff, False)
            nrm = float(np.sqrt(np.sum(np.abs(r) ** 2)))
            W = np.asarray
            ev("x:norm(strip)", lambda: tn.norm(strip_exponent=True, **kw), want=W(nrm), want_labs=(), want_log=E)
            ev("x:norm(squared,strip)", lambda: tn.norm(squared=True, strip_exponent=True, **kw), want=W(nrm**2), want_labs=(), want_log=2 * E)
            ev("x:make_norm.contract(all,strip)", lambda: tn.make_norm(**kw).contract(all, output_inds=(), strip_exponent=True), want=W(nrm**2), want_labs=(), want_log=2 * E)
            ev("x:make_norm.contract_(all)", lambda: tn.make_norm(**kw).contract_(all, output_inds=()), want=W(nrm**2), want_labs=(), want_log=2 * E, opts="inplace", denote_over=())
        # ---- partial routes: the rest of the network must carry the value --
        if n >= 2 and (only is None or only[1] == "partial"):
            for sel in [c for k in range(1, n) for c in itertools.combinations(range(n), k)] + ([tuple(range(n))] if False else []):
                tags = [net.ttags[i] for i in sel]
                rest = n - len(sel) + 1
                for lo, O in local_outputs(net, sel):
                    if lo is not None and tuple(lo) != tuple(sorted(lo)):
                        continue
                    kw = {} if lo is None else {"output_inds": lo}
                    s0 = ("F", "partial", "+".join(tags), repr(lo))
                    f = {"partial": True}

                    def evp(name, thunk, opts=""):
                        return evaluate_log(acc, net, s0 + (name + "|" + opts,), name, thunk, O, want=net.ref(O, False), want_labs=O, opts=opts, facts=f)

                    evp("x:contract_tags(partial)", lambda: tn.contract_tags(tags, **kw))
                    evp("x:contract_tags(partial)", lambda: tn.contract_tags(tags, strip_exponent=True, **kw), "strip")
                    evp("x:contract_tags(partial)", lambda: tn.contract_tags(tags, equalize_norms=True, **kw), "eqnorm")
                    evp("x:contract_tags_(partial)", lambda: tn.copy().contract_tags_(tags, strip_exponent=True, **kw), "inplace,strip")
                    evp("x:contract_(tags)(partial)", lambda: tn.copy().contract_(tags, **kw), "inplace")
                    if lo is None and abs(E) / rest <= SHARE_MAX:
                        # contract_cumulative over an incomplete tag sequence with
                        # equalize_norms=True: maybe_unwrap -> equalize_norms_()
                        # redistributes the stored exponent over what is left
                        for inplace in (False, True):
                            evp("x:contract_cumulative(partial,eqnorm)", lambda: (tn.copy() if inplace else tn).contract_cumulative([tags], equalize_norms=True, inplace=inplace), "inplace" if inplace else "")
                            evp("x:contract_cumulative(partial,eqnorm)", lambda: (tn.copy() if inplace else tn).contract_cumulative([[t] for t in tags], equalize_norms=True, inplace=inplace), ("inplace," if inplace else "") + "one-by-one")
                        evp("x:contract_cumulative(partial)", lambda: tn.contract_cumulative([tags], strip_exponent=True), "strip")
            # whole-network exponent manipulations (no contraction)
            if only is None or only[1] == "partial":
                O = net.dflt if not net.hyper else tuple(net.labels)
                s0 = ("F", "partial", "manip", repr(O))

                def evm(name, thunk, opts=""):
                    return evaluate_log(acc, net, s0 + (name + "|" + opts,), name, thunk, O, want=net.ref(O, False), want_labs=O, opts=opts, facts={"manip": True})

                def do(fn):
                    t2 = tn.copy()
                    fn(t2)
                    return t2

                if abs(E) / n <= SHARE_MAX:
                    evm("x:distribute_exponent", lambda: do(lambda t: t.distribute_exponent()))
                    evm("x:distribute_exponent", lambda: do(lambda t: t.distribute_exponent(E / 2)), "new=E/2")
                    evm("x:equalize_norms", lambda: tn.equalize_norms())
                    evm("x:equalize_norms_", lambda: do(lambda t: t.equalize_norms_()))
                evm("x:distribute_exponent", lambda: do(lambda t: t.distribute_exponent(E - 3.0)), "new=E-3")
                evm("x:equalize_norms", lambda: tn.equalize_norms(1.0), "1.0")
                evm("x:equalize_norms", lambda: tn.equalize_norms(7.5), "7.5")
                evm("x:strip_exponent", lambda: do(lambda t: t.strip_exponent(next(iter(t.tensor_map)))))
                evm("x:copy", lambda: tn.copy())
                evm("x:TN&TN", lambda: tn.select(net.ttags[:1], which="any", with_exponent=True) & tn.select(net.ttags[1:], which="any"))
    # ---- histories (depth 2) in log space --------------------------------- #
    states = 1
    trans = 0
    if n >= 2 and (only is None or hist_replay):
        for O in h_global_outs(net):
            if hist_replay:
                if tuple(only[1]) != tuple(O):
                    continue
                hist = [tuple(e) for e in only[2:]]
                t2 = tn.copy()
                for i, e in enumerate(hist):
                    sub = ["H", list(O)] + [list(x) for x in hist[: i + 1]]
                    r = evaluate_log(acc, net, sub, "x:history:" + e[0], lambda: h_apply(t2, e, O), O, facts={"history": True, "depth": i + 1}, force=True)
                    if r is None:
                        break
                    t2 = r
                else:
                    if hist:
                        x_state_routes(acc, net, t2, O, ["H", list(O)] + [list(x) for x in hist])
                continue
            seen = {h_key(tn)}
            frontier = [()]
            for d in range(1, common.get("depth", 2) + 1):
                nxt = []
                for hist in frontier:
                    tn0 = h_rebuild(net, hist, O) if hist else tn
                    for e in x_menu(tn0, O):
                        t2 = tn0.copy()
                        h2 = hist + (e,)
                        trans += 1
                        sub = ["H", list(O)] + [list(x) for x in h2]
                        r = evaluate_log(acc, net, sub, "x:history:" + e[0], lambda: h_apply(t2, e, O), O, facts={"history": True, "depth": len(h2)})
                        if r is None:
                            continue
                        k = h_key(r)
                        if k not in seen:
                            seen.add(k)
                            states += 1
                            nxt.append(h2)
                            x_state_routes(acc, net, r, O, sub)
                            acc.nt.append(core.digest(("F", net.spec, net.dtype, E, cell["ekind"], O, k))[:16])
                frontier = nxt
    if acc.n and any(v >= 2 for v in net.freq.values()):
        acc.nt.append(core.digest(("F", net.spec, net.dtype, E, cell["ekind"]))[:16])
    res = acc.result()
    res["states"] = states
    if trans:
        res["trans"] = res["n"] + sum(res["rej"].values()) + sum(b["count"] for b in res["bad"])
    return res


# --------------------------------------------------------------------------- #
#                                   driver                                    #
# --------------------------------------------------------------------------- #


def run_cells(ctx, fname, cells, common, name, chunk=None):
    """Evaluate every cell in worker processes and merge the per-cell
    summaries deterministically (cell order, rotated by VERIF_SEED only)."""
    from ..table import rotate

    cells = rotate(cells, ctx.seed)
    n_ok = n_rej = n_bad = 0
    done = 0
    cpu = 0.0
    t_start = ctx.elapsed()
    B = max(ctx.workers * 32, 256)
    for start in range(0, len(cells), B):
        if ctx.out_of_time():
            ctx.cap("time budget hit in table %s after %d of %d cells" % (name, done, len(cells)))
            break
        batch = cells[start : start + B]
        res = ctx.pmap(fname, batch, common=common, chunk=chunk)
        for cell, r in zip(batch, res):
            ctx.states += r.get("states", 1)
            cpu += r.get("cpu", 0.0)
            nt = r["n"] + sum(r["rej"].values()) + sum(b["count"] for b in r["bad"])
            ctx.transitions += r.get("trans", nt)
            ctx.traces += r.get("trans", nt)
            ctx.evaluations += nt
            n_ok += r["n"]
            for k, v in r["by"].items():
                ctx.counters["ok[%s]" % k] += v
            for k, v in r["rej"].items():
                ctx.rejections[k] += v
                n_rej += v
            for k, v in r["out"].items():
                ctx.outcomes[k] += v
            for d in r["nt"]:
                ctx.nontrivial_keys.add(d)
            for b in r["bad"]:
                n_bad += b["count"]
                case = {"engine": "c01", "fn": fname, "cell": cell, "sub": b["sub"], "common": common}
                ctx.violation(b["prob"], case)
                ctx.viol_count[core.sig_key(b["prob"]["sig"])] += b["count"] - 1
        done += len(batch)
        if len(ctx.samples) < 5 and batch:
            ctx.sample({"table": name, "cell": batch[0]})
    print("C01 progress: table %s: %d cells, %d ok / %d rejected / %d violating evaluations, %.0fs" % (name, done, n_ok, n_rej, n_bad, ctx.elapsed() - t_start), flush=True)
    # (timings are informative only; nothing observed depends on them)
    ctx.notes.setdefault("table_wall_seconds", {})[name] = round(ctx.elapsed() - t_start, 1)
    ctx.notes.setdefault("table_worker_cpu_seconds", {})[name] = round(cpu, 1)
    ctx.counters["table.cells[%s]" % name] += done
    ctx.counters["table.ok[%s]" % name] += n_ok
    ctx.counters["table.rejected[%s]" % name] += n_rej
    ctx.counters["table.violating[%s]" % name] += n_bad


PARTIAL_OPTS_QUICK = [
    ("contract_tags", False, False, "auto"),
    ("contract_tags", True, False, "auto"),
    ("contract_tags", False, True, "auto"),
    ("contract_tags", True, True, "auto"),
    ("contract", False, False, "auto"),
    ("contract", True, False, "auto"),
    ("contract", False, True, "auto"),
    ("contract", True, True, "auto"),
    ("contract_tags", False, False, True),
    ("contract_tags", True, True, False),
    ("contract_tags", False, False, "preserve"),
]
PARTIAL_OPTS_THOROUGH = PARTIAL_OPTS_QUICK + [
    ("contract_tags", True, False, True),
    ("contract_tags", False, True, False),
    ("contract", True, False, True),
    ("contract", False, True, False),
    ("contract", False, False, "preserve"),
    ("contract", False, True, "preserve"),
]


def run(ctx):
    thorough = ctx.tier == "thorough"
    only = ctx.opts.get("only")
    limit = int(ctx.opts.get("limit", 0))
    # label alphabet per network size: the full alphabet {a,b,c,d} up to
    # n_full tensors, the 3-label alphabet {a,b,c} (still has a size-1 label
    # and hyper labels) for the largest size
    if thorough:
        alph = {1: "abcd", 2: "abcd", 3: "abcd", 4: "abc"}
    else:
        alph = {1: "abcd", 2: "abcd", 3: "abc"}
    nmax = int(ctx.opts.get("nmax", max(alph)))
    alph = {n: a for n, a in alph.items() if n <= nmax}
    ctx.rule = (
        "networks = every multiset of n label-subsets (<= 3 labels of {a:2,b:3,c:1,d:2}, rank-0 included) in two insertion orders, axis order alternating by position, "
        "tags {T<i>, G<i%2>}; crossed with dtype, stored exponent, every output request (every subset of the labels present, sorted and reversed, + None when not hyper) and every entry "
        "point/option of tables A-E (see module docstring); a case is distinct by (network, dtype, exponent, output[, reached state]) and non-trivial when at least two tensors share a label; "
        "oracle = one numpy einsum over the raw arrays x 10**exponent, labels and their order compared with the request"
    )
    ctx.assumptions += [
        "array entries are not enumerated: one generic fill per tensor (seeded by VERIF_SEED); bookkeeping of labels/exponents does not depend on the values",
        "a repeated label on ONE tensor is excluded (C02's domain); backends other than numpy are not run",
        "contract_cumulative is only required to work when output_inds permutes the outer labels (ValueError otherwise is a counted rejection)",
        "partial contraction by tags is given the local output labels computed by the harness (labels needed by the rest must be kept); default inference is used only where it equals the denotation",
        "TNLinearOperator.to_dense/trace are exercised only when the operator's labels are exactly the outer labels (they use default output inference)",
        "table F: an event/route that DISTRIBUTES the stored exponent into the tensors (distribute_exponent, equalize_norms(None), maybe_unwrap with equalize_norms=True) is only required to work while |exponent| / n_tensors <= 280; a contraction is only requested while the product of the tensors' own magnitudes is a double (sum of |log10 max|data|| <= 140, which also keeps Frobenius norms computable); strip_exponent/equalize_norms events only while every tensor's entries can be squared; routes whose result is a plain number/tensor (not representable) are not run there",
        "a reversed output request runs the order-sensitive core routes only (everything in part of the thorough tier); the sorted request runs everything",
    ]
    expos = [0.0, 2.5] + ([-1.25] if thorough else [])
    cfgA = {"optimizers": ["greedy", "auto-hq", "auto"] if thorough else ["greedy", "auto-hq"], "reversed_outs": True, "linop": True, "rich": thorough}
    ctx.bounds = {
        "label_alphabet_per_n_tensors": alph,
        "label_sizes": DIM,
        "rank_max": 3,
        "dtypes": ["complex128", "float64"] + (["complex64", "float32"] if thorough else []),
        "exponents": expos,
        "history_depth": 3 if thorough else 2,
        "1d": {"L": [1, 2, 3, 4], "bond": [1, 2, 3]},
    }
    specs = {n: network_specs(n, a) for n, a in alph.items()}
    ctx.notes["networks_per_n"] = {n: len(v) for n, v in specs.items()}
    top = max(alph)

    def lim(cells):
        return cells[:: max(1, len(cells) // limit)][:limit] if limit else cells

    def combos_for(n, table):
        """(dtype, exponent) pairs per network size and table"""
        if table == "A":
            if thorough:
                if n <= 2:
                    return [(d, e) for d in ("complex128", "float64") for e in expos] + [("complex64", 2.5), ("float32", 0.0)]
                if n == 3:
                    return [("complex128", 0.0), ("complex128", 2.5), ("complex64", 2.5)]
                return [("complex128", 2.5), ("complex128", 0.0)]
            if n <= 2:
                return [("complex128", 0.0), ("complex128", 2.5), ("float64", 2.5), ("float64", 0.0)]
            return [("complex128", 0.0), ("complex128", 2.5)]
        if table == "B":
            if thorough:
                if n <= 2:
                    return [("complex128", e) for e in expos] + [("float64", 2.5), ("complex64", 2.5)]
                return [("complex128", 0.0), ("complex128", 2.5), ("float64", 2.5)] if n == 3 else [("complex128", 2.5)]
            return [("complex128", 0.0), ("complex128", 2.5)] + ([("float64", 2.5)] if n <= 2 else [])
        raise KeyError(table)

    # ---- table A ------------------------------------------------------- #
    if only in (None, "A"):
        cells = [{"spec": spec, "dtype": d, "expo": e} for n in specs for spec in specs[n] for d, e in combos_for(n, "A")]
        cells = lim(cells)
        small = [c for c in cells if len(c["spec"]) < 4]
        big = [c for c in cells if len(c["spec"]) == 4]
        if thorough:
            # every entry also for the reversed requests on all networks with <= 2 tensors
            richc = [c for c in small if len(c["spec"]) <= 2]
            plain = [c for c in small if len(c["spec"]) > 2]
            run_cells(ctx, "cell_full", richc, cfgA, "A:network x dtype x exponent x output x full-route (all entries on reversed requests too)", chunk=1)
            run_cells(ctx, "cell_full", plain, dict(cfgA, rich=False), "A:network x dtype x exponent x output x full-route", chunk=1)
        else:
            run_cells(ctx, "cell_full", small, cfgA, "A:network x dtype x exponent x output x full-route", chunk=2)
        if big:
            run_cells(ctx, "cell_full", big, dict(cfgA, optimizers=["greedy"], rich=False), "A4:4-tensor networks x dtype x exponent x output x full-route", chunk=1)
        ctx.subproducts.append(
            "A: every network (n <= %d, label alphabets per n: %s) x (dtype, exponent) in %s x every SORTED output request (+ None when not hyper) x every full-evaluation entry "
            "(all permutations of the tag groups for contract_cumulative, all pairwise explicit paths, tree, expression, all to_dense splits, all linear-operator bipartitions x %s) complete; "
            "every REVERSED output request x the order-sensitive core routes (contract, contract_, contract_tags(_), contract_cumulative, tensor_contract, to_dense, one linear-operator split)%s complete"
            % (
                top,
                alph,
                {n: combos_for(n, "A") for n in alph},
                "11 operator routes" if thorough else "8 operator routes",
                "; thorough: every entry also on the reversed requests for n <= 2" if thorough else "",
            )
        )
    # ---- table B ------------------------------------------------------- #
    if only in (None, "B"):
        cells = [{"spec": spec, "dtype": d, "expo": e} for n in specs for spec in specs[n] for d, e in combos_for(n, "B")]
        cells = lim(cells)
        commonB = {"partial_opts": PARTIAL_OPTS_THOROUGH if thorough else PARTIAL_OPTS_QUICK, "all_tag_subsets": False, "finish": True}
        small = [c for c in cells if len(c["spec"]) < 4]
        big = [c for c in cells if len(c["spec"]) == 4]
        run_cells(ctx, "cell_partial", small, commonB, "B:network x tag-route x local-output x option", chunk=2)
        if big:
            run_cells(ctx, "cell_partial", big, dict(commonB, partial_opts=PARTIAL_OPTS_QUICK[:8], finish=False), "B4:4-tensor networks", chunk=1)
        if thorough:
            commonB2 = dict(commonB, all_tag_subsets=True, partial_opts=PARTIAL_OPTS_QUICK[:4], finish=False)
            run_cells(ctx, "cell_partial", [c for c in small if c["dtype"] == "complex128" and c["expo"] == 2.5], commonB2, "B2:every tag subset x which", chunk=2)
        ctx.subproducts.append("B: every network x every distinct selected tensor set (first tag route per which in any/all%s) x every admissible local output (both orders, + default inference where valid) x %d option combinations complete" % ("; thorough: every tag subset x which" if thorough else "", len(commonB["partial_opts"])))
    # ---- table C ------------------------------------------------------- #
    if only in (None, "C"):
        depth = int(ctx.opts.get("depth", 3 if thorough else 2))
        cells = []
        for n in specs:
            if n < 2 or n > 3:
                continue
            for spec in specs[n]:
                for d, e in [("complex128", 2.5)] + ([("float64", 0.0)] if thorough else []):
                    cells.append({"spec": spec, "dtype": d, "expo": e})
        cells = lim(cells)

        def deep(c):
            # full depth on 2-tensor networks and on 3-tensor networks over {a,b,c}
            return c["dtype"] == "complex128" and (len(c["spec"]) <= 2 or not any("d" in labs for labs in c["spec"]))

        run_cells(ctx, "cell_history", [c for c in cells if deep(c)], {"depth": depth, "rich": thorough}, "C:histories of partial contractions", chunk=1 if thorough else 2)
        c2 = [c for c in cells if not deep(c)]
        if c2:
            run_cells(ctx, "cell_history", c2, {"depth": max(1, depth - 1), "rich": True}, "C2:histories (3-tensor networks using label d, and float64/exponent 0: one level less)", chunk=2)
        ctx.subproducts.append(
            "C: from every network with 2 tensors and every 3-tensor network over {a,b,c}: every history of <= %d in-place events (contract_tags_/contract_/^= by tag sets, contract_ind per label, contract_between per pair, "
            "strip_exponent per tensor, equalize_norms_, distribute_exponent) explored breadth-first with state dedup; invariant after every transition; 6 full routes from every reached state%s" % (depth, "; remaining 3-tensor networks and the float64 copies to depth %d" % (depth - 1) if thorough else "")
        )
    # ---- table D ------------------------------------------------------- #
    if only in (None, "D"):
        cells = []
        for kind in ("mps", "mpo"):
            for L in (1, 2, 3, 4):
                for D in (1, 2, 3):
                    for cyclic in (False, True):
                        if cyclic and L < 3:
                            continue
                        for d in ("complex128", "float64"):
                            for e in expos:
                                cells.append({"kind": kind, "L": L, "D": D, "cyclic": cyclic, "dtype": d, "expo": e})
        cells = lim(cells)
        run_cells(ctx, "cell_1d", cells, {}, "D:1D structured route", chunk=2)
        ctx.subproducts.append("D: {MPS,MPO} x L in 1..4 x bond in 1..3 x {open, cyclic (L>=3)} x dtype x exponent x {default, outer, reversed outer} output x structured entries (block sizes 1,2,3,5; every slice) complete")
    # ---- table G ------------------------------------------------------- #
    if only in (None, "G"):
        # data scale: the VALUE is ~1e-15 / ~1e+15 while the stored exponent is ordinary; every comparison is
        # relative to the magnitude of the denoted value (there is no absolute floor anywhere in the oracle)
        scales = [-15.0, 15.0]
        cells = []
        for n in (1, 2, 3):
            for spec in network_specs(n, "ab" if not thorough else ("abc" if n == 3 else "abcd")):
                for sc in scales:
                    for e in (0.0, 2.5):
                        cells.append({"spec": spec, "dtype": "complex128", "expo": e, "scale": sc})
        cells = lim(cells)
        run_cells(ctx, "cell_full", cells, dict(cfgA, rich=False), "G:tiny / huge data scale x full-route", chunk=2)
        ctx.bounds["data_scales_log10"] = scales
        ctx.subproducts.append("G: every network with 1..3 tensors over %s x complex128 x exponent {0, 2.5} x overall data scale 10**%s (value ~1e-15 / ~1e+15) x every output request x every full-evaluation entry of table A complete" % ("{a,b}" if not thorough else "{a,b,c,d} (n<=2) / {a,b,c} (n=3)", scales))
    # ---- table F ------------------------------------------------------- #
    if only in (None, "F"):
        xs = [400.0, -400.0] + ([550.0, -330.0] if thorough else [])
        cells = []
        for n in (1, 2, 3):
            for spec in network_specs(n, "ab" if not thorough else ("abc" if n == 3 else "abcd")):
                for e in xs:
                    for ek in ("py", "np"):
                        cells.append({"spec": spec, "dtype": "complex128", "expo": e, "ekind": ek})
                cells.append({"spec": spec, "dtype": "float64", "expo": -400.0, "ekind": "np"})
        cells = lim(cells)
        run_cells(ctx, "cell_extreme", cells, {"depth": 2}, "F:stored exponents outside the double range (log-space oracle)", chunk=2)
        ctx.bounds["extreme_exponents"] = xs
        ctx.subproducts.append(
            "F: every network with 1..3 tensors over %s x stored exponent in %s (python float and numpy scalar) x {None, all labels, (), reversed} x every route that can represent the result "
            "(strip_exponent=True routes, in-place routes, norm/make_norm stripped), every partial contraction by T tags x 5 options + contract_cumulative over an incomplete sequence with equalize_norms=True, "
            "distribute_exponent/equalize_norms/strip_exponent, and every history of <= 2 in-place events; oracle compares (array, log10 scale)" % ("{a,b}" if not thorough else "{a,b,c,d} (n<=2) / {a,b,c} (n=3)", xs)
        )
    # ---- table E ------------------------------------------------------- #
    if only in (None, "E"):
        cells = []
        for n in specs:
            if n < 2 or n > 3:
                continue
            for spec in specs[n]:
                for e1, e2 in ((0.0, 0.0), (2.5, 0.0), (0.0, -1.25), (2.5, -1.25)):
                    cells.append({"spec": spec, "dtype": "complex128", "e1": e1, "e2": e2})
        cells = lim(cells)
        run_cells(ctx, "cell_combine", cells, {}, "E:combine/copy/select exponent propagation", chunk=4)
        ctx.subproducts.append("E: every network with 2..3 tensors x every cut into two sub-networks x 4 exponent pairs x 16 combine/copy/select/astype spellings complete")


def replay(case):
    fn = getattr(sys.modules[__name__], case["fn"])
    cell = dict(core.tuplify(case["cell"]))
    sub = case.get("sub")
    cell["only"] = core.tuplify(sub) if sub is not None else None
    if case["fn"] == "cell_history":
        cell["only"] = [tuple(e) for e in core.tuplify(sub)] if sub else []
    if case["fn"] == "cell_extreme" and sub and sub[0] == "H":
        cell["only"] = ["H"] + [tuple(e) for e in core.tuplify(sub)[1:]]
    common = case.get("common")
    r = fn(cell, common)
    return [b["prob"] for b in r["bad"]]

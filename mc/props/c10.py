"""C10 - DMRG is variational and reports the energy of the state it returns.

TableExplorer (DESIGN.md section 3, C10) over a complete small family of
Hermitian MPO Hamiltonians x DMRG configurations, with a per-update monitor.

One cell = one (Hamiltonian, configuration) pair = one DMRG object driven
through a *plan* (a short sequence of ``solve`` calls).  Around every local
update the harness records the real state (dense, through the public
``state`` property) and compares, with an exact-diagonalisation reference
built by numpy only:

  energy-is-expectation   reported ``energy`` == <psi|H|psi>/<psi|psi>
                          (dense) == psi.H @ H.apply(psi) (library convention)
  normalized              <psi|psi> == 1 for the returned state
  variational             no reported / real energy below E0 (above Emax for LA)
  monotone                energy never rises over an update that cannot
                          truncate (cutoff 0 and cap >= full rank of the bond)
  cap                     bond dimensions <= the cap requested for the sweep
  bookkeeping             ``total_energies`` / ``local_energies`` /
                          ``energies`` agree with each other and the real state
  exact                   once a local problem spans the whole Hilbert space
                          (and nothing truncates afterwards) energy == E0 and
                          the state is the ED ground state (if the gap is open)

Root-cause signatures are computed from the case (complex Hamiltonian?  may
the final update truncate?  was a bond expanded in a sweep that skips
canonisation?) plus a structured diagnosis (does the check hold for H^T?
does the energy equal the un-normalised expectation?), never from message
text.
"""

from __future__ import annotations

import itertools
import signal
import sys

import numpy as np

from .. import core, ref, table
from ..alphabet import fill, seed as verif_seed

# --------------------------------------------------------------------------- #
#                        Hamiltonian alphabet + reference                     #
# --------------------------------------------------------------------------- #

# fixed, mutually incommensurate coefficients
TERMS = {
    "XX": [(1.0, "X", "X")],
    "YY": [(0.83, "Y", "Y")],
    "ZZ": [(0.61, "Z", "Z")],
    "DM": [(0.71, "X", "Y"), (-0.71, "Y", "X")],  # genuinely complex
    "XZ": [(0.29, "X", "Z")],  # real, not reflection symmetric
    "fX": [(0.23, "X")],
    "fY": [(0.37, "Y")],  # complex (Y^T = -Y)
    "fZ": [(0.43, "Z")],
}
TERM_NAMES = list(TERMS)
SHIFT = {None: 0.0, "pI": 1.7, "mI": -1.7}  # per-site identity term: moves the whole spectrum above / below 0


def _spin_mats(S2):
    sx, sy, sz = ref.spin_ops(S2 / 2.0)
    return {"X": sx, "Y": sy, "Z": sz, "I": np.eye(S2 + 1, dtype=complex)}


def _site_dep_terms(name, L):
    """Site dependent models: returns (bond_terms, site_terms) with
    bond_terms[i] = terms on bond (i, i+1), site_terms[i] = one-site terms."""
    bt = {i: [] for i in range(L - 1)}
    st = {i: [] for i in range(L)}
    if name == "sd-real":
        for i in range(L - 1):
            bt[i] += [(1.0 + 0.3 * i, "X", "X"), (0.61 - 0.2 * i, "Z", "Z")]
        for i in range(L):
            st[i] += [(0.43 * (-1) ** i * (1 + 0.1 * i), "Z"), (0.11 * (i + 1), "X")]
    elif name == "sd-cplx":
        for i in range(L - 1):
            c = 0.71 * (1 + 0.25 * i)
            bt[i] += [(1.0, "X", "X"), (c, "X", "Y"), (-c, "Y", "X")]
        for i in range(L):
            st[i] += [(0.37, "Y")] if i == 0 else [(0.05 * i, "Z")]
    elif name == "sd-cut":
        # bond 1 carries no coupling: the chain falls into two pieces
        for i in range(L - 1):
            bt[i] += [(0.0, "I", "I")] if i == 1 else [(1.0, "X", "X"), (0.61, "Z", "Z"), (0.29, "X", "Z")]
        for i in range(L):
            st[i] += [(0.43, "Z")]
    else:
        raise KeyError(name)
    return bt, st


def ref_dense_ham(hs):
    """numpy-only dense matrix of a Hamiltonian spec (no quimb)."""
    kind = hs["kind"]
    L, S2 = hs["L"], hs["S2"]
    d = S2 + 1
    D = d**L
    shift = SHIFT[hs.get("shift")] * L
    if kind in ("gen-real", "gen-cplx"):
        A = fill("hermitian", (D, D), "float64" if kind == "gen-real" else "complex128", key=("c10", kind, L, d))
        return A + shift * np.eye(D)
    ops = _spin_mats(S2)
    cyclic = bool(hs.get("cyclic"))
    if kind == "sitedep":
        bt, st = _site_dep_terms(hs["name"], L)
    else:
        terms = [t for n in hs["terms"] for t in TERMS[n]]
        nb = L if (cyclic and L > 2) else L - 1
        bt = {i: [t for t in terms if len(t) == 3] for i in range(nb)}
        st = {i: [t for t in terms if len(t) == 2] for i in range(L)}
    H = np.zeros((D, D), dtype=complex)
    dims = [d] * L
    for i, ts in bt.items():
        j = (i + 1) % L
        for c, a, b in ts:
            if c == 0.0:
                continue
            H += c * ref.embed(np.kron(ops[a], ops[b]), dims, (i, j))
    for i, ts in st.items():
        for c, a in ts:
            H += c * ref.embed(ops[a], dims, (i,))
    return H + shift * np.eye(D)


def build_mpo(hs):
    """The real quimb MPO for a Hamiltonian spec."""
    import quimb.tensor as qtn

    kind = hs["kind"]
    L, S2 = hs["L"], hs["S2"]
    d = S2 + 1
    if kind in ("gen-real", "gen-cplx", "spin-dense"):
        A = ref_dense_ham(dict(hs, kind="spin") if kind == "spin-dense" else hs)
        if kind == "gen-real" or (kind == "spin-dense" and np.abs(A.imag).max() == 0.0):
            A = np.ascontiguousarray(A.real)
        return qtn.MatrixProductOperator.from_dense(A, dims=[d] * L, cutoff=0.0)
    b = qtn.SpinHam1D(S=S2 / 2.0, cyclic=bool(hs.get("cyclic")))
    sh = SHIFT[hs.get("shift")]
    if kind == "sitedep":
        bt, st = _site_dep_terms(hs["name"], L)
        for i, ts in bt.items():
            b[i, i + 1] = [tuple(t) for t in ts]
        for i, ts in st.items():
            b[i] = [tuple(t) for t in ts] + ([(sh, "I")] if sh else [])
    else:
        for n in hs["terms"]:
            for t in TERMS[n]:
                b += t
        if sh:
            b += (sh, "I")
    return b.build_mpo(L)


_HAM_CACHE = {}


def get_ham(hs):
    """(mpo, dense-of-mpo, ED) cached per worker process."""
    key = core.digest(("ham", core.jsonable(hs), verif_seed()))
    if key in _HAM_CACHE:
        return _HAM_CACHE[key]
    H = build_mpo(hs)
    Hd = np.asarray(H.to_dense())
    Href = ref_dense_ham(dict(hs, kind="spin") if hs["kind"] == "spin-dense" else hs)
    info = {}
    info["build_err"] = float(np.abs(Hd - Href).max())
    info["herm_err"] = float(np.abs(Hd - Hd.conj().T).max())
    Hs = (Hd + Hd.conj().T) / 2
    ev, evec = np.linalg.eigh(Hs)
    info["ev"] = ev
    info["gs"] = evec[:, 0]
    info["ts"] = evec[:, -1]
    info["scale"] = float(max(1.0, abs(ev[0]), abs(ev[-1])))
    info["complex"] = bool(np.abs(Hd - Hd.T).max() > 1e-9)
    if len(_HAM_CACHE) > 8:
        _HAM_CACHE.clear()
    _HAM_CACHE[key] = (H, Hd, info)
    return _HAM_CACHE[key]


# --------------------------------------------------------------------------- #
#                              initial states                                 #
# --------------------------------------------------------------------------- #


def make_p0(init, hs, H, bond0):
    import quimb as qu
    import quimb.tensor as qtn

    L, d = hs["L"], hs["S2"] + 1
    cyc = bool(hs.get("cyclic"))
    sd = 4242 + 17 * verif_seed()
    qu.seed_rand(sd)  # DMRG1 draws its bond-expansion noise from the global generator
    if init == "default":
        return None
    if init == "randp0":
        return qtn.MPS_rand_state(L, bond0, phys_dim=d, dtype=H.dtype, cyclic=cyc, seed=sd + 1)
    if init == "randp0-big":
        # user state with a bond larger than every cap of the schedule
        return qtn.MPS_rand_state(L, d ** (L // 2) + 1, phys_dim=d, dtype=H.dtype, cyclic=cyc, seed=sd + 2)
    if init == "comp0":
        # basis state, an exact eigenstate of every model without X/Y terms
        arrs = []
        for i in range(L):
            v = np.zeros(d, dtype=H.dtype)
            v[0] = 1.0
            arrs.append(v)
        return qtn.MPS_product_state(arrs, cyclic=cyc)
    if init == "prodg":
        arrs = []
        for i in range(L):
            v = fill("generic", (d,), "complex128", key=("c10", "prodg", i, d))
            if np.dtype(H.dtype).kind != "c":
                v = v.real
            arrs.append((v / np.linalg.norm(v)).astype(H.dtype))
        return qtn.MPS_product_state(arrs, cyclic=cyc)
    raise KeyError(init)


# --------------------------------------------------------------------------- #
#                               plans (solve calls)                           #
# --------------------------------------------------------------------------- #

PLANS = {
    # name: list of solve-call kwargs ("EXACT" resolved per cell)
    "S6": [dict(tol=1e-10, max_sweeps=6)],
    "S1": [dict(tol=1e-10, max_sweeps=1)],
    "S2+S3": [dict(tol=1e-10, max_sweeps=2), dict(tol=1e-10, max_sweeps=3)],
    "deftol": [dict()],  # library defaults: tol=1e-4, max_sweeps=10
    "override": [dict(tol=1e-10, max_sweeps=2), dict(tol=1e-10, max_sweeps=3, bond_dims="EXACT", cutoffs=0.0)],
}


# multi-solve histories on ONE DMRG object.  A call may carry "seq":
#   "LAST"  start in the direction of the last sweep actually performed, then alternate
#   "OPP"   start against the direction of the last sweep performed, then alternate
#   "REV"   the cell's sequence reversed
#   or an explicit string; absent = the cell's sequence
_CONV = dict(tol=1e-6, max_sweeps=12)  # normally ends through the convergence test, not max_sweeps
HISTORY_PLANS = {
    "conv,last1": [_CONV, dict(tol=1e-12, max_sweeps=1, seq="LAST")],
    "conv,last6": [_CONV, dict(tol=1e-12, max_sweeps=6, seq="LAST")],
    "conv,same3": [_CONV, dict(tol=1e-12, max_sweeps=3)],
    "conv,opp2": [_CONV, dict(tol=1e-12, max_sweeps=2, seq="OPP")],
    "conv,rev3": [_CONV, dict(tol=1e-12, max_sweeps=3, seq="REV")],
    "conv,conv,last1": [_CONV, dict(tol=1e-9, max_sweeps=12), dict(tol=1e-13, max_sweeps=1, seq="LAST")],
    "conv,exactcap-last2": [_CONV, dict(tol=1e-12, max_sweeps=2, seq="LAST", bond_dims="EXACT", cutoffs=0.0)],
    "S1,last1,last1": [dict(tol=1e-10, max_sweeps=1), dict(tol=1e-10, max_sweeps=1, seq="LAST"), dict(tol=1e-10, max_sweeps=1, seq="LAST")],
    "S3,opp1,last2": [dict(tol=1e-10, max_sweeps=3), dict(tol=1e-10, max_sweeps=1, seq="OPP"), dict(tol=1e-10, max_sweeps=2, seq="LAST")],
}


def plan_calls(name):
    """list of solve-call dicts for a plan name; 'steps:RLLR' = one
    solve(max_sweeps=1, sweep_sequence=c) per character"""
    if name in PLANS:
        return PLANS[name]
    if name in HISTORY_PLANS:
        return HISTORY_PLANS[name]
    if name.startswith("steps:"):
        return [dict(tol=1e-10, max_sweeps=1, seq=c) for c in name[len("steps:") :]]
    raise KeyError(name)


class CaseTimeout(BaseException):
    pass


def _alarm(signum, frame):
    raise CaseTimeout("per-case time limit hit")


# --------------------------------------------------------------------------- #
#                                  the oracle                                 #
# --------------------------------------------------------------------------- #


def _dense_state(d):
    psi = d.state
    v = np.asarray(psi.to_dense()).reshape(-1)
    return psi, v


def _real(x):
    return float(np.real(x))


class Monitor:
    """Wraps ``_update_local_state`` of ONE DMRG instance (harness-side
    instance attribute; the class is untouched)."""

    def __init__(self, d, Hd, L):
        self.d, self.Hd, self.HdT, self.L = d, Hd, np.ascontiguousarray(Hd.T), L
        self.rec = []
        self.available = callable(getattr(d, "_update_local_state", None))
        if self.available:
            self.orig = d._update_local_state
            d._update_local_state = self

    def bonds(self):
        k = self.d.state
        return [int(k.bond_size(i, i + 1)) for i in range(self.L - 1)]

    def __call__(self, i, **kw):
        pre = self.bonds()
        out = self.orig(i, **kw)
        psi, v = _dense_state(self.d)
        post = [int(psi.bond_size(j, j + 1)) for j in range(self.L - 1)]
        self.rec.append(
            {
                "i": int(i),
                "dir": kw.get("direction"),
                "lib_max_bond": kw.get("max_bond"),
                "lib_cutoff": kw.get("cutoff"),
                "pre": pre,
                "post": post,
                "n2": float(np.vdot(v, v).real),
                "e": float(np.vdot(v, self.Hd @ v).real),
                "et": float(np.vdot(v, self.HdT @ v).real),
                "loc": complex(out[0]),
                "tot": complex(out[1]),
            }
        )
        return out


def _full_rank_dim(phys, L, j):
    """maximal Schmidt rank across bond (j, j+1) of an open chain."""
    return min(phys ** (j + 1), phys ** (L - j - 1))


def run_cell(cell, common=None):
    """Worker: one Hamiltonian x configuration."""
    hs = cell["ham"]
    cyclic = bool(hs.get("cyclic"))
    tlim = 900 if cyclic else 600  # watchdog against hangs only (a fresh tree pays numba JIT inside a case)
    old = signal.signal(signal.SIGALRM, _alarm)
    signal.alarm(tlim)
    try:
        return _drive(cell)
    finally:
        signal.alarm(0)
        signal.signal(signal.SIGALRM, old)


def _drive(cell):
    import quimb.tensor as qtn

    hs, cfg = cell["ham"], cell["cfg"]
    cyclic = bool(hs.get("cyclic"))
    L, phys = hs["L"], hs["S2"] + 1
    bsz, which = cfg["bsz"], cfg["which"]
    H, Hd, info = get_ham(hs)
    ev, scale, is_cplx = info["ev"], info["scale"], info["complex"]
    sgn = 1.0 if which == "SA" else -1.0  # mirrored statements for LA
    Eext = float(ev[0] if which == "SA" else ev[-1])
    vext = info["gs"] if which == "SA" else info["ts"]
    gap = float((ev[1] - ev[0]) if which == "SA" else (ev[-1] - ev[-2])) if len(ev) > 1 else 0.0

    if info["herm_err"] > 1e-10 * scale:
        return table.rejected("precondition:mpo-not-hermitian")
    # the MPO builder disagreeing with the numpy reference would be C19's
    # business; C10 is stated for the MPO that was given: go on with its own
    # dense form but make the fact visible in the outcome
    pre_note = "ham-build-differs" if info["build_err"] > 1e-9 * scale else None

    exact_cap = phys ** (L // 2)
    bonds = [exact_cap if b == "EXACT" else int(b) for b in cfg["bonds"]]
    cutoffs = [float(c) for c in cfg["cutoffs"]]
    p0 = make_p0(cfg["init"], hs, H, bonds[0])
    p0_bond = None if p0 is None else int(p0.max_bond())
    eig = cfg.get("eig", "default")
    seq = cfg["seq"]
    # sequence actually promised: explicit argument, else opts['default_sweep_sequence'], else the documented default "R"
    seq_dflt = seq or (cfg.get("opts") or {}).get("default_sweep_sequence") or "R"

    zero_beyond = bool(sgn * Eext > 0)  # 0 is below E0 ('SA') / above Emax ('LA')
    tol = 1e-8 * scale
    ptol = 2e-6 * scale  # periodic: documented transfer-matrix approximation
    probs = []
    flags = {"uncanon": False, "collapsed": False}

    def prob(check, msg, root=None, **extra):
        s = dict(bsz=bsz, ham=("complex" if is_cplx else "real"), cyclic=cyclic, check=check)
        s.update(extra)
        if flags["uncanon"] and (zero_beyond or flags["collapsed"]):
            # structural facts of the case/history: a bond was padded with
            # noise in a sweep that skips canonisation AND 0 lies beyond the
            # searched end of the spectrum (so the padded, nearly null
            # directions win the local eigenproblem) - or the collapse of the
            # real state's norm onto those directions was observed directly;
            # everything after is suspect
            root = "expand-without-canonize"
        s["root"] = root or "unclassified"
        return core.problem("%s | ham=%s cfg=%s" % (msg, core.jsonable(hs), core.jsonable(cfg)), **s)

    def crash(stage, ex):
        root = None
        if stage == "solve" and L == bsz and "L" in seq_dflt and not cyclic:
            # structural: the chain offers a single block position and the
            # sequence contains a leftward sweep
            root = "left-sweep-single-position"
        return table.bad(prob("no-crash", "%s raised %s: %s" % (stage, type(ex).__name__, str(ex)[:200]), exc=type(ex).__name__, stage=stage, root=root))

    cls = {1: qtn.DMRG1, 2: qtn.DMRG2}[bsz]
    try:
        kw = dict(bond_dims=list(bonds), cutoffs=list(cutoffs), which=which)
        if p0 is not None:
            kw["p0"] = p0
        d = cls(H, **kw)
    except Exception as ex:
        if cyclic:
            return table.rejected("periodic:init:%s" % type(ex).__name__)
        return crash("init", ex)
    if eig == "numpy":
        d.opts["local_eig_backend"] = "NUMPY"
    elif eig == "linop":
        d.opts["local_eig_ham_dense"] = False
    elif eig != "default":
        raise KeyError(eig)
    for ok_, ov_ in sorted((cfg.get("opts") or {}).items()):
        # only options documented in get_default_opts (a typo must not pass silently)
        if ok_ not in d.opts:
            raise KeyError("not a documented DMRG option: %r" % (ok_,))
        d.opts[ok_] = ov_
    if cyclic:
        d.opts["periodic_segment_size"] = 1.0  # documented choice for small systems

    mon = Monitor(d, Hd, L)
    # energy of the initial state (normalised Rayleigh quotient)
    _, v0 = _dense_state(d)
    n0 = float(np.vdot(v0, v0).real)
    e_prev = float(np.vdot(v0, Hd @ v0).real) / n0
    et_prev = float(np.vdot(v0, Hd.T @ v0).real) / n0
    cur_bonds = mon.bonds()

    # the harness' own copy of the schedules (what the documentation promises:
    # one entry per sweep, last one repeated; an override restarts the list)
    sched_b, pos_b = list(bonds), 0
    sched_c, pos_c = list(cutoffs), 0
    n_upd_sweep = L if cyclic else L - bsz + 1
    stats = dict(upd=0, mono=0, exact=0, trunc_final=0, fullspace=0, changed=False, conv=[])
    reached_exact = False
    done_rec = 0
    n_sw_done = 0

    last_dir = None  # direction of the last sweep actually performed
    for call_no, call in enumerate(plan_calls(cfg["plan"])):
        skw = dict(call)
        seq_call = skw.pop("seq", None)
        if seq_call in ("LAST", "OPP"):
            first = (last_dir or seq_dflt[0]) if seq_call == "LAST" else {"R": "L", "L": "R"}[last_dir or seq_dflt[0]]
            seq_call = first + {"R": "L", "L": "R"}[first]
        elif seq_call == "REV":
            seq_call = seq_dflt[::-1]
        if "bond_dims" in skw:
            sched_b, pos_b = ([exact_cap] if skw["bond_dims"] == "EXACT" else list(skw["bond_dims"])), 0
            skw["bond_dims"] = list(sched_b)
        if "cutoffs" in skw:
            sched_c, pos_c = [float(skw["cutoffs"])], 0
        if seq_call is not None:
            skw["sweep_sequence"] = seq_call
        elif seq is not None:
            skw["sweep_sequence"] = seq
        seq_eff = seq_call or seq_dflt  # the sequence this call promises (restarts in every call)
        try:
            conv = d.solve(**skw)
        except CaseTimeout:
            raise
        except Exception as ex:
            if cyclic:
                return table.rejected("periodic:solve:bsz=%d:L=%d:%s" % (bsz, L, type(ex).__name__))
            # which sweep were we in?  recompute the structural flag first
            _flag_uncanon_from_records(flags, mon, done_rec, n_upd_sweep, bsz, seq_eff, sched_b, pos_b, cur_bonds)
            return crash("solve", ex)
        stats["conv"].append(bool(conv))
        n_sw = len(d.energies) - n_sw_done
        n_sw_done = len(d.energies)
        if n_sw:
            last_dir = seq_eff[(n_sw - 1) % len(seq_eff)]

        new = mon.rec[done_rec:]
        done_rec = len(mon.rec)
        if mon.available and len(new) != n_sw * n_upd_sweep:
            probs.append(prob("bookkeeping", "%d sweeps recorded in energies but %d local updates observed (expected %d per sweep)" % (n_sw, len(new), n_upd_sweep), what="update-count"))
            new = []
        last_may_trunc = False
        cap = cut = None
        for s in range(n_sw):
            cap = sched_b[min(pos_b, len(sched_b) - 1)]
            cut = sched_c[min(pos_c, len(sched_c) - 1)]
            pos_b += 1
            pos_c += 1
            direction = seq_eff[s % len(seq_eff)]
            canonize = s == 0 or direction == seq_eff[(s - 1) % len(seq_eff)]
            if bsz == 1 and not cyclic and (not canonize) and any(b < cap for b in cur_bonds):
                flags["uncanon"] = True
            gi = n_sw_done - n_sw + s  # global sweep index
            lib_tot = [complex(x) for x in d.total_energies[gi]] if gi < len(d.total_energies) else []
            lib_loc = [complex(x) for x in d.local_energies[gi]] if gi < len(d.local_energies) else []
            if len(lib_tot) != n_upd_sweep or len(lib_loc) != n_upd_sweep:
                probs.append(prob("bookkeeping", "sweep %d: total/local energies have %d/%d entries, expected %d" % (gi, len(lib_tot), len(lib_loc), n_upd_sweep), what="per-update-lists"))
                continue
            if abs(complex(d.energies[gi]) - lib_tot[-1]) > tol:
                probs.append(prob("bookkeeping", "sweep %d: energies[%d]=%r but last total energy of the sweep is %r" % (gi, gi, d.energies[gi], lib_tot[-1]), what="sweep-energy-is-last-total"))
            for u in range(n_upd_sweep):
                r = new[s * n_upd_sweep + u] if new else None
                stats["upd"] += 1
                # which site does this update touch (documented sweep order)
                if cyclic:
                    site = u if direction == "R" else L - 1 - u
                else:
                    site = u if direction == "R" else L - bsz - u
                if r is not None and (r["i"] != site or r["dir"] != {"R": "right", "L": "left"}[direction]):
                    probs.append(prob("sweep-order", "sweep %d (%s) update %d touched site %r direction %r, documented order gives site %d" % (gi, direction, u, r["i"], r["dir"], site), what="site-order"))
                    continue
                if r is not None:
                    cur_bonds = r["post"]
                    if flags["uncanon"] and r["n2"] < 1e-6:
                        flags["collapsed"] = True
                if cyclic:
                    continue  # periodic: consistency of the returned state only
                # may this update truncate?  (decided independently of the library)
                may_trunc = bsz == 2 and ((cut > 0.0) or cap < _full_rank_dim(phys, L, site))
                last_may_trunc = may_trunc
                tot, loc = lib_tot[u], lib_loc[u]
                # --- variational bound on the library's own numbers (spectrum only)
                if sgn * (_real(loc) - Eext) < -tol:
                    probs.append(prob("variational", "sweep %d update %d: local energy %.12g beyond exact extremal %.12g (%s)" % (gi, u, _real(loc), Eext, which), what="local-energy"))
                if not may_trunc:
                    if sgn * (_real(tot) - Eext) < -tol:
                        probs.append(prob("variational", "sweep %d update %d: total energy %.12g beyond exact extremal %.12g (%s)" % (gi, u, _real(tot), Eext, which), what="total-energy"))
                    if abs(loc - tot) > tol:
                        probs.append(prob("bookkeeping", "sweep %d update %d cannot truncate but local energy %r != total energy %r" % (gi, u, loc, tot), what="local-vs-total"))
                if r is None:
                    continue
                en = r["e"] / r["n2"]
                etn = r["et"] / r["n2"]
                if abs(en - e_prev) > 1e-9 * scale:
                    stats["changed"] = True
                # --- cap after the update
                if bsz == 2 and r["post"][site] > cap:
                    probs.append(prob("cap", "sweep %d update %d: bond (%d,%d) has size %d > cap %d of this sweep" % (gi, u, site, site + 1, r["post"][site], cap), what="updated-bond"))
                if r["lib_max_bond"] is not None and r["lib_max_bond"] != cap:
                    probs.append(prob("cap", "sweep %d: library used max_bond=%r, documented schedule says %d" % (gi, r["lib_max_bond"], cap), what="schedule"))
                if r["lib_cutoff"] is not None and r["lib_cutoff"] != cut:
                    probs.append(prob("cap", "sweep %d: library used cutoff=%r, documented schedule says %r" % (gi, r["lib_cutoff"], cut), what="cutoff-schedule"))
                # --- state dependent checks (real state vs dense H; H^T as diagnosis)
                if not may_trunc:
                    nrm_ok = abs(r["n2"] - 1) <= 1e-8
                    if not (abs(_real(tot) - en) <= tol and nrm_ok):
                        okt = abs(_real(tot) - etn) <= tol and nrm_ok
                        probs.append(
                            prob(
                                "update-energy-is-expectation",
                                "sweep %d update %d: reported total energy %.12g, real <H>=%.12g (norm^2 %.12g; <H^T>=%.12g)" % (gi, u, _real(tot), en, r["n2"], etn),
                                transpose_ok=bool(okt),
                                root=("ket-on-upper-index" if (is_cplx and okt) else None),
                            )
                        )
                    if cut == 0.0:
                        stats["mono"] += 1
                        if sgn * (en - e_prev) > tol:
                            okt = sgn * (etn - et_prev) <= tol
                            probs.append(
                                prob(
                                    "monotone",
                                    "sweep %d update %d (cannot truncate): real energy went %.12g -> %.12g (%s)" % (gi, u, e_prev, en, which),
                                    transpose_ok=bool(okt),
                                    root=("ket-on-upper-index" if (is_cplx and okt) else None),
                                )
                            )
                if sgn * (en - Eext) < -tol:
                    probs.append(prob("variational", "sweep %d update %d: real energy %.12g beyond exact extremal %.12g" % (gi, u, en, Eext), what="real-energy"))
                # --- exactness: the local problem spans the whole space
                Dl = r["pre"][site - 1] if site > 0 else 1
                rb = site + bsz - 1  # bond to the right of the block
                Dr = r["pre"][rb] if rb < L - 1 else 1
                full = Dl == phys**site and Dr == phys ** (L - site - bsz)
                if may_trunc:
                    reached_exact = False
                elif full and cut == 0.0 and not flags["uncanon"]:
                    stats["fullspace"] += 1
                    reached_exact = True
                    if eig == "numpy" and abs(_real(loc) - Eext) > tol:
                        probs.append(prob("exact", "sweep %d update %d: local problem spans the full space (bonds %r) but local energy %.12g != ED %.12g" % (gi, u, r["pre"], _real(loc), Eext), what="full-space-local-solve"))
                e_prev, et_prev = en, etn
        if n_sw == 0:
            continue
        cap_last, cut_last = cap, cut

        # ---- checkpoint: the returned state and the reported energy --------
        try:
            psi, v = _dense_state(d)
            e_rep = complex(d.energy)
            n2 = float(np.vdot(v, v).real)
            e_un = float(np.vdot(v, Hd @ v).real)
            et_un = float(np.vdot(v, Hd.T @ v).real)
            e_lib = complex(psi.H @ H.apply(psi))
            mb = int(psi.max_bond())
        except CaseTimeout:
            raise
        except Exception as ex:
            return crash("state/energy", ex)
        ctol = ptol if cyclic else tol
        # structural fact: the last local update of the last sweep may discard weight
        trunc_final = bool((not cyclic) and bsz == 2 and last_may_trunc and (cut_last >= 1e-6 or cap_last < phys))
        if trunc_final:
            stats["trunc_final"] += 1
        en, etn = e_un / n2, et_un / n2

        if abs(e_lib - e_un) > tol * max(1.0, n2):
            probs.append(prob("library-convention", "call %d: psi.H @ H.apply(psi) = %r but dense <psi|H|psi> = %.12g" % (call_no, e_lib, e_un)))
        norm_ok = abs(n2 - 1) <= (ptol if cyclic else 1e-8)
        imag_ok = abs(e_rep.imag) <= ctol
        un_ok = abs(_real(e_rep) - e_un) <= tol and n2 < 1 + 1e-8 and imag_ok
        un_ok_t = abs(_real(e_rep) - et_un) <= tol and n2 < 1 + 1e-8 and imag_ok
        if not norm_ok:
            root = "truncating-final-update" if (trunc_final and (un_ok or (is_cplx and un_ok_t))) else None
            probs.append(prob("normalized", "call %d: returned state has <psi|psi> = %.12g" % (call_no, n2), root=root))
        if not (abs(_real(e_rep) - en) <= ctol and imag_ok):
            ok_t = abs(_real(e_rep) - etn) <= ctol and imag_ok
            if is_cplx and ok_t:
                root = "ket-on-upper-index"
            elif trunc_final and un_ok:
                root = "truncating-final-update"
            elif is_cplx and trunc_final and un_ok_t:
                root = "ket-on-upper-index+truncating-final-update"
            else:
                root = None
            probs.append(
                prob(
                    "energy-is-expectation",
                    "call %d: reported energy %r, state has <H>/<1> = %.12g (norm^2 %.12g, <H^T>/<1> = %.12g, E0 %.12g)" % (call_no, e_rep, en, n2, etn, ev[0]),
                    transpose_ok=bool(ok_t),
                    root=root,
                )
            )
        if not cyclic:
            if norm_ok and sgn * (_real(e_rep) - Eext) < -tol:
                probs.append(prob("variational", "call %d: reported energy %.12g beyond exact extremal %.12g" % (call_no, _real(e_rep), Eext), what="final-energy"))
            # DMRG1 never truncates: the cap is only claimed for it when the
            # initial state fits and the schedule never shrinks
            cap_applies = bsz == 2 or ((p0_bond is None or p0_bond <= min(bonds)) and cfg["plan"] != "override" and all(a <= b for a, b in zip(bonds, bonds[1:])))
            if cap_applies and mb > cap_last:
                probs.append(prob("cap", "call %d: returned state has max_bond %d > cap %d of the last sweep" % (call_no, mb, cap_last), what="final-state"))
            # exactness at the checkpoint
            if reached_exact and mon.available:
                stats["exact"] += 1
                etol = tol if eig == "numpy" else None  # iterative local solvers may legitimately stall (Krylov space of a symmetric start)
                if etol is not None:
                    if abs(_real(e_rep) - Eext) > etol:
                        probs.append(prob("exact", "call %d: a local problem spanned the full space and nothing could truncate since, but energy %.12g != ED %.12g" % (call_no, _real(e_rep), Eext), what="final-energy"))
                    elif gap > 1e-3 * scale:
                        F = abs(np.vdot(vext, v)) ** 2 / n2
                        ftol = 1e-4
                        if 1 - F > ftol:
                            Ft = abs(np.vdot(vext.conj(), v)) ** 2 / n2
                            okt = bool(1 - Ft <= ftol)
                            probs.append(
                                prob(
                                    "exact",
                                    "call %d: energy matches ED but |<gs|state>|^2 = %.9g (with conj(gs): %.9g; gap %.3g)" % (call_no, F, Ft, gap),
                                    what="state-overlap",
                                    transpose_ok=okt,
                                    root=("ket-on-upper-index" if (is_cplx and okt) else None),
                                )
                            )

    if probs:
        seen, out = set(), []
        for p in probs:  # one report per distinct signature
            k = core.sig_key(p["sig"])
            if k not in seen:
                seen.add(k)
                out.append(p)
        return table.bad(out)
    key = core.digest((core.jsonable(hs), core.jsonable(cfg)))
    nontrivial = stats["upd"] > 0 and (stats["changed"] or not mon.available)
    outcome = "bsz%d:%s:conv=%s:mono=%s:full=%s:exact=%s:truncfin=%s:uncanon=%s%s" % (
        bsz,
        which,
        "".join("T" if c else "F" for c in stats["conv"]),
        "y" if stats["mono"] else "n",
        "y" if stats["fullspace"] else "n",
        "y" if stats["exact"] else "n",
        "y" if stats["trunc_final"] else "n",
        "y" if flags["uncanon"] else "n",
        ":cyclic" if cyclic else "",
    )
    if pre_note:
        outcome += ":" + pre_note
    if not mon.available:
        outcome += ":no-monitor"
    return table.ok(key=key, nontrivial=nontrivial, outcome=outcome)


def _flag_uncanon_from_records(flags, mon, done_rec, n_upd_sweep, bsz, seq_eff, sched_b, pos_b, cur_bonds):
    """After a crash inside ``solve``: decide from the recorded updates and the
    documented schedule whether some sweep of this call (including the one that
    crashed) expanded a bond without canonising."""
    if bsz != 1:
        return
    new = mon.rec[done_rec:]
    n_started = len(new) // n_upd_sweep + 1
    for s in range(n_started):
        cap = sched_b[min(pos_b + s, len(sched_b) - 1)]
        direction = seq_eff[s % len(seq_eff)]
        canonize = s == 0 or direction == seq_eff[(s - 1) % len(seq_eff)]
        if s > 0 and s * n_upd_sweep - 1 < len(new):
            cur_bonds = new[s * n_upd_sweep - 1]["post"]
        if (not canonize) and any(b < cap for b in cur_bonds):
            flags["uncanon"] = True


# --------------------------------------------------------------------------- #
#                                 enumeration                                 #
# --------------------------------------------------------------------------- #


def _spin(terms, S2, L, **kw):
    h = {"kind": "spin", "terms": list(terms), "S2": S2, "L": L}
    h.update(kw)
    return h


def ham_family(kmax):
    """all non-empty subsets of size <= kmax of the 8-term alphabet"""
    out = []
    for k in range(1, kmax + 1):
        out += [list(c) for c in itertools.combinations(TERM_NAMES, k)]
    return out


def cfg_product(**axes):
    names = list(axes)
    out = []
    for vals in itertools.product(*[axes[n] for n in names]):
        out.append(dict(zip(names, vals)))
    return out


def _cells(hams, cfgs):
    return [{"ham": h, "cfg": c} for h in hams for c in cfgs]


def plan_tables(tier, opts):
    """-> list of (name, cells, description).  Thorough = the same tables with
    larger alphabets / sizes."""
    thorough = tier == "thorough"
    T = []

    # ---- A: Hamiltonian breadth ------------------------------------------ #
    # dense local eigensolver pinned (as in the DESIGN) so that exactness is
    # asserted on the whole family
    fam3, fam2 = ham_family(3), ham_family(2)
    if thorough:
        sizesA = [(1, 2, 3), (1, 3, 3), (1, 4, 3), (1, 5, 3), (2, 2, 3), (2, 3, 3), (2, 4, 3), (1, 6, 3)]
    else:
        sizesA = [(1, 2, 2), (1, 3, 3), (1, 4, 3), (2, 3, 2)]
    hamsA = [_spin(t, S2, L) for (S2, L, k) in sizesA for t in (fam3 if k == 3 else fam2)]
    cfgA = cfg_product(
        bsz=[1, 2],
        which=["SA", "LA"],
        bonds=[[2], [2, 4], ["EXACT"]],
        cutoffs=[[0.0]],
        seq=["R", "RL", "LR"] if thorough else ["R", "RL"],
        init=["default", "comp0"] if thorough else ["default"],
        plan=["S6"],
        eig=["numpy"],
    )
    T.append(
        (
            "A:ham-family x core-config",
            _cells(hamsA, cfgA),
            "all non-empty term subsets of {XX,YY,ZZ,DM,XZ,fX,fY,fZ} up to size k for (2S,L,k) in %r x bsz{1,2} x which{SA,LA} x bonds{[2],[2,4],[exact]} x init%s x seq%s; cutoff 0, one solve(tol=1e-10,max_sweeps=6), dense local solver"
            % (sizesA, "{default,comp0}" if thorough else "{default}", "{R,RL,LR}" if thorough else "{R,RL}"),
        )
    )

    # ---- B: configuration breadth on a fixed set of Hamiltonians ---------- #
    hamsB = [
        _spin(["XX", "YY", "ZZ"], 1, 4),
        _spin(["XX", "DM", "fY"], 1, 4),
        _spin(["XX", "ZZ", "fZ"], 1, 4, shift="pI"),
        _spin(["XX", "XZ", "fX"], 2, 3),
    ]
    if thorough:
        hamsB += [
            _spin(["XX", "YY", "ZZ"], 1, 5),
            _spin(["YY", "DM", "XZ"], 1, 5),
            _spin(["XX", "ZZ", "fZ"], 1, 5, shift="mI"),
            _spin(["ZZ", "DM", "fX"], 2, 4),
            _spin(["XX", "YY", "fZ"], 1, 6),
            {"kind": "gen-cplx", "S2": 1, "L": 4},
        ]
    axB1 = dict(
        bsz=[1, 2],
        which=["SA", "LA"],
        bonds=[[1], [2], [3], [2, 4], ["EXACT"], [4, 2]] if thorough else [[1], [2], [2, 4], ["EXACT"], [4, 2]],
        cutoffs=[[0.0], [1e-10], [1e-4], [1e-4, 0.0]] if thorough else [[0.0], [1e-10], [1e-4]],
        seq=["R", "L", "RL", "LR", "RRL"] if thorough else ["R", "L", "RL", "RRL"],
        init=["default", "randp0", "comp0", "prodg", "randp0-big"] if thorough else ["default", "comp0", "prodg", "randp0-big"],
        plan=["S6"],
        eig=["default"],
    )
    T.append(
        (
            "B1:bonds x cutoffs x seq x init",
            _cells(hamsB, cfg_product(**axB1)),
            "%d fixed Hamiltonians (real, complex, spectrum shifted above/below 0, S=1, L up to %d) x bsz x which x bonds%r x cutoffs%r x seq%r x init%r; default local solver"
            % (len(hamsB), 6 if thorough else 4, axB1["bonds"], axB1["cutoffs"], axB1["seq"], axB1["init"]),
        )
    )
    axB2 = dict(
        bsz=[1, 2],
        which=["SA", "LA"],
        bonds=[[2], [2, 4], ["EXACT"]],
        cutoffs=[[0.0]],
        seq=[None, "RL", "RRL"],
        init=["default", "comp0"],
        plan=list(PLANS),
        eig=["default", "numpy", "linop"],
    )
    T.append(
        (
            "B2:plan x eig x bonds x seq",
            _cells(hamsB, cfg_product(**axB2)),
            "the same %d Hamiltonians x bsz x which x bonds{[2],[2,4],[exact]} x seq{library default,RL,RRL} x init{default,comp0} x solve plans %r x local eigensolver {default, dense pinned, TNLinearOperator}" % (len(hamsB), list(PLANS)),
        )
    )

    # ---- C: other ways to build a Hermitian MPO, shifts, larger d --------- #
    hamsC = []
    for L in (3, 4) + ((5,) if thorough else ()):
        for nm in ("sd-real", "sd-cplx", "sd-cut"):
            hamsC.append({"kind": "sitedep", "name": nm, "S2": 1, "L": L})
    for t in [["XX", "YY", "ZZ"], ["XX", "DM"], ["ZZ", "fX", "fY"], ["XZ", "fZ"]]:
        for L in (2, 3, 4):
            hamsC.append({"kind": "spin-dense", "terms": t, "S2": 1, "L": L})
    for kind in ("gen-real", "gen-cplx"):
        for S2, L in [(1, 2), (1, 3), (1, 4), (2, 2)] + ([(2, 3), (1, 5)] if thorough else []):
            hamsC.append({"kind": kind, "S2": S2, "L": L})
    for sh in ("pI", "mI"):
        for t in [["XX", "YY", "ZZ"], ["XX", "DM"], ["ZZ", "fX"]]:
            for S2, L in [(1, 3), (1, 4)] + ([(2, 3), (1, 5)] if thorough else []):
                hamsC.append(_spin(t, S2, L, shift=sh))
    if thorough:
        for t in [["XX", "YY", "ZZ"], ["XX", "DM", "fZ"], ["XZ", "fY"]]:
            hamsC.append(_spin(t, 1, 6))
            hamsC.append(_spin(t, 2, 5))
            hamsC.append(_spin(t, 3, 3))  # S = 3/2
    axC = dict(
        bsz=[1, 2],
        which=["SA", "LA"],
        bonds=[[2], [2, 4], ["EXACT"]],
        cutoffs=[[0.0], [1e-10]] if thorough else [[0.0]],
        seq=["R", "RL", "LR"] if thorough else ["R", "RL"],
        init=["default", "prodg"],
        plan=["S6", "S2+S3"],
        eig=["default", "numpy"],
    )
    T.append(
        (
            "C:mpo-builders x shifts x config",
            _cells(hamsC, cfg_product(**axC)),
            "%d Hamiltonians (site-dependent couplings incl. a cut bond; MatrixProductOperator.from_dense of spin models; generic dense Hermitian real/complex; spectrum shifted above/below zero%s) x bsz x which x bonds x cutoffs%r x seq%r x init{default,prodg} x plan{S6,S2+S3} x eig{default,dense pinned}"
            % (len(hamsC), "; L=6, S=1 L=5, S=3/2" if thorough else "", axC["cutoffs"], axC["seq"]),
        )
    )

    # ---- D: documented DMRG.opts that change the numerics ----------------- #
    # crossed with caps / cutoffs that make the local updates (also the LAST
    # one of a solve) discard weight
    hamsD = [
        _spin(["XX", "ZZ", "fX"], 2, 3),  # S=1: caps 1, 2 are below the local dimension
        _spin(["XX", "YY", "fZ"], 1, 4),
        _spin(["ZZ", "DM", "fX"], 1, 4),
    ]
    if thorough:
        hamsD += [_spin(["XX", "XZ", "fY"], 2, 4), _spin(["XX", "ZZ", "fZ"], 1, 5, shift="pI"), {"kind": "gen-cplx", "S2": 1, "L": 4}, _spin(["YY", "ZZ"], 3, 3)]
    modes = [None, "sum2", "rsum2", "sum1", "rsum1", "rel", "abs"]
    methods = [None, "svd", "svd:eig"] + (["eig"] if thorough else [])
    optsD1 = []
    for cm in modes:
        for me in methods:
            o = {}
            if cm is not None:
                o["bond_compress_cutoff_mode"] = cm
            if me is not None:
                o["bond_compress_method"] = me
            optsD1.append(o)
    axD1 = dict(
        bsz=[2],
        which=["SA", "LA"] if thorough else ["SA"],
        bonds=[[1], [2], [2, 4], ["EXACT"]],
        cutoffs=[[0.0], [1e-10], [1e-4], [5e-2]],
        seq=["R", "RL"],
        init=["default", "prodg"] if thorough else ["default"],
        plan=["S6"],
        eig=["default"],
        opts=optsD1,
    )
    T.append(
        (
            "D1:compress opts x truncation",
            _cells(hamsD, cfg_product(**axD1)),
            "%d Hamiltonians x DMRG2 x which%r x opts['bond_compress_cutoff_mode']%r x opts['bond_compress_method']%r (None = library default) x bonds{[1],[2],[2,4],[exact]} x cutoffs{0,1e-10,1e-4,5e-2} x seq{R,RL} x init%r"
            % (len(hamsD), axD1["which"], modes, methods, axD1["init"]),
        )
    )
    optsD2 = []
    for dense in (None, False, True):
        for bk in (None, "NUMPY", "SCIPY"):
            for tl in (None, 1e-10):
                for ncv in (None, 8):
                    o = {}
                    if dense is not None:
                        o["local_eig_ham_dense"] = dense
                    if bk is not None:
                        o["local_eig_backend"] = bk
                    if tl is not None:
                        o["local_eig_tol"] = tl
                    if ncv is not None:
                        o["local_eig_ncv"] = ncv
                    if dense is False and bk == "NUMPY":
                        continue  # a TNLinearOperator cannot be handed to the dense backend
                    optsD2.append(o)
    optsD2 += [{"default_sweep_sequence": "RL"}, {"default_sweep_sequence": "RRL"}, {"local_eig_maxiter": 1000}]
    axD2 = dict(
        bsz=[1, 2],
        which=["SA", "LA"],
        bonds=[[2], [2, 4], ["EXACT"]] if thorough else [[2], ["EXACT"]],
        cutoffs=[[0.0], [1e-4]],
        seq=[None, "RL"],
        init=["default"],
        plan=["S6"],
        eig=["default"],
        opts=optsD2,
    )
    T.append(
        (
            "D2:local eigensolver opts",
            _cells(hamsD, cfg_product(**axD2)),
            "%d Hamiltonians x bsz x which x %d settings of opts[local_eig_ham_dense x local_eig_backend x local_eig_tol x local_eig_ncv] + default_sweep_sequence{RL,RRL} + local_eig_maxiter x bonds%r x cutoffs{0,1e-4} x seq{library default,RL}"
            % (len(hamsD), len(optsD2) - 3, axD2["bonds"]),
        )
    )

    # ---- H: multi-solve histories on one DMRG object ---------------------- #
    # first call normally ends through the convergence test; later calls start
    # with / against the direction of the last sweep performed, reverse the
    # sequence, override caps, or run single sweeps
    hamsH = [
        _spin(["XX", "YY", "fZ"], 1, 4),
        _spin(["XX", "DM", "fX"], 1, 5),
        _spin(["XX", "ZZ", "fX"], 2, 3),
    ]
    if thorough:
        hamsH += [
            _spin(["XX", "YY", "ZZ"], 1, 6),
            _spin(["ZZ", "XZ", "fX"], 1, 4, shift="pI"),
            {"kind": "gen-cplx", "S2": 1, "L": 4},
            {"kind": "sitedep", "name": "sd-real", "S2": 1, "L": 5},
            _spin(["YY", "DM", "fZ"], 2, 4),
        ]
    plansH = list(HISTORY_PLANS) + ["steps:RLLR", "steps:LRRL", "steps:RRLL"] + (["steps:LLRRL", "steps:RLRLL"] if thorough else [])
    axH = dict(
        bsz=[1, 2],
        which=["SA", "LA"],
        bonds=[[2], [2, 4], ["EXACT"]],
        cutoffs=[[0.0], [1e-10]] if thorough else [[0.0]],
        seq=["R", "L", "RL", "LR"] + (["RRL"] if thorough else []),
        init=["default"],
        plan=plansH,
        eig=["numpy", "default"] if thorough else ["numpy"],
    )
    T.append(
        (
            "H:multi-solve histories",
            _cells(hamsH, cfg_product(**axH)),
            "%d Hamiltonians x bsz x which x bonds{[2],[2,4],[exact]} x cutoffs%r x cell sequence%r x init%r x eig%r x %d histories of solve() calls on one object %r (LAST/OPP = next call starts with/against the direction of the last sweep performed, REV = reversed sequence, steps = single-sweep calls); monitor and monotonicity run across the solve boundaries, returned state checked after every call"
            % (len(hamsH), axH["cutoffs"], axH["seq"], axH["init"], axH["eig"], len(plansH), plansH),
        )
    )

    # ---- P: periodic, energy/state consistency only ----------------------- #
    hamsP = []
    for t in [["XX", "YY", "ZZ"], ["XX", "DM", "fY"], ["ZZ", "fX"]] + ([["XX", "XZ", "fZ"], ["YY", "DM"]] if thorough else []):
        for L in (4, 5) + ((6,) if thorough else ()):
            hamsP.append(_spin(t, 1, L, cyclic=True))
    axP = dict(bsz=[1], which=["SA", "LA"], bonds=[[4], [2, 4]] if thorough else [[4]], cutoffs=[[1e-10]], seq=[None, "RL"] if thorough else [None], init=["default"], plan=["S2+S3"], eig=["default"])
    T.append(
        (
            "P:periodic consistency",
            _cells(hamsP, cfg_product(**axP)),
            "%d periodic Hamiltonians (L in %s) x DMRG1 x which x bonds%r x seq%r, unsegmented (periodic_segment_size=1.0): energy/state consistency only" % (len(hamsP), "4..6" if thorough else "4..5", axP["bonds"], axP["seq"]),
        )
    )

    only = opts.get("only")
    if only:
        T = [t for t in T if t[0].split(":")[0] in only.split(",")]
    return T


def run(ctx):
    ctx.rule = (
        "every cell of the named tables is run: a cell = (Hermitian MPO Hamiltonian spec, DMRG configuration); the DMRG object is driven through a plan of solve() calls "
        "with a monitor around every local update; a cell is distinct by (Hamiltonian spec, configuration) and non-trivial when at least one local update changed the energy of the real state; "
        "oracle = dense ED of the MPO's own matrix (cross-checked against a numpy-only construction of the same model)"
    )
    ctx.assumptions += [
        "the Hamiltonian C10 speaks about is the matrix of the MPO handed to DMRG (to_dense, upper index = row), which is also what MatrixProductOperator.apply uses; this is asserted per checkpoint (check 'library-convention')",
        "an update 'cannot truncate' when cutoff == 0 and the sweep's cap >= the maximal Schmidt rank of the updated bond (DMRG1 updates never truncate); monotonicity and per-update bookkeeping are asserted only on such updates",
        "exactness is asserted only after an update whose variational space provably is the whole Hilbert space (left/right bonds of full size, environments canonical) with no possibly-truncating update afterwards, and only with the dense local eigensolver pinned (opts['local_eig_backend']='NUMPY'): the iterative default may legitimately stall in the Krylov space of a symmetric start vector",
        "the bond cap is asserted for DMRG1 only when the initial state fits the cap and the schedule never shrinks (one-site updates cannot reduce a bond)",
        "periodic: unsegmented mode only (documented choice for small systems), DMRG1, energy/state consistency with tolerance 2e-6; exceptions there are counted as rejections",
        "per-update observation uses a harness-side wrapper around the instance attribute _update_local_state (no repository change); if the attribute is missing only the public per-sweep lists are checked",
    ]
    tables = plan_tables(ctx.tier, ctx.opts)
    thorough = ctx.tier == "thorough"
    ctx.bounds = {
        "tables": {n: len(c) for n, c, _ in tables},
        "L": "2..6 (open), 4..6 (periodic)" if thorough else "2..4 (open), 4..5 (periodic)",
        "phys_dim": "2..4" if thorough else "2..3",
        "hilbert_dim": "<= 243",
        "solve_calls_per_cell": "<= 5",
        "max_sweeps": "<= 10 per solve call",
    }
    for name, cells, desc in tables:
        table.run(ctx, "run_cell", cells, name=name, chunk=8)
        ctx.subproducts.append("%s: %s - complete (%d cells)" % (name, desc, len(cells)))
    # every violation signature seen (known findings included) with its count
    ctx.notes["signature_counts"] = {k: int(n) for k, n in sorted(ctx.viol_count.items())}


def replay(case):
    return table.replay(sys.modules[__name__], case)

"""Reference definitions for C20 - plain numpy, NO quimb import.

Textbook formulas for the entanglement / information measures, written as
directly as possible (eigenvalues of Hermitian matrices, singular values of a
reshaped ket, einsum partial traces from ``mc.ref``).  Boring on purpose.
"""

from __future__ import annotations

import itertools

import numpy as np

from .. import ref

PX = ref.PAULI["X"]
PY = ref.PAULI["Y"]
PZ = ref.PAULI["Z"]
PI2 = ref.PAULI["I"]
PAULIS = {"I": PI2, "X": PX, "Y": PY, "Z": PZ}


def prod(xs):
    p = 1
    for x in xs:
        p *= int(x)
    return p


def herm(x):
    x = np.asarray(x)
    return (x + x.conj().T) / 2


def evals(x):
    return np.linalg.eigvalsh(herm(x))


def dop(psi):
    v = np.asarray(psi).reshape(-1)
    return np.outer(v, v.conj())


def entropy(rho):
    """von Neumann entropy in bits."""
    w = evals(rho)
    w = w[w > 1e-15]
    return float(-np.sum(w * np.log2(w)))


def entropy_p(p):
    p = np.asarray(p, dtype=float)
    p = p[p > 1e-15]
    return float(-np.sum(p * np.log2(p)))


def schmidt(psi, dims, sysa):
    """Schmidt coefficients (singular values) of ket psi for the bipartition
    sysa | rest."""
    dims = list(dims)
    a = sorted(set(sysa))
    b = [i for i in range(len(dims)) if i not in a]
    x = np.asarray(psi).reshape(dims).transpose(a + b).reshape(prod(dims[i] for i in a), -1)
    return np.linalg.svd(x, compute_uv=False)


def complement(dims, sysa):
    return [i for i in range(len(dims)) if i not in set(sysa)]


def mutinf(rho, dims, sysa):
    a = sorted(set(sysa))
    b = complement(dims, a)
    return entropy(ref.ptrace(rho, dims, a)) + entropy(ref.ptrace(rho, dims, b)) - entropy(rho)


def pt_norm(rho, dims, sysa):
    """trace norm of the partial transpose"""
    return float(np.sum(np.abs(evals(ref.partial_transpose(rho, dims, sorted(set(sysa)))))))


def negativity(rho, dims, sysa):
    return max(0.0, (pt_norm(rho, dims, sysa) - 1) / 2)


def logneg(rho, dims, sysa):
    return max(0.0, float(np.log2(pt_norm(rho, dims, sysa))))


def reduced_pair(rho, dims, sysa, sysb):
    """(rho_ab, dims_ab, local indices of A) with the kept subsystems in
    ascending order."""
    ab = sorted(set(sysa) | set(sysb))
    rab = ref.ptrace(rho, dims, ab)
    dab = [dims[i] for i in ab]
    return rab, dab, [ab.index(i) for i in sysa]


def concurrence(rho4):
    """Wootters concurrence of a two-qubit density operator."""
    yy = np.kron(PY, PY)
    r = rho4 @ yy @ rho4.conj() @ yy
    lam = np.sqrt(np.abs(np.linalg.eigvals(r).real))
    lam = np.sort(lam)[::-1]
    return float(max(0.0, lam[0] - lam[1:].sum()))


def psd_sqrt(rho):
    w, v = np.linalg.eigh(herm(rho))
    w = np.clip(w, 0.0, None)
    return (v * np.sqrt(w)) @ v.conj().T


def fidelity(rho, sigma):
    """unsquared Uhlmann fidelity  || sqrt(rho) sqrt(sigma) ||_1"""
    s = np.linalg.svd(psd_sqrt(rho) @ psd_sqrt(sigma), compute_uv=False)
    return float(np.sum(s))


def trace_distance(rho, sigma):
    return float(0.5 * np.sum(np.abs(evals(np.asarray(rho) - np.asarray(sigma)))))


def local_unitary(dims, us):
    return ref.kron(*us)


# --------------------------------------------------------------------------- #
#                    two-qubit quantum discord (measure on B)                  #
# --------------------------------------------------------------------------- #


def _h2(r):
    r = np.clip(r, 0.0, 1.0)
    p = np.stack([(1 + r) / 2, (1 - r) / 2])
    with np.errstate(divide="ignore", invalid="ignore"):
        t = np.where(p > 1e-300, -p * np.log2(np.where(p > 1e-300, p, 1.0)), 0.0)
    return t.sum(0)


class Discord:
    """D(A|B) landscape of a two-qubit state rho (subsystem order A, B) over
    projective measurements {(1 +- n.sigma)/2} on B, n = n(theta, phi)."""

    def __init__(self, rho):
        rho = np.asarray(rho)
        self.rho = rho
        R = rho.reshape(2, 2, 2, 2)  # a b a' b'
        T = [np.einsum("abcd,db->ac", R, s) for s in (PI2, PX, PY, PZ)]  # Tr_B[(1 x s) rho]
        self.t = np.array([[np.trace(Tk @ s) for s in (PI2, PX, PY, PZ)] for Tk in T]).real
        ra = ref.ptrace(rho, [2, 2], [0])
        rb = ref.ptrace(rho, [2, 2], [1])
        self.sa = entropy(ra)
        self.iab = self.sa + entropy(rb) - entropy(rho)

    def f(self, th, ph):
        th = np.asarray(th, dtype=float)
        ph = np.asarray(ph, dtype=float)
        shp = np.broadcast(th, ph).shape
        th, ph = np.broadcast_arrays(th, ph)
        n = np.stack([np.sin(th) * np.cos(ph), np.sin(th) * np.sin(ph), np.cos(th)], -1).reshape(-1, 3)
        cond = 0.0
        for sgn in (1.0, -1.0):
            comp = (self.t[0][None, :] + sgn * n @ self.t[1:]) / 2  # (N, 4): rho_A|j p_j = (p 1 + v.sigma)/2
            p = comp[:, 0]
            v = np.linalg.norm(comp[:, 1:], axis=1)
            with np.errstate(divide="ignore", invalid="ignore"):
                r = np.where(p > 1e-15, v / np.where(p > 1e-15, p, 1.0), 0.0)
            cond = cond + np.where(p > 1e-15, p * _h2(r), 0.0)
        return (self.iab - (self.sa - cond)).reshape(shp)

    def minimum(self, n=48, rounds=7):
        th = np.linspace(0, np.pi, n + 1)
        ph = np.linspace(0, 2 * np.pi, 2 * n, endpoint=False)
        TH, PH = np.meshgrid(th, ph, indexing="ij")
        F = self.f(TH, PH)
        # refine from the few best grid points (distinct basins)
        order = np.argsort(F, axis=None)[:6]
        best = float("inf")
        for o in order:
            i = np.unravel_index(o, F.shape)
            t0, p0, w = TH[i], PH[i], np.pi / n
            loc = float(F[i])
            for _ in range(rounds):
                t = np.linspace(t0 - w, t0 + w, 13)
                p = np.linspace(p0 - 2 * w, p0 + 2 * w, 13)
                T2, P2 = np.meshgrid(t, p, indexing="ij")
                F2 = self.f(T2, P2)
                j = np.unravel_index(np.argmin(F2), F2.shape)
                if F2[j] < loc:
                    loc = float(F2[j])
                t0, p0 = T2[j], P2[j]
                w = w / 4
            best = min(best, loc)
        return best

    def edge_minima(self, n=2000, rounds=6):
        """local minima of the landscape restricted to the boundary of the
        box [0, pi] x [0, 2 pi]: the poles (theta = 0, pi: one value, the
        z-axis measurement) and the seam phi = 0 = 2 pi."""
        out = [float(self.f(0.0, 0.0)), float(self.f(np.pi, 0.0))]
        th = np.linspace(0, np.pi, n + 1)
        e = self.f(th, np.zeros_like(th))
        for i in range(1, n):
            if e[i] <= e[i - 1] and e[i] <= e[i + 1]:
                t0, w, loc = th[i], np.pi / n, float(e[i])
                for _ in range(rounds):
                    t = np.linspace(t0 - w, t0 + w, 21)
                    v = self.f(t, np.zeros_like(t))
                    j = int(np.argmin(v))
                    loc = min(loc, float(v[j]))
                    t0, w = t[j], w / 5
                out.append(loc)
        return out


def owci(rho, povm):
    """one-way classical information S(A) - sum_j p_j S(rho_A|j), measurement
    {E_j} on the SECOND qubit."""
    sa = entropy(ref.ptrace(rho, [2, 2], [0]))
    tot = 0.0
    for e in povm:
        m = np.kron(np.eye(2), e) @ rho
        p = np.trace(m).real
        if p > 1e-14:
            tot += p * entropy(ref.ptrace(m, [2, 2], [0]) / p)
    return sa - tot


def bloch_projector(th, ph):
    n = (np.sin(th) * np.cos(ph), np.sin(th) * np.sin(ph), np.cos(th))
    return (PI2 + n[0] * PX + n[1] * PY + n[2] * PZ) / 2


BELL = {
    0: np.array([0, 1, -1, 0], dtype=complex) / np.sqrt(2),  # psi-
    1: np.array([0, 1, 1, 0], dtype=complex) / np.sqrt(2),  # psi+
    2: np.array([1, 0, 0, -1], dtype=complex) / np.sqrt(2),  # phi-
    3: np.array([1, 0, 0, 1], dtype=complex) / np.sqrt(2),  # phi+
}


def pauli_string(name):
    return ref.kron(*[PAULIS[c] for c in name])


def pauli_names(n):
    return ["".join(p) for p in itertools.product("IXYZ", repeat=n)]


def page(m, n):
    """Page's average entropy (bits) of a subsystem of dimension m in a random
    pure state of dimension m*n."""
    if m > n:
        m, n = n, m
    s = sum(1.0 / k for k in range(n + 1, m * n + 1)) - (m - 1) / (2.0 * n)
    return s / np.log(2.0)

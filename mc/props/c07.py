"""C07 - all circuit simulators implement the same unitary semantics, and no
query ever reads a stale cache (DESIGN.md section 3, C07).

Three enumerations on the real code, one oracle (a plain numpy statevector
simulator fed with hand-written textbook gate matrices, ``c07_gates.py``):

G  gate-matrix table: every label of ``ALL_GATES`` x its parameter grid:
   ``Gate.array`` is unitary and equals the textbook matrix; ``build_mpo``
   (plain and controlled, every ordered placement), every spelling of
   ``apply_gate`` records the same gate.
T  application table: gate x ordered placement x controls x simulator
   configuration x prior state: apply ONE gate, then the state (``to_dense``
   or, for the Heisenberg simulator, local expectations) and a battery of
   queries must agree with the reference; a rejected gate must leave every
   observable unchanged.
H  histories (SeqExplorer): gates, parameter updates, named-parameter
   binding, ``copy()`` and *queries as events*, breadth first; the oracle runs
   after every transition.  The canonical key of a state is a generic digest
   of ``vars(circ)`` (caches included), see ``canon_obj``.
"""

from __future__ import annotations

import itertools
import re
import sys

import numpy as np

from .. import core, seq, table
from ..alphabet import fill
from ..qhelp import Renamer, arr_digest
from . import c07_gates as tb

TOL = 2e-7  # double precision routes (default decomposition cutoff 1e-10)
TOL32 = 2e-4  # routes whose documented default dtype is complex64
PMIN = 1e-9  # a sampled string must have at least this reference probability

MPS_CLASSES = ("CircuitMPS", "CircuitPermMPS", "CircuitMPSLazy")
SU_CLASSES = ("CircuitPEPSSimpleUpdate", "CircuitPEPOSimpleUpdate")
EXACT_CLASSES = ("Circuit", "CircuitDense")


# --------------------------------------------------------------------------- #
#                              data of the alphabet                           #
# --------------------------------------------------------------------------- #


def raw_matrix(label):
    """'RAW<k>' -> a fixed generic unitary on k qubits (raw gates are documented
    as 'assumed to be unitary')."""
    k = int(label[3:])
    return fill("unitary", (2**k, 2**k), "complex128", key=("c07raw", k))


def obs_matrix(k, tag=0):
    """generic complex non-symmetric, non-hermitian observable on k qubits"""
    return fill("generic", (2**k, 2**k), "complex128", key=("c07obs", k, tag))


def gdesc(label, params=(), qubits=(), controls=None, parametrize=False, opts=()):
    """JSON-able gate descriptor."""
    return (label, tuple(float(p) for p in params), tuple(qubits), None if not controls else tuple(controls), bool(parametrize), tuple(opts))


def g_matrix(label, params):
    return raw_matrix(label) if label.startswith("RAW") else tb.textbook(label, params)


def g_full(g):
    """(matrix incl. controls, where) of a gate descriptor / record entry."""
    label, params, qubits, controls = g[0], g[1], g[2], g[3]
    M = g_matrix(label, params)
    if controls:
        M = tb.controlled(M, len(controls))
        return M, tuple(controls) + tuple(qubits)
    return M, tuple(qubits)


def default_params(label):
    if label.startswith("RAW"):
        return ()
    return tb.DEFAULT_PARAMS[: tb.TEXTBOOK[label][1]]


def nqubits(label):
    return int(label[3:]) if label.startswith("RAW") else tb.TEXTBOOK[label][0]


METHOD_NAME = {"XXPLUSYY": "xx_plus_yy", "XXMINUSYY": "xx_minus_yy"}


# --------------------------------------------------------------------------- #
#                             simulator construction                          #
# --------------------------------------------------------------------------- #


def psi0_vector(kind, N):
    if kind is None:
        v = np.zeros(2**N, dtype=complex)
        v[0] = 1.0
        return v
    if kind.startswith("bits:"):
        v = np.zeros(2**N, dtype=complex)
        v[int(kind[5:], 2)] = 1.0
        return v
    if kind == "ent":
        v = fill("generic", (2**N,), "complex128", key=("c07psi0", N))
        return v / np.linalg.norm(v)
    raise KeyError(kind)


def make_psi0(kind, N, cls):
    import quimb.tensor as qtn

    if kind is None:
        return None
    if kind.startswith("bits:"):
        return qtn.MPS_computational_state(kind[5:])
    v = psi0_vector(kind, N)
    if cls == "CircuitDense":
        return qtn.Dense1D(v, phys_dim=2)
    return qtn.MatrixProductState.from_dense(v, dims=[2] * N)


def make_circ(spec):
    import quimb.tensor as qtn

    cls = getattr(qtn, spec["cls"])
    N = spec["N"]
    kw = {}
    for k, v in dict(spec.get("kw") or {}).items():
        kw[k] = v
    if spec["cls"] in SU_CLASSES:
        kw["edges"] = [tuple(e) for e in spec["edges"]]
        return cls(N, **kw)
    p0 = make_psi0(spec.get("psi0"), N, spec["cls"])
    if p0 is not None:
        return cls(N, psi0=p0, **kw)
    return cls(N, **kw)


def contract_of(spec):
    kw = dict(spec.get("kw") or {})
    if "gate_contract" in kw:
        return kw["gate_contract"]
    return {
        "Circuit": "auto-split-gate",
        "CircuitDense": True,
        "CircuitMPS": "auto-mps",
        "CircuitPermMPS": "swap+split",
        "CircuitMPSLazy": "lazy",
        "CircuitPEPSSimpleUpdate": "simple",
        "CircuitPEPOSimpleUpdate": "simple",
    }[spec["cls"]]


def spec_name(spec):
    kw = dict(spec.get("kw") or {})
    bits = [spec["cls"], "N%d" % spec["N"]]
    bits += ["%s=%s" % (k, kw[k]) for k in sorted(kw)]
    if spec.get("psi0"):
        bits.append("psi0=" + spec["psi0"])
    if spec.get("edges"):
        bits.append("edges=" + "".join("%d%d" % tuple(e) for e in spec["edges"]))
    if spec.get("init"):
        bits.append("init=" + spec["init"])
    if spec.get("alpha", "q") != "q":
        bits.append("alpha=" + spec["alpha"])
    return ",".join(bits)


# --------------------------------------------------------------------------- #
#                                   world                                     #
# --------------------------------------------------------------------------- #


class W:
    def __init__(self, spec):
        self.spec = spec
        self.N = spec["N"]
        self.cls = spec["cls"]
        self.circ = make_circ(spec)
        self.psi0 = psi0_vector(spec.get("psi0"), self.N)
        self.glist = []  # record entries: [label, params(list), qubits, controls, parametrize]
        self.named = None  # {'vals': {'a':..,'b':..}, 'exprs': {i: (expr idx,...)}}
        self.orig = None  # (circ, glist snapshot) of the circuit copy() was called on
        self.key = None
        # facts about the history, used ONLY to classify root causes
        self.flags = {"fresh_copy": False, "lexp_on_copy": False, "queried_before_last_mut": False, "queried": False}

    def ref(self, glist=None):
        psi = self.psi0
        for g in self.glist if glist is None else glist:
            M, where = g_full(g)
            psi = tb.apply(psi, M, where, self.N)
        return psi

    def perm_nontrivial(self):
        q = getattr(self.circ, "qubits", None)
        return bool(q is not None and list(q) != list(range(self.N)))


def q_apply_gate(circ, g, spelling="args"):
    from quimb.tensor.circuit.gates import Gate

    label, params, qubits, controls, parametrize, opts = g
    kw = dict(opts)
    if label.startswith("RAW"):
        U = raw_matrix(label)
        if spelling == "gate_args":
            circ.apply_gate(U, *qubits, controls=list(controls) if controls else None, **kw)
        else:
            circ.apply_gate_raw(U, qubits, controls=list(controls) if controls else None, **kw)
        return
    if spelling == "args":
        if controls:
            kw["controls"] = list(controls)
        if parametrize:
            kw["parametrize"] = True
        circ.apply_gate(label, *params, *qubits, **kw)
    elif spelling == "kwargs":
        circ.apply_gate(label, params=list(params), qubits=list(qubits), controls=list(controls) if controls else None, parametrize=parametrize or None, **kw)
    elif spelling == "object":
        circ.apply_gate(Gate(label, list(params), qubits=qubits, controls=controls, parametrize=parametrize), **kw)
    elif spelling == "gates":
        circ.apply_gates([(label,) + tuple(params) + tuple(qubits)], **kw)
    elif spelling == "lower":
        circ.apply_gate(label.lower(), *params, *qubits, **kw)
    elif spelling == "round":
        circ.apply_gate(7, label, *params, *qubits, **kw)
    elif spelling == "method":
        fn = getattr(circ, METHOD_NAME.get(label, label.lower()))
        if tb.TEXTBOOK[label][1] and parametrize:
            kw["parametrize"] = True
        fn(*params, *qubits, **kw)
    else:
        raise KeyError(spelling)


# --------------------------------------------------------------------------- #
#                       generic canonical key (DESIGN 2.1)                    #
# --------------------------------------------------------------------------- #

_RAWID = re.compile(r"RAW\d+")
_ADDR = re.compile(r"0x[0-9a-fA-F]+")


def canon_obj(x, rn, depth=0):
    """Generic, process independent digest of a python object graph: sorted
    ``vars`` names + digest of every value; arrays by rounded bytes, uuid names
    renamed by first appearance, ``id()`` based names (raw gate labels, keys of
    the backend gate cache) replaced by content digests."""
    import quimb.tensor as qtn
    from quimb.tensor.circuit.core import CircuitBase
    from quimb.tensor.circuit.gates import Gate

    if depth > 12:
        return "<deep>"
    d = depth + 1
    if x is None or isinstance(x, (bool, int)):
        return x
    if isinstance(x, float):
        return round(x, 9) + 0.0
    if isinstance(x, complex):
        return (round(x.real, 9) + 0.0, round(x.imag, 9) + 0.0)
    if isinstance(x, str):
        return rn(_RAWID.sub("RAW", x))
    if isinstance(x, np.generic):
        return canon_obj(x.item(), rn, d)
    if isinstance(x, np.ndarray):
        if x.dtype == object:
            return ("objarr", tuple(canon_obj(v, rn, d) for v in x.ravel().tolist()))
        return ("arr", arr_digest(x, 7))
    if isinstance(x, Gate):
        arr = None
        if isinstance(x.params, str):  # raw gate: label carries id(U)
            arr = canon_obj(np.asarray(x.array), rn, d)
        return ("Gate", _RAWID.sub("RAW", x.label), canon_obj(x.params, rn, d), x.qubits, x.controls, x.round, x.parametrize, arr)
    if isinstance(x, qtn.Tensor):
        extra = ()
        if isinstance(x, qtn.PTensor):
            extra = ("params", canon_obj(np.asarray(x.params), rn, d))
        return (type(x).__name__, tuple(rn(i) for i in x.inds), tuple(sorted(rn(t) for t in x.tags)), arr_digest(np.asarray(x.data), 7), tuple(rn(i) for i in (x.left_inds or ())), extra)
    if isinstance(x, qtn.TensorNetwork):
        props = tuple((p, canon_obj(getattr(x, p, None), rn, d)) for p in getattr(x, "_EXTRA_PROPS", ()))
        return (type(x).__name__, canon_obj(float(np.real(x.exponent)), rn, d), props, tuple(canon_obj(t, rn, d) for t in x.tensors))
    if isinstance(x, CircuitBase):
        items = []
        for k in sorted(vars(x)):
            v = vars(x)[k]
            if k == "_backend_gate_cache":
                # keys are id() of gate arrays: not reproducible; keep contents
                v = sorted(arr_digest(np.asarray(a[0]), 7) for a in v.values())
            elif k == "_sampled_conditionals":
                # cached conditionals are complex64 contraction results: equal
                # up to single precision rounding (which depends on the
                # contraction path found) - digest them at 4 decimals
                v = {kk: ("p", arr_digest(np.asarray(pp, dtype=float), 4)) for kk, pp in v.items()}
            items.append((k, canon_obj(v, rn, d)))
        return ("circ", type(x).__name__, tuple(items))
    if isinstance(x, dict):
        items = [(canon_obj(k, rn, d), canon_obj(v, rn, d)) for k, v in x.items()]
        return ("dict", tuple(sorted(items, key=lambda kv: repr(kv[0]))))
    if isinstance(x, (list, tuple)):
        return (type(x).__name__, tuple(canon_obj(v, rn, d) for v in x))
    if isinstance(x, (set, frozenset)) or type(x).__name__ == "oset":
        return ("set", tuple(sorted((canon_obj(v, rn, d) for v in x), key=repr)))
    if callable(x):
        return ("fn", getattr(x, "__qualname__", type(x).__name__))
    if hasattr(x, "__dict__"):
        return (type(x).__name__, tuple((k, canon_obj(v, rn, d)) for k, v in sorted(vars(x).items())))
    try:
        return canon_obj(np.asarray(x), rn, d) if hasattr(x, "shape") else _ADDR.sub("0x", repr(x))
    except Exception:
        return _ADDR.sub("0x", repr(x))


def world_key(w):
    rn = Renamer()
    k = [canon_obj(w.circ, rn)]
    if w.orig is not None:
        k.append(canon_obj(w.orig[0], rn))
        k.append(repr(w.orig[1]))
    # the harness' own record is a function of the history through the gate
    # list and parameters, which vars(circ) already contains; named-parameter
    # bookkeeping of the harness mirrors circ._named_params
    return core.digest(repr(k))


# --------------------------------------------------------------------------- #
#                                   queries                                   #
# --------------------------------------------------------------------------- #


def _vec(x):
    return np.asarray(x, dtype=complex).reshape(-1)


def _tn_dense_vec(tn, N, ind_id="k{}"):
    return _vec(tn.to_dense([ind_id.format(i) for i in range(N)]))


def _cmp(name, got, exp, tol):
    got = np.asarray(got)
    exp = np.asarray(exp)
    if got.size != exp.size:
        return "%s: shape %r != expected %r" % (name, got.shape, exp.shape)
    got = got.reshape(exp.shape)
    if not np.all(np.isfinite(got)):
        return "%s: non-finite result" % name
    err = float(np.max(np.abs(got - exp))) if exp.size else 0.0
    if err > tol * max(1.0, float(np.max(np.abs(exp))) if exp.size else 1.0):
        return "%s: max abs error %.3e (tol %.0e)" % (name, err, tol)
    return None


# --------------------------------------------------------------------------- #
#        sampler oracle: the conditionals that are drawn from / cached        #
# --------------------------------------------------------------------------- #


def _sample_opts(opt):
    """None | (key, value) | ((key, value), ...) -> tuple of pairs"""
    if opt is None:
        return ()
    if isinstance(opt[0], str):
        return (tuple(opt),)
    return tuple(tuple(o) for o in opt)


class DrawRecorder:
    """Harness-side seam: every sampler draws its bits through
    ``sample_bitstring_from_prob_ndarray(p, seed)`` (imported by name into the
    ``exact`` and ``mps`` modules).  While a sampler query runs, that name is
    wrapped to RECORD the probability array each draw used; the real function
    still does the drawing.  Nothing in quimb is changed outside the ``with``."""

    NAME = "sample_bitstring_from_prob_ndarray"

    def __enter__(self):
        import importlib

        self.draws = []
        self.saved = []
        for modname in ("quimb.tensor.circuit.exact", "quimb.tensor.circuit.mps"):
            try:
                mod = importlib.import_module(modname)
            except ImportError:
                continue
            fn = getattr(mod, self.NAME, None)
            if fn is None:
                continue
            self.saved.append((mod, fn))

            def wrap(p, seed=None, _fn=fn):
                b = _fn(p, seed=seed)
                self.draws.append((np.array(np.asarray(p), dtype=float), str(b)))
                return b

            setattr(mod, self.NAME, wrap)
        self.active = bool(self.saved)
        return self

    def __exit__(self, *exc):
        for mod, fn in self.saved:
            setattr(mod, self.NAME, fn)
        return False


def cond_ref(psi, where, prior, N):
    """(p(where | prior) as an array with one axis per qubit of ``where``,
    p(prior)) from the reference state"""
    joint = tb.joint_prob(psi, tuple(where), {int(q): str(b) for q, b in prior.items()} or None, N)
    tot = float(joint.sum())
    return (joint / tot if tot > 0 else joint), tot


def _cmp_cond(what, p, where, prior, psi, N):
    """None | message | 'thin' (prior too unlikely for a single precision
    conditional to be asserted with a 10x margin)"""
    ref, pp = cond_ref(psi, where, prior, N)
    scale = pp * 2 ** len(prior)  # compute_marginal rescales by 2**len(fix)
    if scale < 1e-2:
        return "thin"
    p = np.asarray(p, dtype=float)
    if p.size != ref.size:
        return "%s: conditional of %r given %r has %d entries" % (what, where, prior, p.size)
    p = p.reshape(ref.shape)
    tot = float(p.sum())
    if not np.isfinite(tot) or tot <= 0:
        return "%s: conditional of %r given %r sums to %r" % (what, where, prior, tot)
    err = float(np.max(np.abs(p / tot - ref)))
    if err > TOL32 / min(1.0, scale):
        return "%s: qubits %r given %r: distribution %s, but the state has p(%r | %r) = %s (max abs error %.3e)" % (what, where, dict(sorted(prior.items())), np.round(p / tot, 4).reshape(-1).tolist(), where, dict(sorted(prior.items())), np.round(ref, 4).reshape(-1).tolist(), err)
    return None


def check_draws(rec, out, qubits, groups, psi, N, what, given_rest=False):
    """Every yielded string was built group by group, each group drawn from a
    probability array: that array must be the reference conditional of the
    group given the bits drawn before it (sample) / given all other qubits
    (sample_chaotic).  The grouping is the documented one (the order cut into
    group_size pieces, sorted inside a piece); if the recorded draws do not fit
    that picture the harness says so and asserts support only."""
    if not rec.active:
        return None, "support-only(no-draw-seam)"
    G = len(groups)
    if len(rec.draws) != len(out) * G:
        return None, "support-only(draw-count)"
    n = thin = 0
    for s_i, b in enumerate(out):
        val = {q: b[i] for i, q in enumerate(qubits)}
        prior = {q: val[q] for q in qubits if q not in groups[0]} if given_rest else {}
        for j, where in enumerate(groups):
            p, bits = rec.draws[s_i * G + j]
            if p.ndim != len(where) or len(bits) != len(where) or any(bits[i] != val[q] for i, q in enumerate(where)):
                return None, "support-only(grouping)"
            m = _cmp_cond(what + " drew", p, where, prior, psi, N)
            if m == "thin":
                thin += 1
            elif m:
                return m, "draws"
            else:
                n += 1
            if not given_rest:
                prior.update({q: val[q] for q in where})
    return None, "draws%s" % ("-thin" if thin and not n else "")


def _known_layout(key):
    try:
        where, prior = key
        return isinstance(where, tuple) and all(isinstance(q, (int, np.integer)) for q in where) and isinstance(prior, tuple) and all(isinstance(x, tuple) and len(x) == 2 and isinstance(x[0], (int, np.integer)) and str(x[1]) in ("0", "1") for x in prior)
    except Exception:
        return False


def check_cond_cache(cache, psi, N, what):
    """circ._sampled_conditionals: key (where, ((q, b), ...)) -> probability
    array of ``where`` given those earlier results.  EVERY entry must be the
    reference conditional of exactly that meaning.  Unknown layout -> nothing
    asserted, reported in the outcome."""
    if cache is None or not isinstance(cache, dict):
        return None, "cache-unreadable"
    if not all(_known_layout(k) for k in cache):
        return None, "cache-layout-unknown"
    for key in sorted(cache, key=repr):
        where, prior = key
        m = _cmp_cond(what + ": cached conditional", cache[key], tuple(int(q) for q in where), {int(q): str(b) for q, b in prior}, psi, N)
        if m and m != "thin":
            return m, "cache"
    return None, "cache%d" % min(len(cache), 9)


def check_gbg_caches(w, c, gs, what):
    """gate-by-gate sampling keeps one sub-circuit per group, each with its own
    conditionals cache: every cached entry must be the conditional of the state
    defined by THAT sub-circuit's recorded gates (textbook matrices)."""
    if w.spec.get("psi0") is not None:
        return None, "support-only(psi0)"  # sub-circuits start from |0..0>: open finding
    try:
        subs = c._storage[("gate_by_gate_circuits", gs)]
        items = [(d["circuit"], tuple(d["where"])) for d in subs]
    except Exception:
        return None, "cache-unreadable"
    n = 0
    for sub, where in items:
        psi = psi0_vector(None, w.N)
        for g in sub.gates:
            label = g.label
            if label.startswith("RAW"):
                label = "RAW%d" % len(g.qubits)
                if not np.allclose(np.asarray(g.array).reshape(2 ** len(g.qubits), -1), raw_matrix(label)):
                    return None, "support-only(raw)"
                params = ()
            else:
                params = tuple(float(x) for x in np.asarray(g.params, dtype=float).reshape(-1))
            M, wh = g_full((label, params, tuple(g.qubits), tuple(g.controls) if g.controls else None))
            psi = tb.apply(psi, M, wh, w.N)
        cache = getattr(sub, "_sampled_conditionals", None)
        m, how = check_cond_cache(cache, psi, w.N, what + " sub-circuit with %d gates" % len(sub.gates))
        if m:
            return m, "cache"
        if not how.startswith("cache") or how in ("cache-unreadable", "cache-layout-unknown"):
            return None, how
        n += len(cache)
    return None, "cache%d" % min(n, 9)



def fix_for(psi, qubits, N):
    """most likely outcome of ``qubits`` in the reference state (ties -> '0'):
    a fix with non-zero probability, chosen by the harness"""
    p = tb.joint_prob(psi, tuple(qubits), None, N).reshape(-1)
    j = int(np.argmax(np.round(p, 9)))
    bits = format(j, "0%db" % len(qubits))
    return {int(q): b for q, b in zip(qubits, bits)}


def run_query(w, e, circ=None, psi=None):
    """Run one query event on the real object and compare with the reference.
    Returns (message or None, outcome string)."""
    c = w.circ if circ is None else circ
    psi = w.ref() if psi is None else psi
    N = w.N
    k = e[0]
    if k == "dense":
        got = _vec(c.to_dense(reverse=True) if e[1] else c.to_dense())
        exp = psi.reshape([2] * N).transpose(list(range(N))[::-1]).reshape(-1) if e[1] else psi
        return _cmp("to_dense(reverse=%s)" % e[1], got, exp, TOL), "dense"
    if k == "amp":
        got = complex(np.asarray(c.amplitude(e[1])))
        return _cmp("amplitude(%s)" % e[1], got, psi[int(e[1], 2)], TOL), "amp:%s" % ("nz" if abs(psi[int(e[1], 2)]) > 1e-6 else "zero")
    if k == "amp_all":
        got = [complex(np.asarray(c.amplitude(format(j, "0%db" % N)))) for j in range(2**N)]
        return _cmp("amplitude(all b)", got, psi, TOL), "amp_all"
    if k == "ptr":
        keep = e[1]
        got = np.asarray(c.partial_trace(keep if len(keep) > 1 or e[2:] != ("int",) else keep[0]))
        return _cmp("partial_trace(%r)" % (keep,), got, tb.rdm(psi, keep, N), TOL), "ptr:%d" % len(keep)
    if k == "lexp":
        where, variant = e[1], e[2]
        G = obs_matrix(len(where), 0)
        exp = tb.expectation(psi, G, where, N)
        kw = {}
        arg_where = where
        if variant == "dtype":
            kw["dtype"] = "complex128"
        elif variant == "int":
            arg_where = where[0]
        elif variant == "normalized":
            kw["normalized"] = True
        if variant == "tuple":
            G2 = obs_matrix(len(where), 1)
            got = c.local_expectation((G, G2), where)
            exp = [exp, tb.expectation(psi, G2, where, N)]
            got = [complex(np.asarray(x)) for x in got]
        else:
            got = complex(np.asarray(c.local_expectation(G, arg_where, **kw)))
        return _cmp("local_expectation(G, %r, %s)" % (where, variant), got, exp, TOL), "lexp:%d:%s" % (len(where), variant)
    if k == "marg":
        where, fx = e[1], e[2]
        fix = None if fx is None else {int(q): str(b) for q, b in fx}
        got = np.asarray(c.compute_marginal(where, fix=fix))
        exp = tb.joint_prob(psi, where, fix, N)
        return _cmp("compute_marginal(%r, fix=%r)" % (where, fix), got, exp, TOL32), "marg:%d:%s" % (len(where), "fix" if fix else "nofix")
    if k == "sample":
        C, seed, opts = e[1], e[2], _sample_opts(e[3])
        kw = {kk: (list(v) if isinstance(v, tuple) else v) for kk, v in opts}
        qubits = tuple(dict(opts).get("qubits", range(N)))
        with DrawRecorder() as rec:
            out = list(c.sample(C, seed=seed, **kw))
        tag = "+".join(kk for kk, _ in opts) or "default"
        if len(out) != C:
            return "sample yielded %d strings, asked %d" % (len(out), C), "sample"
        out = ["".join(str(x) for x in b) for b in out]
        pm = tb.joint_prob(psi, qubits, None, N)
        for b in out:
            if len(b) != len(qubits) or set(b) - {"0", "1"}:
                return "sample yielded malformed string %r" % (b,), "sample"
            if pm[tuple(int(x) for x in b)] < PMIN:
                return "sample(%r) yielded %s on qubits %r which has reference probability %.2e" % (e[1:], b, qubits, pm[tuple(int(x) for x in b)]), "sample"
        if w.cls not in EXACT_CLASSES:
            return None, "sample:%s" % tag  # MPS samplers: no conditionals cache
        # (a) the distribution every group was actually DRAWN from
        order = dict(opts).get("order")
        if order is None:
            order = tuple(c.calc_qubit_ordering(qubits))  # cached by sample() itself: no new state
        gs = dict(opts).get("group_size", 10)
        groups = [tuple(sorted(order[i : i + gs])) for i in range(0, len(order), gs)]
        msg, how = check_draws(rec, out, qubits, groups, psi, N, "sample(%r)" % (e[1:],))
        if msg:
            return msg, "sample"
        # (b) every cached conditional means what its key says
        msg2, how2 = check_cond_cache(getattr(c, "_sampled_conditionals", None), psi, N, "sample(%r)" % (e[1:],))
        return msg2, "sample:%s:%s:%s" % (tag, how, how2)
    if k == "sample_chaotic":
        C, mq, seed = e[1], e[2], e[3]
        with DrawRecorder() as rec:
            if isinstance(mq, int):
                out = list(c.sample_chaotic(C, mq, seed=seed))
            else:
                rest = [q for q in range(N) if q not in mq]
                out = list(c.sample_chaotic(C, list(mq), fix=fix_for(psi, rest, N), seed=seed))
        for b in out:
            if tb.prob_of(psi, b) < PMIN:
                return "sample_chaotic(%r) yielded %s which has reference probability %.2e" % (e[1:], b, tb.prob_of(psi, b)), "sample_chaotic"
        if len(out) != C:
            return "sample_chaotic yielded %d strings" % len(out), "sample_chaotic"
        where = tuple(sorted(c.calc_qubit_ordering()[:mq])) if isinstance(mq, int) else tuple(sorted(mq))
        # one draw per sample: the marginal qubits given ALL the others
        msg, how = check_draws(rec, out, tuple(range(N)), [where], psi, N, "sample_chaotic(%r)" % (e[1:],), given_rest=True)
        if msg:
            return msg, "sample_chaotic"
        msg2, how2 = check_cond_cache(getattr(c, "_sampled_conditionals", None), psi, N, "sample_chaotic(%r)" % (e[1:],))
        return msg2, "sample_chaotic:%s:%s" % (how, how2)
    if k == "sample_gbg":
        C, seed, gs = e[1], e[2], e[3]
        out = list(c.sample_gate_by_gate(C, seed=seed, group_size=gs))
        for b in out:
            if tb.prob_of(psi, b) < PMIN:
                return "sample_gate_by_gate(%r) yielded %s which has reference probability %.2e" % (e[1:], b, tb.prob_of(psi, b)), "sample_gbg"
        if len(out) != C:
            return "sample_gate_by_gate yielded %d strings" % len(out), "sample_gbg"
        msg2, how2 = check_gbg_caches(w, c, gs, "sample_gate_by_gate(%r)" % (e[1:],))
        return msg2, "sample_gbg:%s" % how2
    if k == "counts":
        C, seed = e[1], e[2]
        out = c.simulate_counts(C, seed=seed)
        if sum(out.values()) != C:
            return "simulate_counts total %d != %d" % (sum(out.values()), C), "counts"
        for b in out:
            if tb.prob_of(psi, b) < PMIN:
                return "simulate_counts yielded %s which has reference probability %.2e" % (b, tb.prob_of(psi, b)), "counts"
        return None, "counts"
    if k == "psi_simplified":
        tn = c.get_psi_simplified(e[1])
        return _cmp("get_psi_simplified(%r)" % e[1], _tn_dense_vec(tn, N), psi, TOL), "psi_simplified"
    if k == "rdm_lc":
        where = e[1]
        tn = c.get_rdm_lightcone_simplified(where)
        got = np.asarray(tn.to_dense([c.ket_site_ind(i) for i in where], [c.bra_site_ind(i) for i in where]))
        return _cmp("get_rdm_lightcone_simplified(%r)" % (where,), got, tb.rdm(psi, where, N), TOL), "rdm_lc"
    if k == "psi":
        tn = c.psi
        return _cmp("psi", _tn_dense_vec(tn, N, c._ket_site_ind_id), psi, TOL), "psi"
    if k == "uni":
        U = np.asarray(c.uni.to_dense())
        exp = np.eye(2**N, dtype=complex)
        for g in w.glist:
            M, where = g_full(g)
            exp = tb.full_matrix(M, where, N) @ exp
        return _cmp("uni.to_dense()", U, exp, TOL), "uni"
    if k == "get_params":
        got = c.get_params()
        exp = {}
        managed = set(w.named["exprs"]) if w.named else set()
        if w.named:
            exp.update(w.named["vals"])
        for i, g in enumerate(w.glist):
            if g[4] and i not in managed:
                exp[i] = list(g[1])
        if set(got) != set(exp):
            return "get_params keys %r != expected %r" % (sorted(map(str, got)), sorted(map(str, exp))), "get_params"
        for kk in exp:
            m = _cmp("get_params[%r]" % (kk,), np.asarray(got[kk], dtype=float).reshape(-1), np.asarray(exp[kk], dtype=float).reshape(-1), 1e-12)
            if m:
                return m, "get_params"
        return None, "get_params:%d" % len(exp)
    if k == "fidelity":
        return _cmp("fidelity_estimate()", float(c.fidelity_estimate()), 1.0, TOL), "fidelity"
    if k == "mps_sample":
        C, seed = e[1], e[2]
        if hasattr(c, "get_psi_unordered"):
            mps, order = c.get_psi_unordered(), list(c.qubits)
        else:
            mps, order = c.psi, list(range(N))
        n = 0
        for config, omega in mps.sample(C, seed=seed):
            bits = [None] * N
            for site, q in enumerate(order):
                bits[q] = str(int(config[site]))
            b = "".join(bits)
            p = tb.prob_of(psi, b)
            if p < PMIN or abs(float(omega) - p) > TOL * 10:
                return "psi.sample yielded %s with probability %.9f but reference probability is %.9f" % (b, float(omega), p), "mps_sample"
            n += 1
        return (None if n == C else "psi.sample yielded %d" % n), "mps_sample"
    if k == "evolved_op":
        where = e[1]
        G = obs_matrix(len(where), 0)
        op = c.get_evolved_operator(G, where if len(where) > 1 else where[0])
        got = np.asarray(op.to_dense())
        U = np.eye(2**N, dtype=complex)
        for g in w.glist:
            M, wh = g_full(g)
            U = tb.full_matrix(M, wh, N) @ U
        exp = U.conj().T @ tb.full_matrix(G, where, N) @ U
        return _cmp("get_evolved_operator(G, %r)" % (where,), got, exp, TOL), "evolved_op"
    if k == "get_state":
        tn = c.get_state(absorb_gauges=e[1])
        if e[1] == "return":
            tn, gauges = tn
            tn = tn.copy()
            tn.gauge_simple_insert(gauges)
        return _cmp("get_state(%r)" % (e[1],), _tn_dense_vec(tn, N), psi, TOL), "get_state"
    raise KeyError(e)


# which queries each class is documented to answer; anything else must raise
# NotImplementedError/AttributeError *without touching the object*
def supports_dense(cls):
    return cls != "CircuitPEPOSimpleUpdate"


def cheap_state_check(w, circ=None, glist=None, what="state"):
    """The state held by the object against the reference, through the
    cheapest exact read-out the class offers.  DESTRUCTIVE for caches - only
    used on worlds that are thrown away afterwards."""
    c = w.circ if circ is None else circ
    psi = w.ref(glist)
    if supports_dense(w.cls):
        got = _vec(c.to_dense())
        return _cmp("%s: to_dense()" % what, got, psi, TOL)
    # Heisenberg simulator: all one-site expectations + one per edge
    for q in range(w.N):
        G = obs_matrix(1, 0)
        m = _cmp("%s: local_expectation(G, %d)" % (what, q), complex(np.asarray(c.local_expectation(G, q))), tb.expectation(psi, G, (q,), w.N), TOL)
        if m:
            return m
    for a, b in w.spec["edges"]:
        G = obs_matrix(2, 0)
        m = _cmp("%s: local_expectation(G, (%d, %d))" % (what, b, a), complex(np.asarray(c.local_expectation(G, (b, a)))), tb.expectation(psi, G, (b, a), w.N), TOL)
        if m:
            return m
    return None


def record_check(w, circ=None, glist=None, strict_perm=True):
    """circ.gates must be the gates that were applied (label, qubits,
    controls, parameters, parametrize flag).  ``strict_perm``: also compare
    the recorded POSITIONS on the permutation tracking simulator (only done in
    the table: in the histories that pervasive finding would stop every
    history after the first non-trivial permutation from being expanded)."""
    gates = (w.circ if circ is None else circ).gates
    glist = w.glist if glist is None else glist
    if len(gates) != len(glist):
        return "circ.gates has %d entries, %d gates were applied" % (len(gates), len(glist))
    for i, (g, r) in enumerate(zip(gates, glist)):
        label, params, qubits, controls, parametrize = r[:5]
        # the permutation tracking simulator records gates at the PHYSICAL
        # sites they were applied to (not asserted: only arity is compared)
        perm = w.cls == "CircuitPermMPS" and not strict_perm
        if (tuple(g.qubits) != tuple(qubits) and not perm) or len(g.qubits) != len(qubits):
            return "gate %d recorded on qubits %r, applied on %r" % (i, g.qubits, qubits)
        if (tuple(g.controls or ()) != tuple(controls or ()) and not perm) or len(g.controls or ()) != len(controls or ()):
            return "gate %d recorded with controls %r, applied with %r" % (i, g.controls, controls)
        if label.startswith("RAW"):
            continue
        if g.label != label:
            return "gate %d recorded as %s, applied %s" % (i, g.label, label)
        if bool(g.parametrize) != bool(parametrize):
            return "gate %d recorded parametrize=%r, applied %r" % (i, g.parametrize, parametrize)
        gp = np.asarray(g.params, dtype=float).reshape(-1)
        if gp.size != len(params) or (gp.size and np.max(np.abs(gp - np.asarray(params))) > 1e-12):
            return "gate %d recorded params %r, current %r" % (i, gp.tolist(), list(params))
    return None


def gate_class(g):
    label = g[0]
    if label.startswith("RAW"):
        return "RAW"
    if label in ("SWAP", "IDEN"):
        return label
    return "param" if g[4] else "plain"


def make_sig(root, spec, gate=None, perm=False, query=None, flags=None, **extra):
    """Root-cause signature: computed from the CASE (class, application mode,
    kind of gate, structural facts of the history), never from the failure
    text or from data values."""
    s = {"root": root, "cls": spec["cls"], "contract": str(contract_of(spec))}
    if dict(spec.get("kw") or {}).get("tag_gate_numbers") is False:
        s["tag_gate_numbers"] = False
    if gate is not None:
        s["gclass"] = gate_class(gate)
        s["nq"] = len(gate[2])
        s["controlled"] = bool(gate[3])
        s["ncontrols"] = len(gate[3] or ())
        s["psi0_default"] = spec.get("psi0") is None
        s["perm_nontrivial"] = bool(perm)
    if query is not None:
        s["query"] = query
        s["psi0_default"] = spec.get("psi0") is None
        if flags is not None:
            s["fresh_copy"] = bool(flags["fresh_copy"])
            s["lexp_on_copy"] = bool(flags["lexp_on_copy"])
    s.update(extra)
    return s


def all_wires_touched(glist, N):
    """uni precondition: every qubit wire carries at least one gate tensor
    (circ.uni simply has no tensor - an implicit identity - on a wire no gate
    touched, so its dense form is only defined when all wires are touched).
    The special SWAP is a pure relabelling: it exchanges the wires."""
    touched = [False] * N
    for g in glist:
        label, qubits, controls = g[0], g[2], g[3]
        if label == "IDEN" and not controls:
            continue
        if label == "SWAP" and not controls:
            i, j = qubits
            touched[i], touched[j] = touched[j], touched[i]
            continue
        for q in tuple(qubits) + tuple(controls or ()):
            touched[q] = True
    return all(touched)


# --------------------------------------------------------------------------- #
#                           event alphabets of H                              #
# --------------------------------------------------------------------------- #

PVALS = (0.9, -1.7)
NAMED_VALS = ((0.5, -0.8), (1.3, 0.2))
EXPRS = ("a", "2*b", 0.25, "a+b")


def _expr_value(j, vals):
    a, b = vals
    return [a, 2 * b, 0.25, a + b][j % 4]


def init_prefix(spec):
    N = spec["N"]
    P = spec["cls"] == "Circuit"
    return [gdesc("H", (), (0,)), gdesc("RY", (0.4,), (1,), parametrize=P), gdesc("CNOT", (), (0, N - 1)), gdesc("U3", (0.3, 0.7, -0.4), (N - 1,), parametrize=P), gdesc("CZ", (), (1, N - 1))]


def gate_alphabet(spec):
    """representative gates (DESIGN C07 'Histories'); P = parametrize where the
    class documents parameter updates (tag_gate_numbers=True)"""
    N = spec["N"]
    P = spec["cls"] == "Circuit"
    lvl = spec.get("alpha", "q")
    if spec["cls"] in SU_CLASSES:
        edges = [tuple(e) for e in spec["edges"]]
        (a, b) = edges[0]
        (c, d) = edges[-1]
        nonedge = next(((i, j) for i in range(N) for j in range(N) if i != j and (i, j) not in edges and (j, i) not in edges), None)
        ga = [
            gdesc("H", (), (a,)),
            gdesc("X", (), (d,)),
            gdesc("RY", (0.4,), (b,)),
            gdesc("CNOT", (), (a, b)),
            gdesc("CNOT", (), (d, c)),
            gdesc("RAW2", (), (b, a)),
            gdesc("U3", (0.3, 0.7, -0.4), (c,)),
            gdesc("FSIM", (0.6, 0.9), (c, d)),
            # documented rejections
            gdesc("SWAP", (), (a, b)),
            gdesc("IDEN", (), (a,)),
            gdesc("X", (), (a,), controls=(b,)),
            gdesc("CCX", (), (0, 1, 2)),
        ]
        if nonedge:
            ga.append(gdesc("CZ", (), nonedge))
        return ga
    ga = [
        gdesc("H", (), (0,)),
        gdesc("X", (), (N - 1,)),
        gdesc("RY", (0.4,), (1,), parametrize=P),
        gdesc("CNOT", (), (0, N - 1)),
        gdesc("CNOT", (), (N - 1, 0)),
        gdesc("SWAP", (), (0, 1)),
        gdesc("SWAP", (), (0, N - 1)),
        gdesc("RAW2", (), (1, 0)),
        gdesc("X", (), (1,), controls=(0,)),
        gdesc("CCX", (), (0, 1, 2)),
    ]
    if lvl != "q":
        ga += [
            gdesc("IDEN", (), (1,)),
            gdesc("U3", (0.3, 0.7, -0.4), (N - 1,), parametrize=P),
            gdesc("RZZ", (0.8,), (1, N - 1), parametrize=P),
            gdesc("X", (), (N - 1,), controls=(1, 0)),
            gdesc("CSWAP", (), (N - 1, 0, 1)),
            gdesc("RAW1", (), (N - 1,)),
        ]
    return ga


def query_alphabet(spec):
    N = spec["N"]
    cls = spec["cls"]
    lvl = spec.get("alpha", "q")
    if cls == "CircuitPEPOSimpleUpdate":
        edges = [tuple(e) for e in spec["edges"]]
        qs = [("lexp", (0,), "int"), ("lexp", (N - 1,), None), ("lexp", edges[0][::-1], None), ("evolved_op", (1,)), ("evolved_op", edges[-1])]
        qs += [("dense", False), ("sample", 2, 1, None)]  # unsupported: must raise and leave state alone
        return qs
    if cls == "CircuitPEPSSimpleUpdate":
        edges = [tuple(e) for e in spec["edges"]]
        qs = [("dense", False), ("psi",), ("get_state", False), ("get_state", "return")]
        if spec.get("tree", True):
            qs += [("lexp", (0,), "int"), ("lexp", (N - 1,), None), ("lexp", edges[0][::-1], None), ("lexp", edges[-1], None)]
        qs += [("amp", "1" * N), ("sample", 2, 1, None)]  # unsupported
        return qs
    qs = [
        ("dense", False),
        ("amp", "1" + "0" * (N - 2) + "1"),
        ("ptr", (0,)),
        ("ptr", (N - 1, 1)),
        ("lexp", (1,), None),
        ("lexp", (0, N - 1), None),
        ("lexp", (N - 1, 1), None),
        ("marg", (0,), None),
        ("marg", (1, N - 1), None),
        ("sample", 3, 1, None),
        ("sample_chaotic", 2, N, 3),
    ]
    if cls in MPS_CLASSES:
        qs += [("lexp", (0,), "dtype"), ("mps_sample", 3, 2)]
    if cls in EXACT_CLASSES:
        qs += [("sample_gbg", 2, 2, 10), ("uni",), ("get_params",)]
        # two different measurement orders one after the other: the cached
        # conditionals of the first must not be reused with another meaning
        fwd = tuple(range(N))
        qs += [("sample", 3, 2, (("order", fwd), ("group_size", 1))), ("sample", 3, 3, (("order", fwd[::-1]), ("group_size", 1)))]
    if lvl != "q":
        qs += [
            ("dense", True),
            ("amp_all",),
            ("ptr", (1,), "int"),
            ("ptr", (0, N - 1)),
            ("ptr", (1, N - 1)),
            ("lexp", (1, N - 1), None),
            ("lexp", (N - 1,), "int"),
            ("lexp", (1, 0), "tuple") if cls in EXACT_CLASSES else ("lexp", (1, 0), "normalized"),
            ("marg", (N - 1,), ((0, "0"),)),
            ("marg", (N - 1, 0), None),
            ("sample", 2, 5, ("qubits", (N - 1, 0))) if cls in EXACT_CLASSES else ("sample", 2, 5, None),
            ("sample_chaotic", 2, (1, N - 1), 4),
            ("counts", 4, 3),
            ("psi",),
        ]
        qs += [("sample_chaotic", 2, (1,), 6)]
        if cls in EXACT_CLASSES:
            qs += [
                ("sample", 2, 8, (("qubits", (0, 1)), ("order", (0, 1)), ("group_size", 1))),
                ("sample", 2, 9, (("qubits", (1, N - 1)), ("order", (N - 1, 1)), ("group_size", 1))),
                ("sample", 2, 10, (("order", (1, 0) + tuple(range(2, N))), ("group_size", 2))),
                ("sample_gbg", 2, 4, 2),
            ]
            qs += [("sample", 2, 7, ("group_size", 1)), ("sample_gbg", 2, 3, 1), ("psi_simplified", "ADCRS"), ("rdm_lc", (N - 1, 0)), ("rdm_lc", (1,))]
        if cls in MPS_CLASSES:
            qs += [("fidelity",), ("lexp", (N - 1, 0), "dtype")]
    return qs


QUERY_KINDS = {"dense", "amp", "amp_all", "ptr", "lexp", "marg", "sample", "sample_chaotic", "sample_gbg", "counts", "psi_simplified", "rdm_lc", "psi", "uni", "get_params", "fidelity", "mps_sample", "evolved_op", "get_state"}
MUT_KINDS = {"gate", "set_params", "update_from", "register_named", "set_named"}
# queries that a class documents as unavailable: they must raise
# NotImplementedError (or not exist) and leave the object alone
UNSUPPORTED = {
    "CircuitDense": {"uni"},
    "CircuitMPS": {"uni"},
    "CircuitPermMPS": {"uni"},
    "CircuitMPSLazy": {"uni"},
    "CircuitPEPSSimpleUpdate": {"amp", "sample", "uni", "ptr", "marg", "sample_chaotic"},
    "CircuitPEPOSimpleUpdate": {"amp", "sample", "uni", "ptr", "marg", "sample_chaotic", "dense", "psi"},
}


class C07Case(seq.Case):
    rejections = ()  # every exception is classified in ``unexpected``
    step_timeout = 240

    def __init__(self, spec):
        super().__init__(spec)
        self.gates = gate_alphabet(spec)
        self.queries = query_alphabet(spec)
        self.max_mut = int(spec.get("max_mut", 3))
        self.max_q = int(spec.get("max_q", 2))

    # ------------------------------------------------------------------ #
    def build(self):
        w = W(self.spec)
        if self.spec.get("init") == "prefix":
            # a fixed non-empty start: parametrised gates exist from the first
            # event on, every qubit is touched, the MPS centre is in the bulk
            for g in init_prefix(self.spec):
                q_apply_gate(w.circ, g)
                w.glist.append([g[0], list(g[1]), g[2], g[3], g[4]])
        w.nmut = 0
        w.nq_since = 0
        return w

    def menu(self, w):
        ev = []
        cls = w.cls
        if w.nmut < self.max_mut:
            ev += [("gate",) + g for g in self.gates]
            if cls == "Circuit":
                nparam = sum(1 for g in w.glist if g[4])
                if nparam:
                    managed = set(w.named["exprs"]) if w.named else set()
                    if nparam > len(managed):
                        ev.append(("set_params", 0))
                        if self.spec.get("alpha", "q") != "q":
                            ev.append(("set_params", 1))
                    if not w.named:
                        ev.append(("update_from", 1))
                        ev.append(("register_named", 0))
                    else:
                        ev.append(("set_named", 1))
            if cls == "CircuitPEPSSimpleUpdate":
                ev.append(("equilibrate",))
        if w.orig is None:
            ev.append(("copy",))
        else:
            ev.append(("switch",))
        if w.nq_since < self.max_q:
            ev += [q for q in self.queries if q[0] != "uni" or cls != "Circuit" or all_wires_touched(w.glist, w.N)]
        return ev

    # ------------------------------------------------------------------ #
    def pre(self, w, e):
        # what a rejected call must leave unchanged
        w._perm_pre = w.perm_nontrivial()
        w._pre = {"glist": [list(g) for g in w.glist], "named": None if w.named is None else {"vals": dict(w.named["vals"]), "exprs": dict(w.named["exprs"])}, "flags": dict(w.flags)}
        return None

    def apply(self, w, e):
        k = e[0]
        c = w.circ
        if k == "gate":
            g = e[1:]
            q_apply_gate(c, g)
            w.glist.append([g[0], list(g[1]), g[2], g[3], g[4]])
            self._mutated(w)
            return None
        if k == "set_params":
            managed = set(w.named["exprs"]) if w.named else set()
            new = {}
            for i, g in enumerate(w.glist):
                if g[4] and i not in managed:
                    new[i] = [PVALS[e[1]] + 0.1 * j + 0.05 * i for j in range(len(g[1]))]
            c.set_params({i: np.array(v) for i, v in new.items()})
            for i, v in new.items():
                w.glist[i][1] = v
            self._mutated(w)
            return None
        if k == "update_from":
            tn = c.psi
            new = {}
            for i, g in enumerate(w.glist):
                if g[4]:
                    new[i] = [PVALS[e[1]] - 0.2 * j + 0.03 * i for j in range(len(g[1]))]
                    tn[c.gate_tag(i)].params = np.array(new[i])
            c.update_params_from(tn)
            for i, v in new.items():
                w.glist[i][1] = v
            self._mutated(w)
            return None
        if k == "register_named":
            vals = NAMED_VALS[e[1]]
            exprs = {}
            j = 0
            for i, g in enumerate(w.glist):
                if g[4]:
                    exprs[i] = tuple(range(j, j + len(g[1])))
                    j += len(g[1])
            # leave the LAST parametrised gate unmanaged when there are >= 2
            if len(exprs) >= 2:
                exprs.pop(max(exprs))
            c.register_named_params({"a": vals[0], "b": vals[1]}, {i: tuple(EXPRS[x % 4] for x in ex) for i, ex in exprs.items()})
            w.named = {"vals": {"a": vals[0], "b": vals[1]}, "exprs": exprs}
            for i, ex in exprs.items():
                w.glist[i][1] = [_expr_value(x, vals) for x in ex]
            self._mutated(w)
            return None
        if k == "set_named":
            vals = NAMED_VALS[e[1]]
            c.set_params({"a": vals[0], "b": vals[1]})
            w.named["vals"] = {"a": vals[0], "b": vals[1]}
            for i, ex in w.named["exprs"].items():
                w.glist[i][1] = [_expr_value(x, vals) for x in ex]
            self._mutated(w)
            return None
        if k == "equilibrate":
            c.equilibrate()
            return None
        if k == "copy":
            new = c.copy()
            # BOTH circuits stay alive: the focus moves to the copy, the other
            # one keeps its own record (gates, named parameters)
            w.orig = [c, [list(g) for g in w.glist], None if w.named is None else {"vals": dict(w.named["vals"]), "exprs": dict(w.named["exprs"])}]
            w.circ = new
            w.flags["fresh_copy"] = True
            return None
        if k == "switch":
            # address the following events to the OTHER of the two circuits
            oc, og, on = w.orig
            w.orig = [w.circ, w.glist, w.named]
            w.circ, w.glist, w.named = oc, og, on
            w.flags["fresh_copy"] = False
            w.nq_since = 0
            return None
        # queries
        if k == "lexp" and (e[2] == "dtype" or dict(self.spec.get("kw") or {}).get("convert_eager") is False) and w.cls in MPS_CLASSES:
            w._lexp_copy_now = True
        res = run_query(w, e)
        w.nq_since += 1
        w.flags["queried"] = True
        if getattr(w, "_lexp_copy_now", False):
            w.flags["lexp_on_copy"] = True
            w._lexp_copy_now = False
        return res

    def _mutated(self, w):
        w.nmut += 1
        w.nq_since = 0
        w.flags["fresh_copy"] = False
        w.flags["queried_before_last_mut"] = w.flags["queried"]

    # ------------------------------------------------------------------ #
    def _sig(self, w, e, root, **extra):
        perm = extra.pop("perm_pre", None)
        if e[0] == "gate":
            return make_sig(root, self.spec, gate=e[1:], perm=w.perm_nontrivial() if perm is None else perm, event="gate", **extra)
        if e[0] in QUERY_KINDS:
            if e[0] == "sample_gbg":
                # structural fact: the first group of the gate-by-gate
                # partition can be EMPTY (no gates at all, or a gate wider
                # than group_size comes first)
                extra["gbg_empty_group_possible"] = (not w.glist) or any(len(g[2]) > e[3] for g in w.glist)
            return make_sig(root, self.spec, query=e[0], flags=w.flags, event="query", has_controlled=any(g[3] for g in w.glist), **extra)
        # structural fact: a gate without a GATE_i tagged tensor exists (the
        # reindexing specials SWAP / IDEN) or a raw gate (no label tag)
        untagged = any((g[0] in ("SWAP", "IDEN") and not g[3]) or g[0].startswith("RAW") for g in w.glist)
        return make_sig(root, self.spec, event=e[0], has_untagged_gate=untagged, **extra)

    def check(self, w, e, obs, pre):
        # stash the canonical key BEFORE the destructive read-outs below
        w.key = world_key(w)
        probs = []
        if e[0] == "init":
            m = cheap_state_check(w)
            if m:
                probs.append(core.problem("initial state: " + m, root="wrong-initial-state", cls=w.cls))
            return probs
        if e[0] in QUERY_KINDS:
            msg, _ = obs
            if msg:
                probs.append(core.problem("%s after %d gates: %s" % (spec_name(self.spec), len(w.glist), msg), **self._sig(w, e, "query-disagrees-with-state")))
        else:
            # mutators, copy, switch, equilibrate: gate record + state through
            # the cheapest exact read-out (the world is discarded afterwards)
            m = record_check(w)
            if m:
                probs.append(core.problem("%s: %s" % (spec_name(self.spec), m), **self._sig(w, e, "gate-record-wrong")))
            try:
                m = cheap_state_check(w, what="after %s" % (e[0],))
            except Exception as ex:  # reading the state crashed
                m = "reading the state after %r raised %s: %s" % (e[:2], type(ex).__name__, str(ex)[:120])
            if m:
                probs.append(core.problem("%s: %s" % (spec_name(self.spec), m), **self._sig(w, e, "wrong-state-after-" + ("gate" if e[0] == "gate" else e[0]), perm_pre=getattr(w, "_perm_pre", w.perm_nontrivial()))))
        if w.orig is not None and not probs:
            # the OTHER circuit of a copy() pair must not have noticed: after
            # EVERY event (queries too - they move canonical centres and fill
            # caches) its record, its state and its record-dependent routes
            # are compared with ITS OWN reference
            oc, og = w.orig[0], w.orig[1]
            try:
                what = "the OTHER circuit of the copy() pair after %s on this one" % (e[0],)
                opsi = w.ref(og)
                m = record_check(w, circ=oc, glist=og)
                m = m and what + ": " + m
                m = m or cheap_state_check(w, circ=oc, glist=og, what=what)
                if m is None and w.cls not in SU_CLASSES and not w.flags["lexp_on_copy"]:
                    # light-cone / canonical-centre routes (not after a
                    # local_expectation on a converted copy: the centre record
                    # is then already stale - that is the finding reported
                    # where the QUERY is wrong)
                    qs = [("lexp", (w.N - 1, 0), None)]
                    if w.cls in MPS_CLASSES:
                        # one-site expectations trust the recorded centre most
                        qs = [("lexp", (q,), None) for q in (1, 0, w.N - 1)] + [("fidelity",)] + qs
                    for q in qs:
                        m, _ = run_query(w, q, circ=oc, psi=opsi)
                        if m:
                            m = what + ": " + m
                            break
            except Exception as ex:
                m = "reading the other circuit after %r raised %s: %s" % (e[:2], type(ex).__name__, str(ex)[:120])
            if m:
                probs.append(core.problem("%s: %s" % (spec_name(self.spec), m), **self._sig(w, e, "copy-not-independent")))
        return probs

    def canon(self, w):
        return w.key if w.key is not None else world_key(w)

    # ------------------------------------------------------------------ #
    def unexpected(self, w, e, exc):
        """Every exception ends here.  Gates and parameter updates may be
        rejected with any exception type (property: 'either rejects a gate it
        does not support or ...') but the rejection must leave the object
        alone.  Queries may only refuse with NotImplementedError when the
        class documents them as unavailable; any other exception from a query
        is a violation."""
        pre = w._pre
        k = e[0]
        if isinstance(exc, (np.linalg.LinAlgError, MemoryError)):
            return [core.problem("%s: %r raised %s: %s" % (spec_name(self.spec), e, type(exc).__name__, str(exc)[:160]), **self._sig(w, e, "numerical-failure"))]
        # restore the harness record (apply() may have been interrupted)
        w.glist = [list(g) for g in pre["glist"]]
        w.named = pre["named"]
        flags = dict(pre["flags"])
        perm_pre = None
        if k in QUERY_KINDS:
            unsupported = k in UNSUPPORTED.get(w.cls, ())
            refused = unsupported and isinstance(exc, (NotImplementedError, AttributeError))
            # get_uni strips the N initial-state tensors and needs each of them
            # to carry exactly one index: a non-product psi0 is refused
            refused = refused or (k == "uni" and self.spec.get("psi0") == "ent" and isinstance(exc, ValueError))
            if not refused:
                w.flags = flags
                return [core.problem("%s after %d gates: query %r raised %s: %s" % (spec_name(self.spec), len(w.glist), e, type(exc).__name__, str(exc)[:160]), **self._sig(w, e, "query-crash", exc=type(exc).__name__))]
        w.flags = flags
        # state must be unchanged by the refused call
        probs = []
        m = record_check(w)
        if m is None:
            try:
                m = cheap_state_check(w, what="after rejected %s" % (k,))
            except Exception as ex2:
                m = "reading the state after the rejected call raised %s: %s" % (type(ex2).__name__, str(ex2)[:120])
        if m is None and w.cls in MPS_CLASSES:
            # the canonical-centre record must still describe the tensors
            try:
                m, _ = run_query(w, ("lexp", (w.N - 1,), None))
            except Exception as ex2:
                m = "local_expectation after the rejected call raised %s: %s" % (type(ex2).__name__, str(ex2)[:120])
        if m:
            probs.append(core.problem("%s: %r was rejected with %s (%s) but corrupted the state: %s" % (spec_name(self.spec), e[:5], type(exc).__name__, str(exc)[:80], m), **self._sig(w, e, "rejected-call-corrupts-state", perm_pre=getattr(w, "_perm_pre", None))))
        return probs

    def nontrivial(self, w, e, obs):
        return len(w.glist) >= 1

    def outcome(self, w, e, obs):
        if e[0] in QUERY_KINDS:
            return "q:" + obs[1]
        if e[0] == "gate":
            return "gate:%s%s" % ("RAW" if e[1].startswith("RAW") else e[1], ":c%d" % len(e[4]) if e[4] else "")
        return e[0]


def make_case(spec):
    return C07Case(spec)


# --------------------------------------------------------------------------- #
#                         G: gate matrices / MPO / spellings                  #
# --------------------------------------------------------------------------- #


def g_cell(cell, common):
    """One label: unitarity + textbook equality on its parameter grid,
    parametrize=True array, build_mpo for every ordered placement with 0/1/2
    controls on N=4, spellings of apply_gate."""
    import quimb.tensor as qtn
    from quimb.tensor.circuit import gates as QG

    label = cell["label"]
    part = cell["part"]
    out = []
    if part == "rawgate":
        # the Gate object of a raw gate supports the same object protocol
        k = int(label[3:])
        U = raw_matrix(label)
        g = QG.Gate.from_raw(U, tuple(range(k))[::-1])
        for what, fn in (("copy()", lambda: g.copy()), ("copy_with(qubits=...)", lambda: g.copy_with(qubits=tuple(range(k))))):
            try:
                h = fn()
                okk = np.allclose(np.asarray(h.array), U) and len(h.qubits) == k and not h.controls
            except Exception as ex:
                return table.bad(core.problem("Gate.from_raw(U, ...).%s raised %s: %s" % (what, type(ex).__name__, str(ex)[:100]), root="raw-gate-object", entry=what.split("(")[0]), sub=part)
            if not okk:
                return table.bad(core.problem("Gate.from_raw(U, ...).%s lost the array / qubits" % what, root="raw-gate-object", entry=what.split("(")[0]), sub=part)
        return table.ok(key=("rawgate", label), nontrivial=True, outcome="rawgate", evals=2, sub=part)
    nq, npar, _ = tb.TEXTBOOK[label]
    if part == "shared":
        # ONE parametrised Gate object applied to two circuits: updating the
        # parameters of one circuit must not change the other ('queries depend
        # only on the gates applied and parameters set so far' - of THAT circuit)
        N = 3
        p = default_params(label)
        p2 = tuple(x + 0.9 for x in p)
        qubits = tuple(range(nq))[::-1] if nq > 1 else (1,)
        psi_old = tb.apply(psi0_vector(None, N), tb.textbook(label, p), qubits, N)
        psi_new = tb.apply(psi0_vector(None, N), tb.textbook(label, p2), qubits, N)
        n = 0
        for how in ("apply_gate(Gate)", "from_gates(circ.gates)"):
            for upd in ("set_params", "update_params_from"):
                try:
                    c1 = qtn.Circuit(N)
                    if how == "apply_gate(Gate)":
                        gobj = QG.Gate(label, list(p), qubits=qubits, parametrize=True)
                        c1.apply_gate(gobj)
                        c2 = qtn.Circuit(N)
                        c2.apply_gate(gobj)
                    else:
                        c1.apply_gate(label, *p, *qubits, parametrize=True)
                        c2 = qtn.Circuit.from_gates(c1.gates, N=N)
                    if upd == "set_params":
                        c1.set_params({0: np.array(p2)})
                    else:
                        tn = c1.psi
                        tn[c1.gate_tag(0)].params = np.array(p2)
                        c1.update_params_from(tn)
                    m = _cmp("updated circuit to_dense", _vec(c1.to_dense()), psi_new, TOL)
                    m2 = _cmp("OTHER circuit to_dense", _vec(c2.to_dense()), psi_old, TOL)
                    gp = np.asarray(c2.get_params()[0], dtype=float).reshape(-1)
                    m3 = None if np.allclose(gp, p) else "OTHER circuit get_params() = %r, its gates were applied with %r" % (gp.tolist(), list(p))
                except Exception as ex:
                    return table.bad(core.problem("%s shared via %s, %s raised %s: %s" % (label, how, upd, type(ex).__name__, str(ex)[:100]), root="shared-gate-object-crash", entry=upd), sub=part)
                if m:
                    return table.bad(core.problem("%s via %s, %s: %s" % (label, how, upd, m), root="parameter-update-wrong", entry=upd), sub=part)
                if m2 or m3:
                    return table.bad(core.problem("one parametrised Gate(%s) object applied to two circuits (%s); %s on the first changed the second: %s" % (label, how, upd, m2 or m3), root="shared-parametrized-gate-object", entry=upd), sub=part)
                n += 1
        return table.ok(key=("shared", label), nontrivial=True, outcome="shared-gate-object", evals=n, sub=part)
    if QG.GATE_SIZE[label] != nq:
        return table.bad(core.problem("GATE_SIZE[%s]=%d, textbook %d" % (label, QG.GATE_SIZE[label], nq), root="gate-size", gate=label))
    if part == "matrix":
        pts, full = tb.param_points(label)
        worst_u = worst_t = 0.0
        for p in pts:
            g = QG.Gate(label, list(p), qubits=tuple(range(nq)))
            A = np.asarray(g.array, dtype=complex).reshape(2**nq, 2**nq)
            worst_u = max(worst_u, float(np.max(np.abs(A.conj().T @ A - np.eye(2**nq)))))
            worst_t = max(worst_t, float(np.max(np.abs(A - tb.textbook(label, p)))))
            if worst_u > 1e-10 or worst_t > 1e-10:
                return table.bad(core.problem("Gate(%s, %r).array: unitarity defect %.2e, distance to textbook matrix %.2e" % (label, p, worst_u, worst_t), root="gate-matrix", gate=label), sub=part)
        if npar:
            p = default_params(label)
            g = QG.Gate(label, list(p), qubits=tuple(range(nq)), parametrize=True)
            A = np.asarray(g.array.data, dtype=complex).reshape(2**nq, 2**nq)
            if np.max(np.abs(A - tb.textbook(label, p))) > 1e-10:
                return table.bad(core.problem("Gate(%s, parametrize=True).array.data differs from textbook" % label, root="gate-matrix-parametrized", gate=label), sub=part)
        return table.ok(key=("matrix", label), nontrivial=True, outcome="matrix:%dq:%dp:%s" % (nq, npar, "full" if full else "star"), evals=len(pts), sub=part)
    if part == "mpo":
        N = 4
        p = default_params(label)
        M = tb.textbook(label, p)
        n = 0
        for qubits in itertools.permutations(range(N), nq):
            rest = [q for q in range(N) if q not in qubits]
            ctrl_sets = [()] + [c for k in (1, 2) for c in itertools.permutations(rest, k)]
            for controls in ctrl_sets:
                g = QG.Gate(label, list(p), qubits=qubits, controls=controls or None)
                try:
                    mpo = g.build_mpo(N)
                    got = np.asarray(mpo.to_dense())
                except Exception as ex:
                    return table.bad(core.problem("Gate(%s, qubits=%r, controls=%r).build_mpo(%d) raised %s: %s" % (label, qubits, controls, N, type(ex).__name__, str(ex)[:100]), root="build-mpo-crash", gate=label, controls=len(controls)), sub=part)
                Mc = tb.controlled(M, len(controls)) if controls else M
                exp = tb.full_matrix(Mc, tuple(controls) + tuple(qubits), N)
                # the sub-MPO only spans the sites it touches; to_dense of it
                # is the operator on those sites in increasing site order
                sites = sorted(tuple(controls) + tuple(qubits))
                if got.shape != exp.shape:
                    sub = tb.full_matrix(Mc, [sites.index(q) for q in tuple(controls) + tuple(qubits)], len(sites))
                    exp = sub
                if got.shape != exp.shape or np.max(np.abs(got - exp)) > 1e-9:
                    return table.bad(core.problem("Gate(%s, qubits=%r, controls=%r).build_mpo().to_dense() differs from the embedded matrix (shape %r vs %r)" % (label, qubits, controls, got.shape, exp.shape), root="build-mpo-wrong", gate=label, controls=len(controls)), sub=part)
                n += 1
        return table.ok(key=("mpo", label), nontrivial=True, outcome="mpo:%dq" % nq, evals=n, sub=part)
    if part == "spelling":
        N = 3
        p = default_params(label)
        qubits = tuple(range(nq))[::-1] if nq > 1 else (1,)
        psi = tb.apply(psi0_vector("ent", N), tb.textbook(label, p), qubits, N)
        n = 0
        spellings = ["args", "kwargs", "object", "gates", "lower", "round", "method"]
        for sp in spellings:
            c = qtn.Circuit(psi0=make_psi0("ent", N, "Circuit"))
            if sp == "method" and not hasattr(c, METHOD_NAME.get(label, label.lower())):
                continue  # aliases (FS, IS) have no convenience method
            try:
                q_apply_gate(c, gdesc(label, p, qubits), spelling=sp)
                got = _vec(c.to_dense())
                if sp == "method" and label == "IDEN" and not c.gates:
                    # circ.iden() is a documented no-op that records nothing
                    if _cmp("to_dense", got, psi, TOL):
                        raise AssertionError("iden() changed the state")
                    n += 1
                    continue
                g = c.gates[0]
            except Exception as ex:
                return table.bad(core.problem("spelling %s of %s raised %s: %s" % (sp, label, type(ex).__name__, str(ex)[:120]), root="spelling-crash", gate=label, spelling=sp), sub=part)
            okrec = g.label == label and tuple(g.qubits) == qubits and not g.controls and (g.round == (7 if sp == "round" else None))
            gp = np.asarray(g.params, dtype=float).reshape(-1)
            okrec = okrec and gp.size == len(p) and (not gp.size or np.max(np.abs(gp - np.asarray(p))) < 1e-14)
            m = _cmp("to_dense", got, psi, TOL)
            if not okrec or m:
                return table.bad(core.problem("spelling %s of %s: record %r / %s" % (sp, label, g, m), root="spelling-wrong", gate=label, spelling=sp), sub=part)
            n += 1
        return table.ok(key=("spelling", label), nontrivial=True, outcome="spelling", evals=n, sub=part)
    raise KeyError(part)


# --------------------------------------------------------------------------- #
#                            T: application table                             #
# --------------------------------------------------------------------------- #

PREFIX = {
    # a fixed entangling prefix (every qubit touched, non-trivial permutation
    # on the permutation tracking simulator, centre away from the ends)
    "chain": lambda N: [gdesc("H", (), (0,)), gdesc("RY", (0.7,), (1,)), gdesc("CNOT", (), (0, N - 1)), gdesc("RAW2", (), (N - 1, 1)), gdesc("U3", (0.3, 0.7, -0.4), (0,))],
}


def su_prefix(spec):
    edges = [tuple(e) for e in spec["edges"]]
    out = [gdesc("H", (), (0,)), gdesc("RY", (0.7,), (1,))]
    for a, b in edges:
        out.append(gdesc("RAW2", (), (b, a)))
    out.append(gdesc("U3", (0.3, 0.7, -0.4), (0,)))
    return out


def battery(spec):
    """queries asked after the single gate of a table cell"""
    N = spec["N"]
    cls = spec["cls"]
    if cls == "CircuitPEPOSimpleUpdate":
        return []  # cheap_state_check already asks every supported expectation
    if cls == "CircuitPEPSSimpleUpdate":
        if not spec.get("tree", True):
            return []
        edges = [tuple(e) for e in spec["edges"]]
        return [("lexp", (q,), None) for q in range(N)] + [("lexp", edges[0][::-1], None)]
    qs = [("amp", "1" + "0" * (N - 2) + "1"), ("ptr", (N - 1, 0)), ("ptr", (0, N - 1)), ("ptr", (1,))]
    qs += [("marg", (1, N - 1), None), ("marg", (0,), ((N - 1, "0"),)), ("sample", 2, 3, None)]
    if cls == "Circuit":
        qs += [("uni",)] if spec.get("psi0") is None else []
    if cls in MPS_CLASSES:
        qs += [("mps_sample", 2, 3), ("fidelity",)]
    # local expectations last: on the MPS classes they move the canonical
    # centre (a later query must not notice)
    qs += [("lexp", (q,), None) for q in range(N)]
    qs += [("lexp", (N - 1, 0), None), ("lexp", (0, N - 1), None), ("lexp", (0, 1), None)]
    if cls in MPS_CLASSES:
        qs += [("fidelity",), ("amp", "0" * N)]
    if cls in EXACT_CLASSES:
        fwd = tuple(range(N))
        qs += [("sample", 2, 4, (("order", fwd), ("group_size", 1))), ("sample", 2, 5, (("order", fwd[::-1]), ("group_size", 1)))]
        qs += [("sample_gbg", 2, 3, 10)]
    return qs


def t_cell(cell, common):
    """apply ONE gate on a simulator in a prior state, then read everything"""
    spec = cell["spec"]
    g = core.tuplify(cell["gate"])
    prior = cell["prior"]
    try:
        w = W(spec)
    except Exception as ex:
        raise core.HarnessError("cannot build %r: %s" % (spec, ex))
    pre_gates = []
    if prior == "prefix":
        pre_gates = su_prefix(spec) if spec["cls"] in SU_CLASSES else PREFIX["chain"](spec["N"])
    for pg in pre_gates:
        try:
            q_apply_gate(w.circ, pg)
        except Exception as ex:
            # this configuration cannot even hold the prefix (its rejection is
            # judged by the prior='zero' cells of the same gate)
            return table.rejected("prefix-unavailable:%s:%s:%s:%s" % (spec["cls"], contract_of(spec), pg[0], type(ex).__name__))
        w.glist.append([pg[0], list(pg[1]), pg[2], pg[3], pg[4]])
    label = "RAW" if g[0].startswith("RAW") else g[0]
    perm = w.perm_nontrivial()

    def sig(root, **extra):
        return make_sig(root, spec, gate=g, perm=perm, event="gate", **extra)

    name = "%s prior=%s gate=%r" % (spec_name(spec), prior, g[:5])
    adjacent = len(g[2]) < 2 or (max(g[2] + (g[3] or ())) - min(g[2] + (g[3] or ())) == len(g[2] + (g[3] or ())) - 1)
    key = (spec_name(spec), prior, g[:5])
    try:
        q_apply_gate(w.circ, g)
    except Exception as ex:
        if isinstance(ex, np.linalg.LinAlgError):
            return table.bad(core.problem("%s raised %s" % (name, type(ex).__name__), **sig("numerical-failure")))
        # rejected: nothing may have changed
        m = record_check(w)
        if m is None:
            try:
                m = cheap_state_check(w, what="after rejected gate")
            except Exception as ex2:
                m = "reading the state after the rejected gate raised %s: %s" % (type(ex2).__name__, str(ex2)[:120])
        if m is None and spec["cls"] in MPS_CLASSES:
            try:
                m, _ = run_query(w, ("lexp", (spec["N"] - 1,), None))
            except Exception as ex2:
                m = "local_expectation after the rejected gate raised %s" % type(ex2).__name__
        if m:
            return table.bad(core.problem("%s was rejected with %s (%s) but corrupted the state: %s" % (name, type(ex).__name__, str(ex)[:80], m), **sig("rejected-call-corrupts-state")))
        return table.rejected("%s:%s:%s:%dq:c%d:%s" % (spec["cls"], contract_of(spec), "special" if label in ("SWAP", "IDEN") else ("param" if g[4] else "plain"), len(g[2]), len(g[3] or ()), type(ex).__name__))
    w.glist.append([g[0], list(g[1]), g[2], g[3], g[4]])
    probs = []
    m = record_check(w, strict_perm=True)
    if m:
        probs.append(core.problem("%s: %s" % (name, m), **sig("gate-record-wrong")))
    # queries BEFORE to_dense: the light-cone routes must not profit from a
    # cached simplified state
    psi = w.ref()
    on_copy = spec["cls"] in MPS_CLASSES and dict(spec.get("kw") or {}).get("convert_eager") is False
    n_lexp = 0
    for q in battery(spec):
        if q[0] == "uni" and not all_wires_touched(w.glist, w.N):
            continue
        # structural fact for the root cause: an earlier local_expectation ran
        # on a converted COPY of the MPS (convert_eager=False / dtype=...)
        after_lexp_on_copy = bool(on_copy and n_lexp)
        n_lexp += q[0] == "lexp"
        try:
            m, _ = run_query(w, q, psi=psi)
        except Exception as ex:
            if q[0] in UNSUPPORTED.get(spec["cls"], ()) and isinstance(ex, NotImplementedError):
                continue
            probs.append(core.problem("%s: query %r raised %s: %s" % (name, q, type(ex).__name__, str(ex)[:120]), **sig("query-crash", query=q[0], lexp_on_copy=after_lexp_on_copy, exc=type(ex).__name__, has_controlled=any(x[3] for x in w.glist))))
            if q[0] not in ("sample_gbg",):
                break  # the object may be broken: later answers mean nothing
            continue
        if m:
            # keep asking: one wrong route must not hide another one
            probs.append(core.problem("%s: %s" % (name, m), **sig("query-disagrees-with-state", query=q[0], lexp_on_copy=after_lexp_on_copy, has_controlled=any(x[3] for x in w.glist))))
    if not [p for p in probs if p["sig"]["root"] == "query-crash" and p["sig"]["query"] != "sample_gbg"]:
        try:
            m = cheap_state_check(w, what="after gate")
        except Exception as ex:
            m = "reading the state raised %s: %s" % (type(ex).__name__, str(ex)[:120])
        if m:
            probs.append(core.problem("%s: %s" % (name, m), **sig("wrong-state-after-gate")))
    if probs:
        # one problem per distinct signature
        uniq = {}
        for p in probs:
            uniq.setdefault(core.sig_key(p["sig"]), p)
        return table.bad(list(uniq.values()))
    return table.ok(key=key, nontrivial=True, outcome="%s:%s:%dq:c%d:%s" % (spec["cls"], "special" if label in ("SWAP", "IDEN") else ("param" if g[4] else "plain"), len(g[2]), len(g[3] or ()), "adj" if adjacent else "far"))


# --------------------------------------------------------------------------- #
#                                enumeration                                  #
# --------------------------------------------------------------------------- #


def sim_specs(N, tier):
    """simulator classes x their gate-application options"""
    chain = [(i, i + 1) for i in range(N - 1)]
    star = [(0, i) for i in range(1, N)]
    ring = chain + [(0, N - 1)]
    S = []

    def add(cls, kw=None, **more):
        d = {"cls": cls, "N": N, "kw": dict(kw or {})}
        d.update(more)
        S.append(d)

    add("Circuit")
    add("Circuit", {"gate_contract": "split-gate"})
    add("Circuit", {"gate_contract": "swap-split-gate"})
    add("Circuit", {"gate_contract": False})
    add("Circuit", {"tag_gate_numbers": False})
    add("Circuit", psi0="bits:%s" % ("101" + "1" * (N - 3)))
    add("Circuit", psi0="ent")
    add("CircuitDense")
    add("CircuitDense", psi0="ent")
    add("CircuitMPS")
    add("CircuitMPS", {"gate_contract": "swap+split"})
    add("CircuitMPS", {"gate_contract": "nonlocal"})
    add("CircuitMPS", {"convert_eager": False})
    add("CircuitMPS", psi0="ent")
    add("CircuitPermMPS")
    add("CircuitPermMPS", {"gate_contract": "auto-mps"})
    add("CircuitPermMPS", {"gate_contract": "nonlocal"})
    for method in ("dm", "direct"):
        for ce in (1, 2):
            add("CircuitMPSLazy", {"method": method, "compress_every": ce})
    if tier != "quick":
        add("CircuitMPSLazy", {"method": "zipup", "compress_every": 2})
        add("CircuitMPSLazy", {"method": "dm", "compress_every": 3})
        # a bond cap that cannot truncate (2**N is an upper bound of every
        # Schmidt / operator-Schmidt rank here)
        add("CircuitMPS", {"max_bond": 2**N})
        add("CircuitPEPSSimpleUpdate", {"max_bond": 2**N}, edges=chain, tree=True)
        add("CircuitPEPOSimpleUpdate", {"max_bond": 4**N}, edges=chain)
    add("CircuitPEPSSimpleUpdate", edges=chain, tree=True)
    add("CircuitPEPSSimpleUpdate", edges=star, tree=True)
    add("CircuitPEPSSimpleUpdate", edges=ring, tree=False)
    add("CircuitPEPOSimpleUpdate", edges=chain)
    add("CircuitPEPOSimpleUpdate", edges=ring)
    return S


def placements(N, nq, ncontrol, full):
    """ordered placements of the target qubits and ordered control tuples"""
    out = []
    for qubits in itertools.permutations(range(N), nq):
        rest = [q for q in range(N) if q not in qubits]
        for controls in itertools.permutations(rest, ncontrol):
            out.append((qubits, controls))
    if full:
        return out
    # reduced: ascending-adjacent, descending-far, and one mixed placement
    keep = []
    want = [tuple(range(nq)), tuple(range(N - 1, N - 1 - nq, -1)) if nq == 1 else (N - 1,) + tuple(range(nq - 1)), ]
    for qubits, controls in out:
        if qubits in want and (not controls or controls == tuple(sorted(controls, reverse=(qubits[0] == 0)))):
            keep.append((qubits, controls))
    return keep


REPRESENTATIVE = ("H", "RY", "U3", "CNOT", "SWAP", "IDEN", "RZZ", "FSIM", "ISWAP", "CCX", "CSWAP", "RAW1", "RAW2", "RAW3", "SU4")
REPRESENTATIVE_QUICK = ("H", "RY", "CNOT", "SWAP", "IDEN", "RZZ", "CCX", "CSWAP", "RAW1", "RAW2", "RAW3")


def t_cells(N, tier, specs):
    """T1: every label x every simulator x reduced placements, no controls,
    prior = prefix.  T2: representative gates x every ordered placement x
    controls {0,1,2} x every simulator x both priors.  thorough: T1 is the full
    product as well."""
    from_labels = sorted(tb.TEXTBOOK) + ["RAW1", "RAW2", "RAW3"]
    cells = []
    seen = set()

    def add(spec, prior, g):
        k = (spec_name(spec), prior, g)
        if k in seen:
            return
        seen.add(k)
        cells.append({"spec": spec, "prior": prior, "gate": g})

    full1 = tier != "quick"
    for spec in specs:
        Pm = spec["cls"] == "Circuit"
        for label in from_labels:
            nq = nqubits(label)
            if nq > N:
                continue
            npar = 0 if label.startswith("RAW") else tb.TEXTBOOK[label][1]
            for ncontrol in (0,) if not full1 else (0, 1, 2):
                if nq + ncontrol > N:
                    continue
                for qubits, controls in placements(N, nq, ncontrol, full1):
                    for prior in ("prefix",) if not full1 else ("zero", "prefix"):
                        add(spec, prior, gdesc(label, default_params(label), qubits, controls))
                        if npar and Pm and not controls:
                            add(spec, prior, gdesc(label, default_params(label), qubits, controls, parametrize=True))
    for spec in specs:
        Pm = spec["cls"] == "Circuit"
        for label in REPRESENTATIVE_QUICK if tier == "quick" else REPRESENTATIVE:
            nq = nqubits(label)
            npar = 0 if label.startswith("RAW") else tb.TEXTBOOK[label][1]
            for ncontrol in (0, 1, 2):
                if nq + ncontrol > N:
                    continue
                for qubits, controls in placements(N, nq, ncontrol, True):
                    for prior in ("zero", "prefix"):
                        add(spec, prior, gdesc(label, default_params(label), qubits, controls))
                        if npar and Pm and tier != "quick":
                            add(spec, prior, gdesc(label, default_params(label), qubits, controls, parametrize=True))
    return cells


def h_specs(tier):
    """simulator configurations explored as histories, with their bounds"""
    N = 3
    chain = [(0, 1), (1, 2)]
    H = []

    def add(cls, depth, kw=None, alpha="q", **more):
        d = {"cls": cls, "N": N, "kw": dict(kw or {}), "alpha": alpha}
        d.update(more)
        H.append((d, depth))

    if tier == "quick":
        add("Circuit", 3, max_mut=2, init="prefix")
        add("Circuit", 3, max_mut=2)
        add("CircuitDense", 3, max_mut=2)
        add("CircuitMPS", 3, max_mut=2)
        add("CircuitMPS", 3, max_mut=2, init="prefix")
        add("CircuitPermMPS", 3, max_mut=2)
        add("CircuitPermMPS", 3, {"gate_contract": "auto-mps"}, max_mut=2)
        add("CircuitMPSLazy", 3, {"method": "dm", "compress_every": 1}, max_mut=2)
        add("CircuitMPSLazy", 2, {"method": "direct", "compress_every": 2})
        add("CircuitMPS", 2, {"convert_eager": False})
        add("Circuit", 2, psi0="bits:101")
        add("Circuit", 2, {"gate_contract": "swap-split-gate"})
        add("CircuitPEPSSimpleUpdate", 3, edges=chain, tree=True)
        add("CircuitPEPOSimpleUpdate", 3, edges=chain)
    else:
        ring = [(0, 1), (1, 2), (0, 2)]
        # deep with the quick alphabet, broad (depth 3) with the full alphabet
        add("Circuit", 4, max_mut=3, init="prefix")
        add("Circuit", 3, alpha="t")
        add("Circuit", 3, alpha="t", init="prefix")
        add("CircuitDense", 3, alpha="t")
        add("CircuitDense", 3, init="prefix")
        add("CircuitMPS", 4, max_mut=3)
        add("CircuitMPS", 3, alpha="t")
        add("CircuitMPS", 3, alpha="t", init="prefix")
        add("CircuitPermMPS", 4, max_mut=3)
        add("CircuitPermMPS", 3, alpha="t")
        add("CircuitPermMPS", 3, {"gate_contract": "auto-mps"}, alpha="t")
        add("CircuitPermMPS", 3, {"gate_contract": "auto-mps"}, init="prefix")
        add("CircuitPermMPS", 3, {"gate_contract": "nonlocal"})
        for method in ("dm", "direct"):
            for ce in (1, 2):
                add("CircuitMPSLazy", 3, {"method": method, "compress_every": ce}, alpha="t")
        add("CircuitMPSLazy", 3, {"method": "dm", "compress_every": 2}, init="prefix")
        add("CircuitMPSLazy", 3, {"method": "zipup", "compress_every": 2})
        add("CircuitMPS", 3, {"convert_eager": False}, alpha="t")
        add("CircuitMPS", 3, {"gate_contract": "nonlocal"}, alpha="t")
        add("CircuitMPS", 3, {"gate_contract": "swap+split"})
        add("CircuitMPS", 3, alpha="t", psi0="ent")
        add("Circuit", 3, alpha="t", psi0="bits:101")
        add("Circuit", 3, psi0="ent")
        add("Circuit", 3, {"gate_contract": "swap-split-gate"}, alpha="t")
        add("Circuit", 3, {"gate_contract": "split-gate"})
        add("Circuit", 3, {"gate_contract": False})
        add("CircuitDense", 3, psi0="ent")
        add("CircuitPEPSSimpleUpdate", 4, edges=chain, tree=True)
        add("CircuitPEPSSimpleUpdate", 3, edges=ring, tree=False)
        add("CircuitPEPOSimpleUpdate", 4, edges=chain)
        add("CircuitPEPOSimpleUpdate", 3, edges=ring)
        # N = 4: distance-3 pairs, a qubit outside every 3-qubit gate
        for cls in ("Circuit", "CircuitMPS", "CircuitPermMPS"):
            d = {"cls": cls, "N": 4, "kw": {}, "alpha": "q", "max_mut": 2}
            H.append((d, 3))
    return H


def run(ctx):
    from quimb.tensor.circuit import gates as QG

    tier = ctx.tier
    parts = set((ctx.opts.get("parts") or "G,T,H").split(","))
    only = ctx.opts.get("only")  # restrict T/H to one class (development aid)
    ctx.rule = (
        "G: every registered gate label x parameter grid {0,+-pi/2,pi,0.3,2pi+0.1}^k (star+diagonal for 15-parameter SU4) x {array, parametrized array, build_mpo on every ordered placement with 0/1/2 controls, 7 spellings}; "
        "T: (gate label or raw k-qubit unitary) x ordered qubit placement x ordered control tuple x simulator configuration x prior state {|0..0>, fixed entangling prefix}: apply one gate, then compare a battery of queries and the dense state with a numpy statevector reference built from hand-written textbook matrices (distinct = (configuration, prior, gate descriptor)); "
        "H: breadth-first histories over gates / set_params / update_params_from / named-parameter binding / copy() / queries-as-events on real circuit objects, oracle after every transition, states deduplicated on a generic digest of vars(circ) (non-trivial = at least one gate applied)"
    )
    labels = sorted(QG.ALL_GATES)
    missing = sorted(set(labels) - set(tb.TEXTBOOK))
    if missing:
        # a newly registered gate without a hand-written reference: say so
        ctx.cap("no textbook matrix for registered labels %r" % (missing,))
        labels = [l for l in labels if l in tb.TEXTBOOK]
    ctx.assumptions += [
        "raw gates are unitary (documented: 'assumed to be unitary for the sake of computing reverse lightcones')",
        "no truncation requested: max_bond=None and the documented default cutoff 1e-10; comparisons use atol 2e-7 (double) and 2e-4 where the documented default dtype is complex64 (compute_marginal / samplers of the exact simulator)",
        "samplers are only required to yield strings of reference probability >= 1e-9 (and the MPS sampler to report |amplitude|^2); sample_chaotic is asked only with all qubits marginal or with the remaining qubits fixed to a most-likely outcome",
        "local_expectation of the PEPS simple-update simulator is asserted on tree geometries only (gauges are exact environments there); on the ring only to_dense/get_state; all its gates unitary",
        "parameter updates (set_params, update_params_from, named parameters) are exercised on Circuit only: documented as non-functional without gate-number tags",
        "a gate may be rejected with any exception type but must then leave gate record, state and (MPS) canonical record untouched; a query may only refuse with NotImplementedError where the class documents it as unavailable",
    ]
    ctx.notes["menu_preconditions"] = [
        "set_params / update_params_from / register_named_params offered only when a parametrised gate exists (and is not yet managed by a named expression, resp. named parameters exist for set_named)",
        "copy() offered once per history; events then act on the copy, the original is re-read after every mutation of the copy",
        "at most max_q queries between two mutations, at most max_mut mutations per history",
    ]
    ctx.notes["canonical_key"] = (
        "generic: sorted vars(circ) names + digest of every value (tensor networks tensor by tensor, arrays rounded to 7 decimals, uuid labels renamed by first appearance, Gate objects by their fields, nested circuits of the gate-by-gate cache recursively); "
        "replaced because not reproducible across processes: id()-based raw gate labels and _backend_gate_cache keys (content digests instead); _sampled_conditionals digested at 4 decimals (single precision results). Nothing is dropped."
    )
    ctx.notes["oracle"] = (
        "numpy statevector U_n..U_1|psi0> from the harness' own record of what it applied, with hand-written textbook matrices (c07_gates.py, no quimb import); after every mutator: gate record + dense state (+ the original of copy(): record, dense state, one light-cone/canonical expectation); "
        "every query event is compared with the value computed from the reference; rejected calls: record, dense state and (MPS) a local expectation must be unchanged"
    )
    ctx.notes["sampler_oracle"] = (
        "support (every yielded string has reference probability >= 1e-9) PLUS, deterministically: (a) a harness-side wrapper around quimb.tensor.circuit.{exact,mps}.sample_bitstring_from_prob_ndarray records the probability array of every draw; "
        "for sample / sample_chaotic each array must equal the reference conditional p(group | bits drawn before) resp. p(marginal qubits | all others) computed from the numpy statevector (groups = the order cut into group_size pieces, sorted inside a piece, as documented); "
        "(b) every entry of circ._sampled_conditionals (and of the sub-circuit caches of sample_gate_by_gate, against the state of the sub-circuit's own recorded gates) with key layout (where, ((qubit, bit), ...)) must equal the reference conditional of exactly that meaning. "
        "Conditionals whose prior has rescaled probability < 1e-2 are not asserted (single precision, 10x margin). Fallbacks are visible in the outcome strings: 'support-only(...)', 'cache-layout-unknown', 'cache-unreadable'."
    )
    ctx.notes["not_asserted"] = [
        "positions in circ.gates of CircuitPermMPS (it records the physical sites a gate was applied to)",
        "circ.uni when some qubit wire carries no gate tensor (implicit identity) or psi0 is not a product state",
        "sample_chaotic with unfixed non-marginal qubits (documented as only valid for chaotic circuits)",
        "local_expectation of CircuitPEPSSimpleUpdate on geometries with loops (documented approximation)",
    ]
    Nt = 3
    specs = sim_specs(Nt, tier)
    if only:
        specs = [s for s in specs if s["cls"] == only]
    ctx.bounds = {"N_table": Nt, "N_histories": 3, "simulator_configurations": [spec_name(s) for s in specs], "labels": len(labels)}

    if "G" in parts:
        cells = [{"label": l, "part": p} for l in labels for p in ("matrix", "mpo", "spelling")]
        cells += [{"label": l, "part": "shared"} for l in labels if tb.TEXTBOOK[l][1]]
        cells += [{"label": "RAW%d" % k, "part": "rawgate"} for k in (1, 2, 3)]
        table.run(ctx, "g_cell", cells, name="G:label x {matrix grid, build_mpo placements x controls, spellings}", chunk=2)
        ctx.subproducts.append("G: %d labels x {matrix on parameter grid, build_mpo on all ordered placements x {0,1,2} ordered controls (N=4), 7 spellings} complete; every parametrised label: one Gate object shared by two circuits x {apply_gate, from_gates} x {set_params, update_params_from}; raw Gate objects: copy / copy_with" % len(labels))

    if "T" in parts:
        cells = t_cells(Nt, tier, specs)
        if tier != "quick":
            # N=4 slice: representative gates only, to reach 2 controls on
            # 2-qubit gates, non-adjacent pairs with a gap of 2 and 3-qubit
            # gates that are not the whole register
            specs4 = [s for s in sim_specs(4, tier) if not s["kw"].get("gate_contract") in ("split-gate", False) and s.get("psi0") != "ent"]
            if only:
                specs4 = [s for s in specs4 if s["cls"] == only]
            for spec in specs4:
                for label in ("RY", "CNOT", "SWAP", "RAW2", "CCX", "IDEN"):
                    nq = nqubits(label)
                    for ncontrol in (0, 1, 2):
                        if nq + ncontrol > 4:
                            continue
                        for qubits, controls in placements(4, nq, ncontrol, True):
                            cells.append({"spec": spec, "prior": "prefix", "gate": gdesc(label, default_params(label), qubits, controls)})
            ctx.bounds["N_table_slice"] = 4
        table.run(ctx, "t_cell", cells, name="T:gate x placement x controls x simulator x prior", chunk=8)
        if tier == "quick":
            ctx.subproducts.append("T1: all %d labels + RAW1/2/3 x %d simulator configurations x {ascending, descending-far} placements, prior=prefix, no controls (+ parametrize=True on Circuit) complete" % (len(labels), len(specs)))
            ctx.subproducts.append("T2: %d representative gates %r x EVERY ordered placement x EVERY ordered control tuple of size 0/1/2 x %d simulator configurations x both priors complete (N=3)" % (len(REPRESENTATIVE_QUICK), REPRESENTATIVE_QUICK, len(specs)))
        else:
            ctx.subproducts.append("T: all %d labels + RAW1/2/3 x every ordered placement x every ordered control tuple of size 0/1/2 x %d simulator configurations x both priors complete (N=3); N=4 slice for 6 representative gates" % (len(labels), len(specs)))

    if "H" in parts:
        hs = h_specs(tier)
        if only:
            hs = [(s, d) for s, d in hs if s["cls"] == only]
        if "depth" in ctx.opts:
            hs = [(s, int(ctx.opts["depth"])) for s, d in hs]
        ctx.bounds["histories"] = [{"config": spec_name(s), "depth": d, "max_mut": s.get("max_mut", 3), "gates": len(gate_alphabet(s)), "queries": len(query_alphabet(s))} for s, d in hs]
        for spec, depth in hs:
            seq.explore(ctx, spec, depth, label="H:" + spec_name(spec) + (":mut%d" % spec["max_mut"] if "max_mut" in spec else ""))
        ctx.subproducts.append("H: every history up to the listed depth per configuration (bounds.histories) complete unless a cap is listed")

    # sampler queries whose conditionals could NOT be checked (seam or cache
    # layout not as known): support only was asserted there
    fb = {k: v for k, v in ctx.outcomes.items() if "sample" in k and ("support-only" in k or "layout-unknown" in k or "unreadable" in k)}
    ctx.notes["sampler_oracle_fallbacks"] = fb or "none: every sample / sample_chaotic draw and every cached conditional was compared with the reference"
    ctx.notes["sampler_queries_checked"] = int(sum(v for k, v in ctx.outcomes.items() if k.startswith("q:sample")))


def replay(case):
    if case.get("engine") == "seq":
        return seq.replay(__name__, case)
    return table.replay(sys.modules[__name__], case)

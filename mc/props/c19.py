"""C19 - all representations of one Hamiltonian denote the same operator.

Bounded exhaustive tables on the real quimb code (DESIGN 3/C19):

  R   HilbertSpace rank <-> configuration: labels x supplied order x order
      option x symmetry x every sector x EVERY rank (+ mixed radix, species)
  RP  public configcore dispatchers rank_to_flatconfig / flatconfig_to_rank
  S   every same-site operator string (full 13 letter alphabet)
  B   SparseOperatorBuilder term lists x Hilbert space variant x rewrite
      (Jordan-Wigner / Pauli decomposition) -> every representation, and
      every sector of every conserved symmetry
  X   small dedicated tables for dtype / out= / identity-term / expectation
      / Pauli-decomposed sector paths (where confirmed defects live)
  M   operator.models constructors on tiny graphs
  H   MPO_ham_* / ham_1d_* / SpinHam1D against gen.operators.ham_* and the
      docstring formulas, L <= 5, cyclic, S in {1/2, 1}

Oracle: c19_ref.py (numpy only): explicit Kronecker products, textbook
Jordan-Wigner strings, brute-force sector enumeration.
"""

from __future__ import annotations

import itertools
import sys

import numpy as np

from .. import core, table
from ..alphabet import rng_for
from . import c19_ref as R

TOL = 1e-9
ZX = R.ZX
P = core.problem


# --------------------------------------------------------------------------- #
#                                  helpers                                    #
# --------------------------------------------------------------------------- #


def _l(x):
    """tuples (from replay) / lists (live) -> nested lists."""
    if isinstance(x, (list, tuple)):
        return [_l(v) for v in x]
    return x


def shuf(n, a=7, b=3, m=11):
    return sorted(range(n), key=lambda i: ((i * a + b) % m, i))


def labels_for(kind, n):
    if kind == "int":
        return list(range(n))
    if kind == "gap":
        return [3 * i + 2 for i in range(n)]
    if kind == "tuple":
        return [(i // 2, i % 2) for i in range(n)]
    if kind == "str":
        return ["s%d" % i for i in range(n)]
    if kind == "spin":
        h = (n + 1) // 2
        return [("a", i) if i < h else ("b", i - h) for i in range(n)]
    raise KeyError(kind)


def coeffs(pattern, k, key):
    """Data fill of the term coefficients (VERIF_SEED selects the stream).
    Magnitudes in [0.3, 1.4], positive real parts: sums of repeated terms can
    never come near the builder's 1e-12 null threshold."""
    if pattern == "one":
        return [1.0] * k
    if pattern == "half":
        return [0.5] * k
    rng = rng_for("c19", "coeff", pattern, key)
    re = 0.3 + 0.7 * rng.uniform(0, 1, size=k)
    if pattern == "real":
        sg = np.where(rng.uniform(0, 1, size=k) < 0.5, -1.0, 1.0)
        sg[0] = 1.0
        return [float(x) for x in np.round(re * sg, 6)]
    im = rng.uniform(-1, 1, size=k)
    return [complex(round(float(a), 6), round(float(b), 6)) for a, b in zip(re, im)]


def vec(D, key, cplx=True, cols=None):
    rng = rng_for("c19", "vec", D, key, cols)
    shape = (D,) if cols is None else (D, cols)
    x = rng.uniform(-1, 1, size=shape)
    if cplx:
        x = x + 1j * rng.uniform(-1, 1, size=shape)
    return x


def short(ex):
    return "%s: %s" % (type(ex).__name__, str(ex).replace("\n", " ")[:160])


# --------------------------------------------------------------------------- #
#              builder Hilbert-space variants (reference side too)            #
# --------------------------------------------------------------------------- #


def hs_variant(kind, n):
    """-> (labels of the abstract sites 0..n-1, kwargs for the real
    HilbertSpace or None (builder makes its own), labels by register,
    species blocks or None).  The register assignment is derived here from
    the documented meaning of ``order`` (not read back from quimb)."""
    if kind == "auto":
        lab = labels_for("int", n)
        return lab, None, list(lab), None
    if kind == "gap":
        # unsorted ints; minimal space built from the sites used -> sorted
        lab = [(5 * i + 3) % 7 for i in range(n)]  # 3,1,6,4  (distinct for n<=4)
        return lab, None, sorted(lab), None
    if kind == "rev":
        lab = labels_for("tuple", n)
        supplied = [lab[i] for i in shuf(n)]
        order = list(reversed(lab))
        return lab, dict(sites=supplied, order=order), order, None
    if kind == "extra":
        lab = labels_for("str", n)
        seq = [lab[(i + 1) % n] for i in range(n)]
        seq.insert(1, "s9")
        return lab, dict(sites=sorted(seq), order=seq), seq, None
    if kind == "species":
        lab = labels_for("spin", n)
        inter = sorted(lab, key=lambda s: (s[1:], s[0]))
        ra = tuple(r for r, s in enumerate(inter) if s[0] == "a")
        rb = tuple(r for r, s in enumerate(inter) if s[0] == "b")
        return lab, dict(sites=list(reversed(lab)), order="interleaved", species="first"), inter, (ra, rb)
    raise KeyError(kind)


def _species_first(site):
    return site[0]


def make_hs(kw, **extra):
    from quimb.operator import HilbertSpace

    kw = dict(kw)
    if kw.get("species") == "first":
        kw["species"] = _species_first
    kw.update(extra)
    return HilbertSpace(**kw)


TF = {
    "none": (False, False),
    "jw": (True, False),
    "pd": (False, True),
    "pdzx": (False, "zx"),
    "jw+pd": (True, True),
    "jw+pdzx": (True, "zx"),
}


def make_builder(terms, hs=None, tf="none", mode="ctor", first_bare=False):
    """terms: [(coeff, [(op, label), ...]), ...] added in order."""
    from quimb.operator import SparseOperatorBuilder

    jw, pd = TF[tf]
    tl = []
    for i, (c, ops) in enumerate(terms):
        ops = [(o, s) for o, s in ops]
        if first_bare and i == 0 and c == 1.0 and ops:
            tl.append(tuple(ops))  # the coefficient-free spelling
        else:
            tl.append((c, *ops))
    if mode == "ctor":
        return SparseOperatorBuilder(tl, hilbert_space=hs, jordan_wigner=jw, pauli_decompose=pd)
    # toggle mode: populate every cache on the untransformed operator first
    b = SparseOperatorBuilder(hilbert_space=hs)
    for t in tl:
        b += t
    b.build_dense()
    b.terms
    if jw:
        b.jordan_wigner_transform()
        b.build_coo_data()
    if pd:
        b.pauli_decompose(use_zx=(pd == "zx"))
    return b


# --------------------------------------------------------------------------- #
#                 every representation of one builder object                  #
# --------------------------------------------------------------------------- #

STYPES = ("coo", "csr", "csc", "bsr", "lil", "dok", "dia")


def final_terms_info(b, N):
    """structure of the processed terms, read through the public property."""
    ts = b.terms
    has_identity = any(len(ops) == 0 for _, ops in ts)
    loc = max([len(ops) for _, ops in ts], default=0)
    return ts, has_identity, loc


def check_structure(b, tf, reglab, sg):
    probs = []
    jw, pd = TF[tf]
    allowed = None
    if pd is True:
        allowed = {"x", "y", "z"}
    elif pd == "zx":
        allowed = {"x", ZX, "z"}
    seen = set()
    for c, ops in b.terms:
        regs = [reglab[s] for _, s in ops]
        if regs != sorted(regs) or len(set(regs)) != len(regs):
            probs.append(P("final term not in canonical one-operator-per-site register order: %r" % (ops,), entry="builder.terms", kind="canonical", **sg))
        if allowed is not None and any(o not in allowed for o, _ in ops):
            probs.append(P("pauli decomposed term has non-Pauli operator: %r" % (ops,), entry="builder.terms", kind="pauli-alphabet", **sg))
        if any(o == "I" for o, _ in ops) or abs(c) < 1e-12:
            probs.append(P("identity operator / null coefficient kept in final terms: %r" % ((c, ops),), entry="builder.terms", kind="null", **sg))
        if ops in seen:
            probs.append(P("duplicate final term %r" % (ops,), entry="builder.terms", kind="duplicate", **sg))
        seen.add(ops)
    return probs


def check_reps(b, Href, N, reglab, sg, ssp=False, level="full", key=()):
    """Compare every representation of builder ``b`` with the reference matrix.
    reglab: label -> register (reference side).  Returns (probs, nevals, info)."""
    import scipy.sparse as sp

    probs = []
    ne = 0
    D = 2**N
    info = {}

    def bad(entry, msg, **kw):
        s = dict(sg)
        s.update(kw)
        probs.append(P(msg, entry=entry, **s))

    def cmp(entry, got, want, what="", **kw):
        nonlocal ne
        ne += 1
        try:
            got = np.asarray(got)
        except Exception as ex:  # pragma: no cover
            bad(entry, "%s not array-like: %s" % (what, short(ex)), kind="type", **kw)
            return False
        e = R.err(got, want)
        if not e <= TOL:
            bad(entry, "%s differs from the operator: rel.err %.3g (shape %s vs %s)" % (what or entry, e, got.shape, np.shape(want)), kind="value", **kw)
            return False
        return True

    hs = b.hilbert_space
    # the register assignment itself
    for lab, reg in reglab.items():
        if hs.site_to_reg(lab) != reg or hs.reg_to_site(reg) != lab:
            bad("hilbertspace.order", "site %r sits at register %r, documented ordering gives %r" % (lab, hs.site_to_reg(lab), reg), kind="order")
            return probs, ne, info
    if hs.nsites != N or b.nsites != N:
        bad("hilbertspace.order", "nsites %r != %r" % (hs.nsites, N), kind="nsites")
        return probs, ne, info

    # ---- the denotation: dense matrix vs independent reference ------------ #
    A = b.build_dense()
    ne += 1
    if not R.same(A, Href, TOL):
        bad("builder.denotation", "dense matrix is not the sum of products of the named operators: rel.err %.3g; terms=%r" % (R.err(A, Href), b.terms[:4]), root="same-site-product-nonunit-scalar" if ssp else "denotation", kind="value")
        T = np.asarray(A, dtype=complex)  # other representations: internal consistency
        info["denotation_bad"] = True
    else:
        T = Href
    op_real = np.dtype(b.get_dtype()).kind == "f"
    info["real"] = op_real
    if op_real and np.max(np.abs(np.imag(Href))) > 1e-9 and not info.get("denotation_bad"):
        bad("builder.dtype", "operator with complex matrix elements gets a real dtype", kind="dtype")
    ts, has_identity, loc = final_terms_info(b, N)
    info["nterms"] = len(ts)
    info["locality"] = loc
    info["identity"] = has_identity
    herm = R.same(T, T.conj().T, 1e-12)
    info["herm"] = herm

    # ---- sparse formats, raw coo ------------------------------------------ #
    for st in STYPES if level == "full" else ("csr",):
        M = b.build_sparse_matrix(stype=st)
        if not sp.issparse(M) or M.format != st or M.shape != (D, D):
            bad("build_sparse_matrix", "stype=%s gives %s %r" % (st, getattr(M, "format", type(M)), getattr(M, "shape", None)), kind="format", stype=st)
        cmp("build_sparse_matrix", M.toarray(), T, "sparse[%s]" % st, stype=st)
    data, rows, cols, d = b.build_coo_data()
    C = np.zeros((D, D), dtype=complex)
    if d != D or len(data) != len(rows) or len(rows) != len(cols) or (len(rows) and (rows.min() < 0 or rows.max() >= D or cols.min() < 0 or cols.max() >= D)):
        bad("build_coo_data", "coo data inconsistent: d=%r len=%r/%r/%r" % (d, len(data), len(rows), len(cols)), kind="shape")
    else:
        np.add.at(C, (rows, cols), data)
        cmp("build_coo_data", C, T, "coo triplets")

    # ---- matrix-free action ------------------------------------------------ #
    xc = vec(D, key, True)
    cmp("matvec", b.matvec(xc), T @ xc, "matvec(complex vector)", rhs="vector")
    if level == "full":
        Xc = vec(D, key, True, cols=3)
        cmp("matvec", b.matvec(Xc), T @ Xc, "matvec(matrix rhs)", rhs="matrix")
        out = np.zeros(D, dtype=complex)
        y = b.matvec(xc, out=out)
        if y is not out:
            bad("matvec", "out= buffer not returned", kind="out-identity")
        cmp("matvec", out, T @ xc, "matvec(out=zeros)", rhs="out0")
        if op_real:
            xr = vec(D, key, False)
            y = b.matvec(xr)
            if np.asarray(y).dtype.kind != "f":
                bad("matvec", "real operator on real vector gives dtype %s" % np.asarray(y).dtype, kind="dtype")
            cmp("matvec", y, T.real @ xr, "matvec(real vector)", rhs="real")
        # linear operator (explicit complex dtype: the action itself)
        lo = b.aslinearoperator(dtype="complex128")
        if lo.shape != (D, D):
            bad("aslinearoperator", "shape %r" % (lo.shape,), kind="shape")
        cmp("aslinearoperator", lo @ xc, T @ xc, "LinearOperator @ vector", rhs="vector")
        cmp("aslinearoperator", lo.matmat(Xc), T @ Xc, "LinearOperator.matmat", rhs="matrix")
        if herm:
            # documented: the operator is assumed hermitian for the adjoint
            cmp("aslinearoperator", lo.H @ xc, T.conj().T @ xc, "LinearOperator.H @ vector", rhs="adjoint")
            cmp("aslinearoperator", lo.rmatvec(xc), T.conj().T @ xc, "LinearOperator.rmatvec", rhs="rmatvec")
        lod = b.aslinearoperator()
        if np.dtype(lod.dtype) != np.dtype(b.get_dtype()):
            bad("aslinearoperator", "dtype %s != operator dtype %s" % (lod.dtype, b.get_dtype()), kind="dtype")
        xs = vec(D, key, not op_real)
        cmp("aslinearoperator", lod @ xs, T @ xs, "LinearOperator(default dtype) @ vector of that dtype", rhs="native")

    # ---- local terms / local ham ------------------------------------------ #
    if has_identity:
        info["local_terms"] = "skipped:identity-term"  # dedicated table X
    else:
        Hk = b.build_local_terms()
        tot = np.zeros((D, D), dtype=complex)
        okk = True
        for sites, hk in Hk.items():
            regs = [reglab[s] for s in sites]
            if regs != sorted(regs) or len(set(regs)) != len(regs) or np.shape(hk) != (2 ** len(regs),) * 2:
                bad("build_local_terms", "key %r / shape %r not a sorted tuple of distinct sites with a 2^k matrix" % (sites, np.shape(hk)), kind="key")
                okk = False
                break
            tot = tot + R.embed_regs(hk, regs, N)
        if okk:
            cmp("build_local_terms", tot, T, "sum of embedded local terms")
        if level == "full":
            try:
                lh = b.build_local_ham()
            except NotImplementedError:
                info["local_ham"] = "rej:NotImplementedError(locality>2)" if loc > 2 else "rej:NotImplementedError"
                if loc <= 2:
                    bad("build_local_ham", "NotImplementedError although locality is %d" % loc, kind="exception")
            except (ValueError, TypeError) as ex:
                # documented LocalHamGen restriction: needs two-site terms covering every site with a one-site term
                two = {s for sites in Hk if len(sites) == 2 for s in sites}
                one = {sites[0] for sites in Hk if len(sites) == 1}
                if isinstance(ex, np.linalg.LinAlgError) or (one <= two and two):
                    bad("build_local_ham", "unexpected %s" % short(ex), kind="exception")
                else:
                    info["local_ham"] = "rej:uncovered-one-site-term"
            else:
                tot = np.zeros((D, D), dtype=complex)
                for (sa, sb), h2 in lh.terms.items():
                    tot = tot + R.embed_regs(np.asarray(h2), [reglab[sa], reglab[sb]], N)
                cmp("build_local_ham", tot, T, "sum of LocalHamGen terms")
                info["local_ham"] = "ok"

    # ---- MPO, ikron -------------------------------------------------------- #
    mpo = b.build_mpo()
    if mpo.L != N:
        bad("build_mpo", "MPO has %d sites, space has %d" % (mpo.L, N), kind="shape")
    else:
        cmp("build_mpo", mpo.to_dense(), T, "MPO.to_dense()")
        info["mpo_bond"] = int(mpo.max_bond()) if N > 1 else 1
    Ae = b.build_matrix_ikron()
    if Ae is None:
        if len(ts):
            bad("build_matrix_ikron", "returns None for a non-empty operator", kind="none")
        info["ikron"] = "None(zero operator)"
    else:
        cmp("build_matrix_ikron", Ae, T, "ikron matrix")
        if level == "full":
            As = b.build_matrix_ikron(sparse=True)
            cmp("build_matrix_ikron", As.toarray() if sp.issparse(As) else As, T, "ikron sparse matrix", sparse=True)

    # ---- configuration coupling (every basis configuration) --------------- #
    site_of_reg = {r: s for s, r in reglab.items()}
    okc = True
    dt = b.get_dtype()
    for r in range(D):
        fc = hs.rank_to_flatconfig(r)
        ys, cs = b.flatconfig_coupling(fc)
        col = np.zeros(D, dtype=complex)
        idx = [R.config_index(y) for y in np.asarray(ys)]
        if len(set(idx)) != len(idx) or np.asarray(cs).dtype != np.dtype(dt):
            bad("flatconfig_coupling", "coupled configurations not distinct / dtype %s for rank %d" % (np.asarray(cs).dtype, r), kind="distinct")
            okc = False
            break
        for i, c in zip(idx, cs):
            col[i] += c
        if not R.same(col, T[:, r], TOL):
            bad("flatconfig_coupling", "coupling of configuration %s is not column %d of the operator (rel.err %.3g)" % (fc.tolist(), r, R.err(col, T[:, r])), kind="value")
            okc = False
            break
        if level == "full":
            conf = {site_of_reg[q]: int(fc[q]) for q in range(N) if q in site_of_reg}
            for q in range(N):
                if q not in site_of_reg:
                    conf[hs.reg_to_site(q)] = int(fc[q])
            confs, cs2 = b.config_coupling(conf)
            col2 = np.zeros(D, dtype=complex)
            for cf, c in zip(confs, cs2):
                bits = [0] * N
                for s, v in cf.items():
                    bits[hs.site_to_reg(s) if s not in reglab else reglab[s]] = int(v)
                col2[R.config_index(bits)] += c
            if not R.same(col2, T[:, r], TOL):
                bad("config_coupling", "coupling of configuration %r is not column %d of the operator" % (conf, r), kind="value")
                okc = False
                break
    ne += D * (2 if level == "full" else 1)
    info["coupling"] = okc
    info["T"] = T
    return probs, ne, info


# --------------------------------------------------------------------------- #
#                          sectors of one builder                             #
# --------------------------------------------------------------------------- #


def charges(N, kind, blocks=None):
    cfg = R.sector_configs(N)
    if kind == "Z2":
        return [sum(c) % 2 for c in cfg]
    if kind == "U1":
        return [sum(c) for c in cfg]
    ra, rb = blocks
    return [(sum(c[r] for r in ra), sum(c[r] for r in rb)) for c in cfg]


def term_leaves_sector(b, reglab, N, kind, blocks=None):
    """Root-cause predicate (from the rewritten term list): some individual
    final term does not conserve the charge although the sum does."""
    ch = charges(N, kind, blocks)
    for c, ops in b.terms:
        M = R.term_matrix(ops, reglab, N, False)
        if not R.conserved(M, ch):
            return True
    return False


def sector_list(N, T, species_blocks=None, spnames=("a", "b")):
    """every (symmetry, reference sector, blocks, [call forms]) whose charge
    the operator conserves."""
    out = []
    if R.conserved(T, charges(N, "Z2")):
        out.append(("Z2", 0, None, [dict(sector="even"), dict(sector=0, symmetry="Z2")]))
        out.append(("Z2", 1, None, [dict(sector="odd"), dict(sector=1, symmetry="Z2")]))
    if R.conserved(T, charges(N, "U1")):
        for k in range(N + 1):
            out.append(("U1", k, None, [dict(sector=k), dict(sector=k, symmetry="U1")]))
    if species_blocks is not None:
        ra, rb = species_blocks
        if R.conserved(T, charges(N, "U1U1", (ra, rb))):
            for ka in range(len(ra) + 1):
                for kb in range(len(rb) + 1):
                    forms = [dict(sector=(ka, kb)), dict(sector={spnames[0]: ka, spnames[1]: kb}), dict(sector=((len(ra), ka), (len(rb), kb)), symmetry="U1U1"), dict(sector=[ka, kb]), dict(sector={spnames[1]: kb, spnames[0]: ka})]
                    out.append(("U1U1", (ka, kb), (ra, rb), forms))
    else:
        for na in range(1, N):
            ra, rb = tuple(range(na)), tuple(range(na, N))
            if R.conserved(T, charges(N, "U1U1", (ra, rb))):
                for ka in range(na + 1):
                    for kb in range(N - na + 1):
                        out.append(("U1U1", (ka, kb), (ra, rb), [dict(sector=((na, ka), (N - na, kb)))]))
    return out


def check_sectors(b, T, N, reglab, sg, key=(), species_blocks=None, unsafe_kinds=(), level="full", spnames=("a", "b"), probe_unsafe=True):
    """sector matrix = P^T H P with P the sector's basis configurations in the
    documented rank order; for every sector of every conserved symmetry."""
    import scipy.sparse as sp

    probs = []
    ne = 0
    nsec = 0

    def bad(entry, msg, **kw):
        s = dict(sg)
        s.update(kw)
        probs.append(P(msg, entry=entry, **s))

    for sym, sec, blocks, forms in sector_list(N, T, species_blocks, spnames):
        cfgs = R.sector_configs(N, sym, sec, blocks)
        idx = [R.config_index(c) for c in cfgs]
        Ts = T[np.ix_(idx, idx)]
        d = len(idx)
        if d != R.sector_size(N, sym, sec, blocks):
            raise AssertionError("reference sector size")
        nsec += 1
        for fi, kw in enumerate(forms):
            s2 = dict(symmetry=sym)
            if sym in unsafe_kinds and not probe_unsafe:
                continue  # probed in the designed-list / model tables only
            if sym in unsafe_kinds:
                # individual rewritten terms leave the sector: only the raw
                # triplets are safe to request (matvec would write out of range)
                ne += 1
                try:
                    data, rows, cols, dd = b.build_coo_data(**kw)
                    if dd != d or (len(rows) and (rows.max() >= d or cols.max() >= d or rows.min() < 0)):
                        bad("sector.build", "sector %s %r: coo triplets point outside the %d-dimensional sector" % (sym, sec, d), root="sector-term-leaves-sector", kind="range", **s2)
                        continue
                    C = np.zeros((d, d), dtype=complex)
                    np.add.at(C, (rows, cols), data)
                    if not R.same(C, Ts, TOL):
                        bad("sector.build", "sector %s %r: matrix differs from P^T H P" % (sym, sec), root="sector-term-leaves-sector", kind="value", **s2)
                except Exception as ex:
                    bad("sector.build", "sector %s %r: %s" % (sym, sec, short(ex)), root="sector-term-leaves-sector", kind="exception", **s2)
                continue
            A = b.build_dense(**kw)
            ne += 1
            if A.shape != (d, d):
                bad("sector.build_dense", "sector %s %r has shape %r, combinatorial size is %d" % (sym, sec, A.shape, d), kind="size", **s2)
                continue
            if not R.same(A, Ts, TOL):
                bad("sector.build_dense", "sector %s %r (%r): matrix differs from P^T H P (rel.err %.3g)" % (sym, sec, kw, R.err(A, Ts)), kind="value", **s2)
                continue
            if b.hilbert_space.get_size(**kw) != d:
                bad("hilbertspace.get_size", "get_size(%r) = %r, expected %d" % (kw, b.hilbert_space.get_size(**kw), d), kind="size", **s2)
            if fi > 0:
                continue  # further spellings of the same sector: matrix + size only
            M = b.build_sparse_matrix(stype="csc", **kw)
            ne += 1
            if not R.same(M.toarray(), Ts, TOL):
                bad("sector.build_sparse_matrix", "sector %s %r sparse differs" % (sym, sec), kind="value", **s2)
            x = vec(d, (key, sym, str(sec)), True)
            y = b.matvec(x, **kw)
            ne += 1
            if not R.same(y, Ts @ x, TOL):
                bad("sector.matvec", "sector %s %r matvec differs from (P^T H P) x" % (sym, sec), kind="value", **s2)
            if level == "full" and fi == 0:
                lo = b.aslinearoperator(dtype="complex128", **kw)
                ne += 1
                if lo.shape != (d, d) or not R.same(lo @ x, Ts @ x, TOL):
                    bad("sector.aslinearoperator", "sector %s %r linear operator differs" % (sym, sec), kind="value", **s2)
    return probs, ne, nsec


def check_default_sector(terms, hskw, tf, T, N, reglab, sg, sym, sec, blocks, call, via=None):
    """the same operator built in a HilbertSpace whose DEFAULT sector is set:
    sizes, matrices, and the coupling of every sector configuration."""
    probs = []

    def bad(entry, msg, **kw):
        s = dict(sg)
        s.update(kw)
        probs.append(P(msg, entry=entry, **s))

    if via is None:
        hs = make_hs(hskw, **call)
    else:
        # the same space reached by re-ordering one built in another order
        hs = make_hs(dict(hskw, order=via), **call).with_ordering(hskw["order"])
        sg = dict(sg, via="with_ordering")
    b = make_builder(terms, hs=hs, tf=tf)
    for lab_, reg_ in reglab.items():
        if hs.site_to_reg(lab_) != reg_:
            bad("hilbertspace.with_ordering", "site %r at register %r, expected %r" % (lab_, hs.site_to_reg(lab_), reg_), kind="order")
            return probs, 1
    cfgs = R.sector_configs(N, sym, sec, blocks)
    idx = [R.config_index(c) for c in cfgs]
    Ts = T[np.ix_(idx, idx)]
    d = len(idx)
    if hs.size != d:
        bad("hilbertspace.size", "default sector %s %r: size %r, expected %d" % (sym, sec, hs.size, d), kind="size", symmetry=sym)
        return probs, 1
    A = b.build_dense()
    if not R.same(A, Ts, TOL):
        bad("sector.default.build_dense", "default sector %s %r: matrix differs from P^T H P" % (sym, sec), kind="value", symmetry=sym)
        return probs, 1
    x = vec(d, ("dflt", sym, str(sec)), True)
    if not R.same(b.matvec(x), Ts @ x, TOL):
        bad("sector.default.matvec", "default sector %s %r: matvec differs" % (sym, sec), kind="value", symmetry=sym)
    for r, c in enumerate(cfgs):
        fc = hs.rank_to_flatconfig(r)
        if tuple(int(v) for v in fc) != tuple(c):
            bad("hilbertspace.rank_to_flatconfig", "default sector %s %r rank %d -> %s, documented order gives %s" % (sym, sec, r, fc.tolist(), list(c)), kind="order", symmetry=sym)
            break
        ys, cs = b.flatconfig_coupling(fc)
        col = np.zeros(d, dtype=complex)
        okk = True
        for y, cc in zip(np.asarray(ys), cs):
            i = R.config_index(y)
            if i not in idx:
                if abs(cc) > 1e-12:
                    okk = False
                continue
            if hs.flatconfig_to_rank(y) != idx.index(i):
                okk = False
            col[idx.index(i)] += cc
        if not okk or not R.same(col, Ts[:, r], TOL):
            bad("sector.default.coupling", "default sector %s %r: coupling of rank %d is not the sector column" % (sym, sec, r), kind="value", symmetry=sym)
            break
    return probs, 2 + d


# --------------------------------------------------------------------------- #
#                    B / S: builder term lists -> everything                  #
# --------------------------------------------------------------------------- #


def cell_terms(cell):
    n = cell["n"]
    lab, hskw, bylreg, blocks = hs_variant(cell["hs"], n)
    T = [[(o, int(s)) for o, s in ops] for ops in cell["T"]]
    cs = coeffs(cell["cp"], len(T), (n,))
    cm = cell.get("cm")
    if cm:
        for i, m in enumerate(cm):
            # relation to the PREVIOUS term's coefficient
            if m == "conj":
                cs[i] = complex(cs[i - 1]).conjugate()
            elif m == "same":
                cs[i] = cs[i - 1]
            elif m == "neg":
                cs[i] = -cs[i - 1]
    terms = [(c, [(o, lab[s]) for o, s in ops]) for c, ops in zip(cs, T)]
    if hskw is None:
        # the builder makes a minimal space from the sites actually used, sorted
        bylreg = sorted({s for _, ops in terms for _, s in ops})
    reglab = {s: r for r, s in enumerate(bylreg)}
    return terms, hskw, bylreg, reglab, blocks


def b_cell(cell, common):
    tf = cell["tf"]
    mode = cell.get("tm", "ctor")
    level = (common or {}).get("level", "full")
    terms, hskw, bylreg, reglab, blocks = cell_terms(cell)
    N = len(bylreg)
    jw = TF[tf][0]
    Href = R.operator(terms, reglab, N, jw)
    ssp = R.has_nonunit_same_site_product(terms, reglab, bylreg, jw)
    sg = {}
    where = " [table %s, rewrite %s, space %s]" % (cell.get("tab", "B"), tf, cell["hs"])
    hs = make_hs(hskw) if hskw is not None else None
    try:
        b = make_builder(terms, hs=hs, tf=tf, mode=mode, first_bare=cell["cp"] == "one")
        probs = check_structure(b, tf, reglab, sg)
        p2, ne, info = check_reps(b, Href, N, reglab, sg, ssp=ssp, level=level, key=(cell["n"], len(terms)))
        probs += p2
        nsec = 0
        unsafe = []
        if not p2 or info.get("denotation_bad"):
            T = info["T"]
            if True:
                for kind in ("Z2", "U1"):
                    if R.conserved(T, charges(N, kind)) and term_leaves_sector(b, reglab, N, kind):
                        unsafe.append(kind)
                for bl in [blocks] if blocks else [(tuple(range(na)), tuple(range(na, N))) for na in range(1, N)]:
                    if R.conserved(T, charges(N, "U1U1", bl)) and term_leaves_sector(b, reglab, N, "U1U1", bl):
                        unsafe.append("U1U1")
            p3, ne3, nsec = check_sectors(b, T, N, reglab, sg, key=(cell["n"],), species_blocks=blocks, unsafe_kinds=tuple(unsafe), level=level, probe_unsafe=cell.get("tab") in ("B4", "B5"))
            probs += p3
            ne += ne3
            if not p3 and level == "full" and not unsafe:
                # one default-sector space per conserved symmetry (middle sector)
                secs = sector_list(N, T, blocks)
                for sym in ("Z2", "U1", "U1U1"):
                    lst = [s for s in secs if s[0] == sym]
                    if lst:
                        _, sec, bl, forms = lst[len(lst) // 2]
                        kw = hskw if hskw is not None else dict(sites=list(bylreg))
                        p4, ne4 = check_default_sector(terms, kw, tf, T, N, reglab, sg, sym, sec, bl, forms[-1])
                        probs += p4
                        ne += ne4
                if blocks and not probs:
                    # species interleaved among the registers, every U1U1 sector,
                    # on a space obtained with with_ordering() from the blocked
                    # order and from a species-mixing permutation
                    mix = [bylreg[i] for i in shuf(N, a=3, b=2, m=7)]
                    for _, sec, bl, forms in [s_ for s_ in secs if s_[0] == "U1U1"]:
                        for via, fm in (("blocked", forms[0]), (mix, forms[1]), ("blocked", forms[-1]), (None, forms[-1])):
                            p4, ne4 = check_default_sector(terms, hskw, tf, T, N, reglab, sg, "U1U1", sec, bl, fm, via=via)
                            probs += p4
                            ne += ne4
    except Exception as ex:
        if isinstance(ex, (AssertionError,)):
            raise
        probs = [P("unexpected %s while building representations; terms=%r" % (short(ex), terms[:3]), entry="builder.exception", exc=type(ex).__name__, root="same-site-product-nonunit-scalar" if ssp and isinstance(ex, ZeroDivisionError) else "exception", **sg)]
        probs[0]["msg"] += where
        return table.bad(probs)
    if probs:
        for p in probs:
            p["msg"] += where + " terms=%r" % (cell["T"][:3],)
        return table.bad(probs)
    nz = bool(np.max(np.abs(Href)) > 1e-12)
    out = "nt=%d loc=%d herm=%d real=%d id=%d nsec=%d%s bond=%s lham=%s" % (min(info["nterms"], 4), info["locality"], info["herm"], info["real"], info["identity"], min(nsec, 9), "u" if unsafe else "", info.get("mpo_bond"), str(info.get("local_ham", "-"))[:18])
    return table.ok(key=core.digest(core.jsonable(cell)), nontrivial=nz and N >= 1, outcome=out, evals=ne)


# ---- X: dedicated small tables (dtype, out=, identity, expectation) -------- #


def x_cell(cell, common):
    """One probe of one builder API corner on one operator; every probe has an
    exact expected value from the reference."""
    from quimb.operator.builder import simplify_single_site_ops

    # quimb memoises (coeff, ops) -> (coeff, op) on VALUE, so the scalar TYPE a
    # term ends up with depends on what the process saw before; start clean
    simplify_single_site_ops.cache_clear()
    terms, hskw, bylreg, reglab, blocks = cell_terms(cell)
    ctype = cell.get("ctype", "py")
    if ctype == "np":
        terms = [((np.complex128(c) if isinstance(c, complex) else np.float64(c)), ops) for c, ops in terms]
    N = len(bylreg)
    D = 2**N
    tf = cell["tf"]
    Href = R.operator(terms, reglab, N, TF[tf][0])
    hs = make_hs(hskw) if hskw is not None else None
    b = make_builder(terms, hs=hs, tf=tf)
    A = b.build_dense()
    if not R.same(A, Href, TOL):
        return table.rejected("x:%s:denotation-differs(covered by table B)" % cell["probe"])
    T = Href
    op_real = np.dtype(b.get_dtype()).kind == "f"
    probe = cell["probe"]
    sg = dict(probe=probe)
    key = ("x", probe, N)
    if probe == "linop-native-dtype":
        # LinearOperator with its default dtype applied to vectors of either kind
        lo = b.aslinearoperator()
        res = []
        for cplx in (False, True):
            x = vec(D, key, cplx)
            root = "linop-real-operator-complex-vector" if (op_real and cplx) else "linop"
            try:
                y = lo @ x
            except Exception as ex:
                res.append(table.bad(P("aslinearoperator() (dtype %s) @ %s vector raises %s" % (lo.dtype, "complex" if cplx else "real", short(ex)), entry="aslinearoperator", root=root, exc=type(ex).__name__, **sg), sub="c%d" % cplx))
                continue
            if not R.same(y, T @ x, TOL):
                res.append(table.bad(P("aslinearoperator() @ %s vector differs from H x" % ("complex" if cplx else "real"), entry="aslinearoperator", root=root, kind="value", **sg), sub="c%d" % cplx))
            else:
                res.append(table.ok(key=(core.digest(core.jsonable(cell)), cplx), outcome="linop real_op=%d cplx_x=%d ok" % (op_real, cplx), sub="c%d" % cplx))
        return res
    if probe == "matvec-default-dtype":
        # dtype follows the vector (documented): complex operator x real vector
        res = []
        for cplx in (False, True):
            x = vec(D, key, cplx)
            try:
                y = b.matvec(x)
            except TypeError as ex:
                if (not op_real) and (not cplx):
                    res.append(table.rejected("matvec:complex-operator-real-vector-default-dtype:TypeError", sub="c%d" % cplx))
                    continue
                res.append(table.bad(P("matvec raises %s" % short(ex), entry="matvec", root="matvec-dtype", exc="TypeError", **sg), sub="c%d" % cplx))
                continue
            if not R.same(y, T @ x, TOL):
                drop = (not op_real) and (not cplx) and ctype == "np"
                res.append(table.bad(P("matvec(%s vector) of a %s operator with %s coefficients differs from H x without raising%s" % ("complex" if cplx else "real", "real" if op_real else "complex", "numpy scalar" if ctype == "np" else "python", " (imaginary parts of the couplings discarded)" if R.same(y, T.real @ x, TOL) else ""), entry="matvec", root="matvec-complex-operator-real-vector-numpy-coefficients" if drop else "matvec-dtype", kind="value", **sg), sub="c%d" % cplx))
            else:
                res.append(table.ok(key=(core.digest(core.jsonable(cell)), cplx), outcome="matvec real_op=%d cplx_x=%d ok" % (op_real, cplx), sub="c%d" % cplx))
        return res
    if probe == "matvec-out-prefilled":
        res = []
        x = vec(D, key, True)
        for par in (False, 2):
            out = np.full(D, 1.0 + 0.5j)
            y = b.matvec(x, out=out, parallel=par)
            good = R.same(y, T @ x, TOL) and R.same(out, T @ x, TOL)
            if good:
                res.append(table.ok(key=(core.digest(core.jsonable(cell)), str(par)), outcome="out prefilled parallel=%s ok" % par, sub="p%s" % par))
            else:
                acc = R.same(y, T @ x + (1.0 + 0.5j), TOL)
                res.append(table.bad(P("matvec(x, out=prefilled, parallel=%s) does not store H x in out (%s)" % (par, "returns out_before + H x" if acc else "other value"), entry="matvec", root="matvec-out-accumulates" if not par else "matvec-out", parallel=bool(par), **sg), sub="p%s" % par))
        return res
    if probe == "local-terms-identity":
        has_id = any(len(ops) == 0 for _, ops in b.terms)
        res = []
        for ent in ("build_local_terms", "build_local_ham"):
            try:
                if ent == "build_local_terms":
                    Hk = b.build_local_terms()
                    tot = sum((R.embed_regs(h, [reglab[s] for s in sites], N) for sites, h in Hk.items()), np.zeros((D, D), dtype=complex))
                else:
                    lh = b.build_local_ham()
                    tot = sum((R.embed_regs(np.asarray(h), [reglab[s] for s in sites], N) for sites, h in lh.terms.items()), np.zeros((D, D), dtype=complex))
            except Exception as ex:
                if ent == "build_local_ham" and (not has_id or isinstance(ex, NotImplementedError)):
                    # documented: LocalHamGen holds 1- and 2-site terms only
                    res.append(table.rejected("build_local_ham:%s" % type(ex).__name__, sub=ent))
                    continue
                res.append(table.bad(P("%s raises %s (identity term present: %s)" % (ent, short(ex), has_id), entry=ent, root="identity-term-unzip" if has_id else "exception", exc=type(ex).__name__, **sg), sub=ent))
                continue
            if R.same(tot, T, TOL):
                res.append(table.ok(key=(core.digest(core.jsonable(cell)), ent), outcome="%s id=%d ok" % (ent, has_id), sub=ent))
            else:
                res.append(table.bad(P("%s: sum of local terms differs from the operator" % ent, entry=ent, root="identity-term" if has_id else "value", kind="value", **sg), sub=ent))
        return res
    if probe == "evaluate-exact":
        hs_ = b.hilbert_space
        res = []
        sym_T = R.same(T, T.T, 1e-12)
        for cplx in (False, True):
            psi = vec(D, key, cplx)
            want = (psi.conj() @ T @ psi) / (psi.conj() @ psi)
            root = "evaluate-exact-column-as-row" if (cplx and not sym_T) else "evaluate-exact"
            for ent in ("evaluate_exact_flatconfigs", "evaluate_exact_configs"):
                if ent == "evaluate_exact_flatconfigs":
                    got = b.evaluate_exact_flatconfigs(lambda fc: psi[R.config_index(fc)])
                else:
                    got = b.evaluate_exact_configs(lambda cf: psi[R.config_index([cf[s] for s in bylreg])])
                sub = "%s:%d" % (ent, cplx)
                if abs(got - want) <= 1e-9 * max(1.0, abs(want)):
                    res.append(table.ok(key=(core.digest(core.jsonable(cell)), sub), outcome="evaluate sym=%d cplx=%d ok" % (sym_T, cplx), sub=sub))
                else:
                    tr = (psi @ T @ psi.conj()) / (psi.conj() @ psi)
                    res.append(table.bad(P("%s = %r, <psi|H|psi>/<psi|psi> = %r (%s)" % (ent, complex(got), complex(want), "equals the value for H^T" if abs(got - tr) < 1e-9 else "other"), entry=ent, root=root, **sg), sub=sub))
        return res
    raise KeyError(probe)


# --------------------------------------------------------------------------- #
#                 R: HilbertSpace rank <-> configuration                      #
# --------------------------------------------------------------------------- #


def order_spec(name, labels):
    """-> (argument for the real call, reference spec)"""
    srt = sorted(labels)
    if name == "none":
        return None, ("none",)
    if name == "false":
        return False, ("none",)
    if name == "sorted":
        return True, ("sorted",)
    if name == "seq_rev":
        seq = list(reversed(srt))
        return seq, ("seq", seq)
    if name == "seq_shuf":
        seq = [srt[i] for i in shuf(len(srt), a=5, b=1, m=13)]
        return tuple(seq), ("seq", seq)
    if name in ("key_desc", "key_last"):
        return R.KEYFNS[name[4:]], ("key", name[4:])
    if name in ("blocked", "interleaved"):
        return name, ("preset", name)
    raise KeyError(name)


def supplied_order(name, labels):
    if name == "id":
        return list(labels)
    if name == "rev":
        return list(reversed(labels))
    return [labels[i] for i in shuf(len(labels))]


def r_cell(cell, common):
    from quimb.operator import HilbertSpace

    n = cell["n"]
    labels = labels_for(cell["lab"], n)
    sup = supplied_order(cell["sup"], labels)
    oarg, ospec = order_spec(cell["ord"], labels)
    dims = cell.get("dims")
    sym = cell.get("sym")
    sec = cell.get("sec")
    secform = cell.get("secform")
    spbits = cell.get("species")
    sg = dict(symmetry=sym or ("mixed-radix" if dims is not None else "none"))
    probs = []

    def bad(entry, msg, **kw):
        s = dict(sg)
        s.update(kw)
        probs.append(P(msg, entry=entry, **s))

    exp_sites = R.ordered_sites(sup, ospec)
    reg_of = {s: r for r, s in enumerate(exp_sites)}
    # ---- arguments of the real call
    kw = {}
    form = cell.get("form", "list")
    if dims is not None:
        dmap = {labels[i]: int(dims[i]) for i in range(n)}
        if form == "dict":
            kw["sites"] = {s: dmap[s] for s in sup}
        else:
            kw["sites"] = list(sup)
            kw["dims"] = [dmap[s] for s in sup]
    elif form == "int":
        kw["sites"] = n
    elif form == "dict":
        kw["sites"] = {s: 2 for s in sup}
    else:
        kw["sites"] = tuple(sup) if cell["sup"] == "rev" else list(sup)
    kw["order"] = oarg
    blocks = None
    spmap = None
    if spbits is not None:
        spmap = {labels[i]: ("a" if int(spbits[i]) == 0 else "b") for i in range(n)}
        kw["species"] = (lambda s, m=spmap: m[s]) if cell.get("spform") == "callable" else dict(spmap)
        ra = tuple(r for r, s in enumerate(exp_sites) if spmap[s] == "a")
        rb = tuple(r for r, s in enumerate(exp_sites) if spmap[s] == "b")
        blocks = (ra, rb)
    call_sector = None
    call_sym = None
    ref_sec = sec
    if sym == "Z2":
        call_sector = {"even": "even", "odd": "odd", "int": int(sec)}[secform if secform in ("even", "odd") else "int"]
        if secform in ("even", "odd"):
            ref_sec = 0 if secform == "even" else 1
        else:
            call_sym = "Z2"
    elif sym == "U1":
        call_sector = int(sec)
        call_sym = "U1" if secform == "explicit" else None
    elif sym == "U1U1":
        if spbits is None:
            na, ka, kb = (int(v) for v in sec)
            blocks = (tuple(range(na)), tuple(range(na, n)))
            call_sector = ((na, ka), (n - na, kb))
            ref_sec = (ka, kb)
            call_sym = "U1U1" if secform == "explicit" else None
        else:
            ka, kb = (int(v) for v in sec)
            ref_sec = (ka, kb)
            # every spelling the API accepts denotes the same sector
            if secform == "dict":
                call_sector = {"a": ka, "b": kb}
            elif secform == "dict_rev":
                call_sector = {"b": kb, "a": ka}  # keys in the other order
            elif secform == "pair":
                call_sector = (ka, kb)
            elif secform == "list":
                call_sector = [ka, kb]
            elif secform == "explicit_list":
                call_sector = [[len(blocks[0]), ka], [len(blocks[1]), kb]]
            else:
                call_sector = ((len(blocks[0]), ka), (len(blocks[1]), kb))
            call_sym = "U1U1" if cell.get("symarg") else None
    per_call = bool(cell.get("percall"))
    if call_sector is not None and not per_call:
        kw["sector"] = call_sector
        kw["symmetry"] = call_sym
    # ---- documented rejections
    if dims is not None and sym is not None:
        try:
            HilbertSpace(**kw)
        except NotImplementedError:
            return table.rejected("HilbertSpace:symmetry-on-non-qubit:NotImplementedError")
        return table.bad(P("symmetry on a non-qubit space accepted", entry="HilbertSpace", kind="no-rejection", **sg))
    if sym == "U1U1" and spbits is not None and (not blocks[0] or not blocks[1]) and secform not in ("explicit", "explicit_list"):
        try:
            HilbertSpace(**kw) if not per_call else HilbertSpace(**kw).get_size(call_sector, call_sym)
        except ValueError as ex:
            if isinstance(ex, np.linalg.LinAlgError):
                raise
            return table.rejected("HilbertSpace:U1U1-with-one-species:ValueError")
        return table.bad(P("U1U1 (ka, kb) sector accepted with a single species", entry="HilbertSpace", kind="no-rejection", **sg))
    hs = HilbertSpace(**kw)
    # ---- ordering
    if tuple(hs.sites) != tuple(exp_sites) or hs.nsites != n:
        bad("hilbertspace.order", "sites %r, documented ordering gives %r" % (hs.sites, exp_sites), kind="order")
        return table.bad(probs)
    for s, r in reg_of.items():
        if hs.site_to_reg(s) != r or hs.reg_to_site(r) != s or not hs.has_site(s):
            bad("hilbertspace.order", "site_to_reg / reg_to_site inconsistent at %r" % (s,), kind="maps")
            return table.bad(probs)
    if hs.has_site("nope"):
        bad("hilbertspace.order", "has_site accepts an unknown site", kind="maps")
    # ---- expected configurations in rank order
    if dims is not None:
        rdims = [dmap[s] for s in exp_sites]
        cfgs = R.mixed_radix_configs(rdims)
        want_size = int(np.prod(rdims))
        if [int(v) for v in hs.sizes] != rdims:
            bad("hilbertspace.sizes", "sizes %r expected %r" % (list(hs.sizes), rdims), kind="sizes")
    else:
        cfgs = R.sector_configs(n, sym, ref_sec, blocks)
        want_size = R.sector_size(n, sym, ref_sec, blocks)
    if len(cfgs) != want_size:
        raise AssertionError("reference size")
    ne = 1
    if per_call:
        # sector supplied per call on a space without default sector
        got = hs.get_size(call_sector, call_sym)
        if got != want_size:
            bad("hilbertspace.get_size", "get_size(%r, %r) = %r, brute force / binomial count %d" % (call_sector, call_sym, got, want_size), kind="size")
        snb, symnb = hs.get_sector_numba(call_sector, call_sym)
        exp_nb = {"Z2": (1, [n, ref_sec]), "U1": (2, [n, ref_sec]), "U1U1": (3, None)}[sym]
        if symnb != exp_nb[0] or (exp_nb[1] is not None and [int(v) for v in snb] != [int(v) for v in exp_nb[1]]):
            bad("hilbertspace.get_sector_numba", "get_sector_numba(%r) = %r, %r" % (call_sector, list(snb), symnb), kind="value")
        if sym == "U1U1" and [int(v) for v in snb] != [len(blocks[0]), ref_sec[0], len(blocks[1]), ref_sec[1]]:
            bad("hilbertspace.get_sector_numba", "get_sector_numba(%r) = %r" % (call_sector, list(snb)), kind="value")
        if hs.size != 2**n:
            bad("hilbertspace.size", "default size %r changed by a per-call sector" % hs.size, kind="size")
        if probs:
            return table.bad(probs)
        return table.ok(key=core.digest(core.jsonable(cell)), nontrivial=want_size > 1, outcome="percall %s size=%s" % (sym, "1" if want_size == 1 else ">1"), evals=2)
    if hs.size != want_size or hs.get_size() != want_size:
        bad("hilbertspace.size", "size %r, brute force / combinatorial count %d (sector %r)" % (hs.size, want_size, call_sector), kind="size")
        return table.bad(probs)
    if hs.symmetry != sym or (sym is not None and dims is None and sym != "U1U1" and hs.sector != ref_sec):
        bad("hilbertspace.sector", "symmetry/sector parsed as %r/%r" % (hs.symmetry, hs.sector), kind="parse")
    # ---- every rank
    def scan(hs_, sites_, cfgs_, **via):
        """every rank of hs_ against the brute-force sector (configurations in
        register order of ``sites_``, in documented rank order)."""
        nonlocal ne
        regs_ = {s: r for r, s in enumerate(sites_)}
        member = set(cfgs_)
        seen = {}
        for r, c in enumerate(cfgs_):
            fc = hs_.rank_to_flatconfig(r)
            ne += 1
            if not isinstance(fc, np.ndarray) or fc.dtype != np.uint8 or fc.shape != (n,):
                bad("hilbertspace.rank_to_flatconfig", "rank %d gives %r" % (r, fc), kind="type", **via)
                return
            t = tuple(int(v) for v in fc)
            if t in seen:
                bad("hilbertspace.rank_to_flatconfig", "ranks %d and %d both give %r: not injective" % (seen[t], r, t), kind="not-bijective", **via)
                return
            seen[t] = r
            if t not in member:
                bad("hilbertspace.rank_to_flatconfig", "rank %d gives %r (sites %r) which is not in the sector %r" % (r, t, tuple(sites_), call_sector), kind="not-in-sector", **via)
                return
            if t != tuple(c):
                bad("hilbertspace.rank_to_flatconfig", "rank %d gives %r, documented (lexicographic) order gives %r" % (r, t, c), kind="order", **via)
                return
            rr = hs_.flatconfig_to_rank(np.array(c, dtype=np.uint8))
            if rr != r or not isinstance(rr, (int, np.integer)):
                bad("hilbertspace.flatconfig_to_rank", "config %r -> rank %r (%s), expected %d" % (c, rr, type(rr).__name__, r), kind="inverse", **via)
                return
            conf = hs_.rank_to_config(r)
            if list(conf.keys()) != list(sites_) or any(int(conf[s]) != c[regs_[s]] for s in sites_):
                bad("hilbertspace.rank_to_config", "rank %d -> %r, expected %r" % (r, conf, dict(zip(sites_, c))), kind="config", **via)
                return
            conf2 = {s: int(c[regs_[s]]) for s in reversed(labels)}  # other insertion order
            if hs_.config_to_rank(conf2) != r:
                bad("hilbertspace.config_to_rank", "config %r -> rank %r, expected %d" % (conf2, hs_.config_to_rank(conf2), r), kind="inverse", **via)
                return
            if tuple(int(v) for v in hs_.config_to_flatconfig(conf2)) != tuple(c) or hs_.flatconfig_to_config(fc) != conf:
                bad("hilbertspace.config_maps", "config <-> flatconfig inconsistent for %r" % (conf2,), kind="config", **via)
                return

    scan(hs, exp_sites, cfgs)
    # ---- a re-ordered copy is the SAME space (sites, dims, species, symmetry,
    # sector) in another register order: scanned in full again, with the
    # sector membership decided by species / charge in the NEW order
    nre = 0
    for ro in ([] if probs else _l(cell.get("reorder") or [])):
        o2arg, o2spec = order_spec(ro, labels)
        h2 = hs.with_ordering(o2arg)
        e2 = R.ordered_sites(exp_sites, o2spec)
        via = dict(via="with_ordering")
        if tuple(h2.sites) != tuple(e2) or h2.symmetry != hs.symmetry or h2.sector != hs.sector or h2.size != hs.size or h2.nsites != n:
            bad("hilbertspace.with_ordering", "with_ordering(%s): sites %r expected %r; sector %r vs %r; size %r vs %r" % (ro, h2.sites, e2, h2.sector, hs.sector, h2.size, hs.size), kind="reorder")
            break
        if dims is not None:
            cf2 = R.mixed_radix_configs([dmap[s_] for s_ in e2])
            if [int(v) for v in h2.sizes] != [dmap[s_] for s_ in e2]:
                bad("hilbertspace.sizes", "with_ordering(%s): sizes %r" % (ro, list(h2.sizes)), kind="sizes", **via)
        else:
            bl2 = blocks
            if spmap is not None:
                bl2 = (tuple(r for r, s_ in enumerate(e2) if spmap[s_] == "a"), tuple(r for r, s_ in enumerate(e2) if spmap[s_] == "b"))
            cf2 = R.sector_configs(n, sym, ref_sec, bl2)
        if len(cf2) != want_size:
            raise AssertionError("reference size after reordering")
        scan(h2, e2, cf2, **via)
        nre += 1
        if probs:
            break
        # and once more, back through a second re-ordering
        if ro != "sorted":
            h3 = h2.with_ordering(True)
            e3 = sorted(labels)
            if dims is not None:
                cf3 = R.mixed_radix_configs([dmap[s_] for s_ in e3])
            else:
                bl3 = blocks
                if spmap is not None:
                    bl3 = (tuple(r for r, s_ in enumerate(e3) if spmap[s_] == "a"), tuple(r for r, s_ in enumerate(e3) if spmap[s_] == "b"))
                cf3 = R.sector_configs(n, sym, ref_sec, bl3)
            if tuple(h3.sites) != tuple(e3) or h3.size != want_size:
                bad("hilbertspace.with_ordering", "with_ordering(%s).with_ordering(True): sites %r size %r" % (ro, h3.sites, h3.size), kind="reorder")
                break
            scan(h3, e3, cf3, via="with_ordering-twice")
            if probs:
                break
    if not probs and cell.get("reorder"):
        try:
            hs.set_ordering(None)
            bad("hilbertspace.set_ordering", "ordering mutated in place", kind="reorder")
        except TypeError:
            pass
    if probs:
        return table.bad(probs)
    return table.ok(key=core.digest(core.jsonable(cell)), nontrivial=want_size > 1, outcome="%s size=%s blocked=%d reordered=%d" % (sym or ("mixed" if dims else "none"), "1" if want_size == 1 else "2-8" if want_size <= 8 else ">8", int(bool(getattr(hs, "needs_blocking", False))), nre), evals=ne)


def rp_cell(cell, common):
    """the public dispatchers configcore.rank_to_flatconfig / flatconfig_to_rank
    (sector in the documented numba form)."""
    from quimb.operator import configcore as cc

    n, sym, sec = cell["n"], cell["sym"], cell["sec"]
    if sym is None:
        nb, code, cfgs = [n], 0, R.sector_configs(n)
    elif sym == "Z2":
        nb, code, cfgs = [n, int(sec)], 1, R.sector_configs(n, "Z2", int(sec))
    elif sym == "U1":
        nb, code, cfgs = [n, int(sec)], 2, R.sector_configs(n, "U1", int(sec))
    else:
        na, ka, kb = (int(v) for v in sec)
        nb, code = [na, ka, n - na, kb], 3
        cfgs = R.sector_configs(n, "U1U1", (ka, kb), (tuple(range(na)), tuple(range(na, n))))
    nb = np.array(nb, dtype=np.int64)
    sg = {}
    res = []
    for fn in ("rank_to_flatconfig", "flatconfig_to_rank"):
        okk = True
        for r, c in enumerate(cfgs):
            try:
                if fn == "rank_to_flatconfig":
                    got = tuple(int(v) for v in cc.rank_to_flatconfig(r, nb, code))
                    want = tuple(c)
                else:
                    got = int(cc.flatconfig_to_rank(np.array(c, dtype=np.uint8), nb, code))
                    want = r
            except Exception as ex:
                res.append(table.bad(P("configcore.%s(..., sector=%r, symmetry=%d) raises %s" % (fn, nb.tolist(), code, short(ex)), entry="configcore." + fn, root="dispatcher-does-not-compile" if type(ex).__name__ == "TypingError" else "exception", exc=type(ex).__name__, **sg), sub=fn))
                okk = False
                break
            if got != want:
                res.append(table.bad(P("configcore.%s rank/config %r -> %r, expected %r" % (fn, r, got, want), entry="configcore." + fn, root="value", kind="value", **sg), sub=fn))
                okk = False
                break
        if okk:
            res.append(table.ok(key=(core.digest(core.jsonable(cell)), fn), nontrivial=len(cfgs) > 1, outcome="%s %s ok" % (fn, sym), evals=len(cfgs), sub=fn))
    return res


# --------------------------------------------------------------------------- #
#                       M: operator.models constructors                       #
# --------------------------------------------------------------------------- #

UP, DN = "↑", "↓"


def node_labels(kind, n):
    if kind == "int":
        return list(range(n))
    if kind == "str":
        return ["n%d" % i for i in range(n)]
    return [(i // 2, i % 2) for i in range(n)]


def _edge_val(i, j, base, step):
    return round(base + step * (i + 2 * j), 6)


def m_cell(cell, common):
    import quimb.operator as qop

    level = (common or {}).get("level", "full")
    model = cell["model"]
    sg = dict(model=model)
    if model == "rand":
        return m_rand(cell, sg)
    n = cell["n"]
    nodes = node_labels(cell["nodes"], n)
    E = sorted({(min(i, j), max(i, j)) for i, j in cell["graph"]})
    # edges as supplied: some reversed, one duplicated (documented: treated as one)
    sup_edges = [((nodes[j], nodes[i]) if k % 2 else (nodes[i], nodes[j])) for k, (i, j) in enumerate(E)]
    if cell.get("dup"):
        sup_edges.append((nodes[E[0][1]], nodes[E[0][0]]))
    used = sorted({i for e in E for i in e})
    sites = [nodes[i] for i in used]
    pv = cell["pv"]
    ordn = cell.get("order", "none")
    pd = bool(cell.get("pd"))
    kw = {}
    terms = []
    blocks = None
    spn = ("a", "b")
    if model == "hubbard":
        qsites = [(s, c) for s in (UP, DN) for c in sites]
        if ordn in ("interleaved", "blocked"):
            kw["order"] = ordn
            bylreg = R.ordered_sites(qsites, ("preset", ordn))
        elif ordn == "default":
            bylreg = R.ordered_sites(qsites, ("preset", "interleaved"))
        else:  # callable key: down spins first, coordinates descending
            keyf = lambda s: (s[0] != DN, R.KEYFNS["desc"](s[1]))  # noqa
            kw["order"] = keyf
            bylreg = sorted(qsites, key=keyf)
        blocks = (tuple(r for r, s in enumerate(bylreg) if s[0] == UP), tuple(r for r, s in enumerate(bylreg) if s[0] == DN))
        spn = (UP, DN)
    else:
        if ordn == "none":
            bylreg = list(sites)
        elif ordn == "seq_rev":
            kw["order"] = list(reversed(sites))
            bylreg = list(reversed(sites))
        else:
            kw["order"] = R.KEYFNS["last"]
            bylreg = sorted(sites, key=R.KEYFNS["last"])
    reglab = {s: r for r, s in enumerate(bylreg)}
    N = len(bylreg)
    jw = model != "heis"
    ix = {nodes[i]: i for i in range(n)}
    if model == "heis":
        if pv == "default":
            J = lambda a, b: (1.0, 1.0, 1.0)  # noqa
            B = lambda s: (0.0, 0.0, 0.0)  # noqa
        elif pv == "xxz":
            kw["j"], kw["b"] = (0.8, 0.8, -0.5), 0.3
            J = lambda a, b: (0.8, 0.8, -0.5)  # noqa
            B = lambda s: (0.0, 0.0, 0.3)  # noqa
        elif pv == "xyz":
            kw["j"], kw["b"] = (0.7, -0.4, 1.1), (0.2, -0.3, 0.5)
            J = lambda a, b: (0.7, -0.4, 1.1)  # noqa
            B = lambda s: (0.2, -0.3, 0.5)  # noqa
        else:
            J = lambda a, b: (_edge_val(ix[a], ix[b], 0.5, 0.1), _edge_val(ix[a], ix[b], 0.5, 0.1), _edge_val(ix[a], ix[b], -0.3, 0.2)) if (ix[a] + ix[b]) % 2 else (_edge_val(ix[a], ix[b], 0.4, 0.1), _edge_val(ix[a], ix[b], -0.6, 0.1), 0.9)  # noqa
            B = lambda s: (0.1 * ix[s], 0.0, 0.2 + 0.1 * ix[s])  # noqa
            if pv == "dict":
                kw["j"] = {((nodes[j], nodes[i]) if k % 2 == 0 else (nodes[i], nodes[j])): J(nodes[i], nodes[j]) for k, (i, j) in enumerate(E)}
                kw["b"] = {s: B(s) for s in sites}
            else:
                kw["j"], kw["b"] = J, B
        for i, j in E:
            a, b_ = nodes[i], nodes[j]
            jx, jy, jz = J(a, b_)
            terms += [(jx, [("sx", a), ("sx", b_)]), (jy, [("sy", a), ("sy", b_)]), (jz, [("sz", a), ("sz", b_)])]
        for s in sites:
            bx, by, bz = B(s)
            terms += [(-bx, [("sx", s)]), (-by, [("sy", s)]), (-bz, [("sz", s)])]
        fn = qop.heisenberg_from_edges
    elif model == "spinless":
        if pv == "default":
            t = lambda a, b: 1.0  # noqa
            V = lambda a, b: 0.0  # noqa
            mu = lambda s: 0.0  # noqa
            dl = lambda a, b: 0.0  # noqa
        elif pv == "full":
            kw.update(t=0.9, V=0.6, mu=0.25, delta=0.35)
            t = lambda a, b: 0.9  # noqa
            V = lambda a, b: 0.6  # noqa
            mu = lambda s: 0.25  # noqa
            dl = lambda a, b: 0.35  # noqa
        elif pv == "u1":
            kw.update(t=0.9, V=0.6, mu=0.25)
            t = lambda a, b: 0.9  # noqa
            V = lambda a, b: 0.6  # noqa
            mu = lambda s: 0.25  # noqa
            dl = lambda a, b: 0.0  # noqa
        else:
            t = lambda a, b: _edge_val(ix[a], ix[b], 0.6, 0.1)  # noqa
            V = lambda a, b: _edge_val(ix[a], ix[b], 0.3, -0.05)  # noqa
            mu = lambda s: 0.1 + 0.2 * ix[s]  # noqa
            dl = lambda a, b: _edge_val(ix[a], ix[b], 0.2, 0.07)  # noqa
            if pv == "dict":
                ek = lambda k, i, j: (nodes[j], nodes[i]) if k % 2 else (nodes[i], nodes[j])  # noqa
                kw["t"] = {ek(k, i, j): t(nodes[i], nodes[j]) for k, (i, j) in enumerate(E)}
                kw["V"] = {ek(k + 1, i, j): V(nodes[i], nodes[j]) for k, (i, j) in enumerate(E)}
                kw["delta"] = {ek(k, i, j): dl(nodes[i], nodes[j]) for k, (i, j) in enumerate(E)}
                kw["mu"] = {s: mu(s) for s in sites}
            else:
                kw.update(t=t, V=V, mu=mu, delta=dl)
        for i, j in E:
            a, b_ = nodes[i], nodes[j]
            terms += [(-t(a, b_), [("+", a), ("-", b_)]), (-t(a, b_), [("+", b_), ("-", a)]), (V(a, b_), [("n", a), ("n", b_)]), (dl(a, b_), [("+", a), ("+", b_)]), (dl(a, b_), [("-", b_), ("-", a)])]
        for s in sites:
            terms.append((-mu(s), [("n", s)]))
        kw["pauli_decompose"] = pd
        fn = qop.fermi_hubbard_spinless_from_edges
    else:
        if pv == "default":
            t = lambda a, b: (1.0, 1.0)  # noqa
            U = lambda s: 1.0  # noqa
            mu = lambda s: (0.0, 0.0)  # noqa
        elif pv == "full":
            kw.update(t=0.9, U=1.7, mu=0.3)
            t = lambda a, b: (0.9, 0.9)  # noqa
            U = lambda s: 1.7  # noqa
            mu = lambda s: (0.3, 0.3)  # noqa
        elif pv == "spin":
            kw.update(t=(0.9, 0.5), U=1.7, mu=(0.3, -0.2))
            t = lambda a, b: (0.9, 0.5)  # noqa
            U = lambda s: 1.7  # noqa
            mu = lambda s: (0.3, -0.2)  # noqa
        else:
            t = lambda a, b: (_edge_val(ix[a], ix[b], 0.6, 0.1), _edge_val(ix[a], ix[b], 0.4, 0.15))  # noqa
            U = lambda s: 1.0 + 0.3 * ix[s]  # noqa
            mu = lambda s: (0.1 + 0.2 * ix[s], 0.05 * ix[s])  # noqa
            if pv == "dict":
                kw["t"] = {((nodes[j], nodes[i]) if k % 2 else (nodes[i], nodes[j])): t(nodes[i], nodes[j]) for k, (i, j) in enumerate(E)}
                kw["U"] = {s: U(s) for s in sites}
                kw["mu"] = {s: mu(s) for s in sites}
            else:
                kw.update(t=t, U=U, mu=mu)
        for i, j in E:
            a, b_ = nodes[i], nodes[j]
            tu, td = t(a, b_)
            for sp, tt in ((UP, tu), (DN, td)):
                terms += [(-tt, [("+", (sp, a)), ("-", (sp, b_))]), (-tt, [("+", (sp, b_)), ("-", (sp, a))])]
        for s in sites:
            mu_u, mu_d = mu(s)
            terms += [(U(s), [("n", (UP, s)), ("n", (DN, s))]), (-mu_u, [("n", (UP, s))]), (-mu_d, [("n", (DN, s))])]
        kw["pauli_decompose"] = pd
        fn = qop.fermi_hubbard_from_edges
    Href = R.operator(terms, reglab, N, jw)
    try:
        b = fn(sup_edges, **kw)
        p2, ne, info = check_reps(b, Href, N, reglab, sg, ssp=False, level=level, key=("m", N))
        probs = list(p2)
        nsec = 0
        if not p2:
            T = info["T"]
            unsafe = []
            if True:
                for kind in ("Z2", "U1"):
                    if R.conserved(T, charges(N, kind)) and term_leaves_sector(b, reglab, N, kind):
                        unsafe.append(kind)
                if blocks and R.conserved(T, charges(N, "U1U1", blocks)) and term_leaves_sector(b, reglab, N, "U1U1", blocks):
                    unsafe.append("U1U1")
            if model == "hubbard":
                p3, ne3, nsec = check_sectors(b, T, N, reglab, sg, key=("m",), species_blocks=blocks, unsafe_kinds=tuple(unsafe), level=level, spnames=spn)
            elif N <= 4:
                p3, ne3, nsec = check_sectors(b, T, N, reglab, sg, key=("m",), unsafe_kinds=tuple(unsafe), level=level)
            else:
                p3, ne3, nsec = [], 0, 0
            probs += p3
            ne += ne3
            # the constructor's own sector= / symmetry= arguments (default sector)
            if not p3 and not unsafe:
                secs = sector_list(N, T, blocks if model == "hubbard" else None, spn)
                for sym in ("Z2", "U1", "U1U1"):
                    lst = [s_ for s_ in secs if s_[0] == sym]
                    if not lst:
                        continue
                    _, sec, bl, forms = lst[len(lst) // 2]
                    call = forms[0] if sym != "U1U1" or model == "hubbard" else forms[-1]
                    bs = fn(sup_edges, **dict(kw, **call))
                    idx = [R.config_index(c) for c in R.sector_configs(N, sym, sec, bl)]
                    ne += 1
                    if bs.hilbert_space.size != len(idx) or not R.same(bs.build_dense(), T[np.ix_(idx, idx)], TOL):
                        probs.append(P("%s(..., %r): default-sector matrix differs from P^T H P" % (fn.__name__, call), entry="models.sector", symmetry=sym, **sg))
    except Exception as ex:
        if isinstance(ex, AssertionError):
            raise
        return table.bad(P("unexpected %s in %s(%r, **%r)" % (short(ex), fn.__name__, sup_edges, sorted(kw)), entry="models.exception", exc=type(ex).__name__, root="exception", **sg))
    if probs:
        return table.bad(probs)
    return table.ok(key=core.digest(core.jsonable(cell)), nontrivial=True, outcome="%s N=%d nsec=%d herm=%d real=%d" % (model, N, min(nsec, 9), info["herm"], info["real"]), evals=ne)


def m_rand(cell, sg):
    import quimb.operator as qop

    n, m, k, kmin, seed, ops = cell["n"], cell["m"], cell["k"], cell.get("kmin"), cell["seed"], cell.get("ops")
    kw = {} if ops is None else {"ops": ops}
    alpha = set("XYZxyz") if ops is None else set(ops)  # documented default family: X, Y, Z
    try:
        b = qop.rand_operator(n, m, k, kmin=kmin, seed=seed, **kw)
    except Exception as ex:
        return table.bad(P("rand_operator(%d, %d, %d, kmin=%r, seed=%d%s) raises %s" % (n, m, k, kmin, seed, "" if ops is None else ", ops=%r" % ops, short(ex)), entry="rand_operator", root="default-ops-not-in-builder-alphabet" if ops is None else "exception", exc=type(ex).__name__, **sg))
    raw = b.terms_raw
    probs = []
    lo = k if kmin is None else kmin
    if b.nsites != n or len(raw) > m:
        probs.append(P("rand_operator: nsites %r / %d raw terms for n=%d, m=%d" % (b.nsites, len(raw), n, m), entry="rand_operator", kind="shape", **sg))
    for c, opsl in raw:
        regs = [s for _, s in opsl]
        if not (lo <= len(opsl) <= k) or len(set(regs)) != len(regs) or any(o not in alpha for o, _ in opsl) or any(not (0 <= s < n) for s in regs):
            probs.append(P("rand_operator: term %r outside the requested family" % (opsl,), entry="rand_operator", kind="family", **sg))
            break
    reglab = {i: i for i in range(n)}
    Href = R.operator([(c, list(o)) for c, o in raw], reglab, n, False)
    p2, ne, info = check_reps(b, Href, n, reglab, sg, level="lite", key=("rand", n))
    probs += p2
    if probs:
        return table.bad(probs)
    return table.ok(key=core.digest(core.jsonable(cell)), nontrivial=len(raw) > 0, outcome="rand nt=%d" % min(len(raw), 4), evals=ne)


# --------------------------------------------------------------------------- #
#        H: spin-chain MPO / LocalHam1D builders vs matrix-side ham_*         #
# --------------------------------------------------------------------------- #


def localham_dense(lh, L, d):
    dims = [d] * L
    tot = np.zeros((d**L, d**L), dtype=complex)
    for (a, b), h in lh.terms.items():
        tot = tot + R.embed_dims(np.asarray(h), dims, [a, b])
    return tot


def h_cell(cell, common):
    try:
        return _h_cell(cell, common)
    except AssertionError:
        raise
    except Exception as ex:
        return table.bad(P("%s chain L=%r cyclic=%r S=%r [%s]: unexpected %s" % (cell["model"], cell["L"], cell["cyclic"], cell["S"], cell["pv"], short(ex)), entry="chain.exception", model=cell["model"], exc=type(ex).__name__))


def _h_cell(cell, common):
    import scipy.sparse as sp

    import quimb as qu
    import quimb.tensor as qtn
    from quimb.tensor import tensor_builder as tb

    model, L, cyc, S, pv = cell["model"], cell["L"], bool(cell["cyclic"]), cell["S"], cell["pv"]
    d = int(round(2 * S + 1))
    sg = dict(model=model)
    probs = []
    ne = 0
    reps = {}
    Href = None
    root = None

    def three(j):
        try:
            jx, jy, jz = j
        except TypeError:
            jx = jy = jz = j
        return jx, jy, jz

    if model == "ising":
        j, bx = {"default": (1.0, 0.0), "a": (0.7, 0.4), "b": (-1.2, 0.3)}[pv]
        kw = {} if pv == "default" else dict(j=j, bx=bx)
        reps["MPO_ham_ising"] = qtn.MPO_ham_ising(L, S=S, cyclic=cyc, **kw).to_dense()
        reps["ham_1d_ising"] = localham_dense(qtn.ham_1d_ising(L, S=S, cyclic=cyc, **kw), L, d) if (L > 1) else None
        if S == 0.5:
            reps["ham_ising"] = qu.ham_ising(L, jz=j, bx=bx, cyclic=cyc)
            reps["ham_ising[sparse]"] = qu.ham_ising(L, jz=j, bx=bx, cyclic=cyc, sparse=True)
        Href = R.chain(L, d, one=lambda i: -R.field(S, bx, 0, 0), two=lambda i: R.heis_bond(S, 0, 0, j), cyclic=cyc)
    elif model == "XY":
        j, bz = {"default": (1.0, 0.0), "iso": (0.8, 0.3), "aniso": ((0.9, -0.4), 0.2)}[pv]
        kw = {} if pv == "default" else dict(j=j, bz=bz)
        try:
            jx, jy = j
        except TypeError:
            jx = jy = j
        reps["MPO_ham_XY"] = qtn.MPO_ham_XY(L, S=S, cyclic=cyc, **kw).to_dense()
        reps["ham_1d_XY"] = localham_dense(qtn.ham_1d_XY(L, S=S, cyclic=cyc, **kw), L, d)
        if S == 0.5:
            if jx == jy:
                reps["ham_XY"] = qu.ham_XY(L, jx, bz, cyclic=cyc)
            reps["ham_heis(xy)"] = qu.ham_heis(L, j=(jx, jy, 0.0), b=bz, cyclic=cyc, sparse=True, stype="csc")
        Href = R.chain(L, d, one=lambda i: -R.field(S, 0, 0, bz), two=lambda i: R.heis_bond(S, jx, jy, 0), cyclic=cyc)
    elif model == "heis":
        j, bz = {"default": (1.0, 0.0), "iso": (0.7, 0.25), "xyz": ((0.7, -0.4, 1.1), -0.3)}[pv]
        kw = {} if pv == "default" else dict(j=j, bz=bz)
        jx, jy, jz = three(j)
        reps["MPO_ham_heis"] = qtn.MPO_ham_heis(L, S=S, cyclic=cyc, **kw).to_dense()
        reps["ham_1d_heis"] = localham_dense(qtn.ham_1d_heis(L, S=S, cyclic=cyc, **kw), L, d)
        if S == 0.5:
            reps["ham_heis"] = qu.ham_heis(L, j=j, b=bz, cyclic=cyc)
            reps["ham_heis[coo]"] = qu.ham_heis(L, j=j, b=bz, cyclic=cyc, sparse=True, stype="coo")
        Href = R.chain(L, d, one=lambda i: -R.field(S, 0, 0, bz), two=lambda i: R.heis_bond(S, jx, jy, jz), cyclic=cyc)
    elif model == "heis3b":
        # matrix side only: field in all three directions
        j, b = (0.7, -0.4, 1.1), (0.2, -0.3, 0.5)
        reps["ham_heis"] = qu.ham_heis(L, j=j, b=b, cyclic=cyc)
        reps["ham_heis[csr]"] = qu.ham_heis(L, j=j, b=b, cyclic=cyc, sparse=True)
        Href = R.chain(L, 2, one=lambda i: -R.field(0.5, *b), two=lambda i: R.heis_bond(0.5, *j), cyclic=cyc)
    elif model == "XXZ":
        delta, jxy = {"a": (0.6, 1.0), "b": (-0.8, 0.5)}[pv]
        reps["MPO_ham_XXZ"] = tb.MPO_ham_XXZ(L, delta, jxy, S=S, cyclic=cyc).to_dense()
        reps["ham_1d_XXZ"] = localham_dense(tb.ham_1d_XXZ(L, delta, jxy, S=S, cyclic=cyc), L, d)
        if S == 0.5:
            reps["ham_XXZ"] = qu.ham_XXZ(L, delta, jxy, cyclic=cyc)
        Href = R.chain(L, d, two=lambda i: R.heis_bond(S, jxy, jxy, delta), cyclic=cyc)
    elif model == "blbq":
        theta = {"t0": 0.0, "t1": 0.7, "t2": 2.2}[pv]
        reps["MPO_ham_bilinear_biquadratic"] = tb.MPO_ham_bilinear_biquadratic(L, theta, S=S, cyclic=cyc, compress=False).to_dense()
        reps["MPO_ham_bilinear_biquadratic[compress]"] = tb.MPO_ham_bilinear_biquadratic(L, theta, S=S, cyclic=cyc).to_dense()
        reps["ham_1d_bilinear_biquadratic"] = localham_dense(tb.ham_1d_bilinear_biquadratic(L, theta, S=S, cyclic=cyc), L, d)
        Href = R.chain(L, d, two=lambda i: R.blbq_bond(S, theta), cyclic=cyc)
        root = "blbq-biquadratic-term-is-constant" if abs(np.sin(theta)) > 1e-9 else None
    elif model == "mbl":
        dh, seed = 0.8, 7
        dist, dim, j = {"s1": ("s", 1, 1.0), "s2": ("s", 2, 1.0), "s3": ("s", 3, (0.7, -0.4, 1.1)), "g1": ("g", 1, 1.0), "g3": ("g", 3, 1.0), "qp": ("qp", 1, (0.5, 0.5, 1.0)), "vec": ("s", 1, 1.0)}[pv]
        if pv == "vec":
            dh = (0.3, 0.0, 0.9)
        kw = dict(j=j, seed=seed, dh_dist=dist, dh_dim=dim, cyclic=cyc)
        reps["MPO_ham_mbl"] = qtn.MPO_ham_mbl(L, dh, S=S, **kw).to_dense()
        reps["ham_1d_mbl"] = localham_dense(qtn.ham_1d_mbl(L, dh, S=S, **kw), L, d)
        if S == 0.5:
            reps["ham_mbl"] = qu.ham_mbl(L, dh, **kw)
            reps["ham_mbl[sparse]"] = qu.ham_mbl(L, dh, sparse=True, stype="coo", **kw)
    elif model == "j1j2":
        j1, j2, bz = {"default": (1.0, 0.5, 0.0), "a": (0.8, -0.6, 0.3)}[pv]
        kw = {} if pv == "default" else dict(j1=j1, j2=j2, bz=bz)
        reps["ham_j1j2"] = qu.ham_j1j2(L, cyclic=cyc, **kw)
        reps["ham_j1j2[sparse]"] = qu.ham_j1j2(L, cyclic=cyc, sparse=True, **kw)
        dims = [2] * L
        Href = np.zeros((2**L, 2**L), dtype=complex)
        hb = R.heis_bond(0.5, 1, 1, 1)
        for i in range(L):
            for dist_, jj in ((1, j1), (2, j2)):
                k = i + dist_
                if k >= L and not cyc:
                    continue
                Href = Href + jj * R.embed_dims(hb, dims, [i, k % L])
            Href = Href + bz * R.embed_dims(R.field(0.5, 0, 0, 1), dims, [i])
    elif model == "hardcore":
        t, V, mu = {"default": (0.5, 1.0, 1.0), "a": (0.7, -0.4, 0.3)}[pv]
        kw = {} if pv == "default" else dict(t=t, V=V, mu=mu)
        reps["ham_hubbard_hardcore"] = qu.ham_hubbard_hardcore(L, cyclic=cyc, **kw)
        reps["ham_hubbard_hardcore[sparse]"] = qu.ham_hubbard_hardcore(L, cyclic=cyc, sparse=True, **kw)
        terms = []
        for i in range(L if cyc else L - 1):
            a, b_ = i, (i + 1) % L
            terms += [(-t, [("+", a), ("-", b_)]), (-t, [("-", a), ("+", b_)]), (V, [("n", a), ("n", b_)])]
        terms += [(-mu, [("n", i)]) for i in range(L)]
        Href = R.operator(terms, {i: i for i in range(L)}, L, False)
        # the same model through the symbolic builder
        from quimb.operator import SparseOperatorBuilder

        reps["SparseOperatorBuilder"] = SparseOperatorBuilder([(c, *ops) for c, ops in terms]).build_dense()
    elif model == "heis2d":
        n_, m_ = L
        j = {"default": 1.0, "xyz": (0.7, -0.4, 1.1)}[pv]
        jx, jy, jz = three(j)
        reps["ham_heis_2D"] = qu.ham_heis_2D(n_, m_, j=j)
        reps["ham_heis_2D[sparse]"] = qu.ham_heis_2D(n_, m_, j=j, sparse=True)
        terms = []
        idx = lambda a, b: a * m_ + b  # noqa
        for a in range(n_):
            for b_ in range(m_):
                for a2, b2 in ((a + 1, b_), (a, b_ + 1)):
                    if a2 < n_ and b2 < m_:
                        terms += [(jx, [("sx", idx(a, b_)), ("sx", idx(a2, b2))]), (jy, [("sy", idx(a, b_)), ("sy", idx(a2, b2))]), (jz, [("sz", idx(a, b_)), ("sz", idx(a2, b2))])]
        NN = n_ * m_
        Href = R.operator(terms, {i: i for i in range(NN)}, NN, False)
        from quimb.operator import heisenberg_from_edges

        edges = [((a, b_), (a2, b2)) for a in range(n_) for b_ in range(m_) for a2, b2 in ((a + 1, b_), (a, b_ + 1)) if a2 < n_ and b2 < m_]
        reps["heisenberg_from_edges"] = heisenberg_from_edges(edges, j=j).build_dense()
    else:
        raise KeyError(model)

    dense = {}
    for name, M in reps.items():
        if M is None:
            continue
        if sp.issparse(M):
            want_fmt = {"[coo]": "coo", "[csr]": "csr", "[sparse]": None}
            for tag, f in want_fmt.items():
                if name.endswith(tag) and f and M.format != f:
                    probs.append(P("%s has sparse format %s" % (name, M.format), entry=name.split("[")[0], kind="format", **sg))
            M = M.toarray()
        dense[name] = np.asarray(M)
    names = list(dense)
    if model == "mbl":
        # same seed -> same model: all representations agree; and the model is
        # Heisenberg + single-site fields of the documented support / strength
        first = dense[names[0]]
        for nm in names[1:]:
            ne += 1
            if not R.same(dense[nm], first, TOL):
                probs.append(P("%s and %s (same seed) differ: rel.err %.3g" % (names[0], nm, R.err(dense[nm], first)), entry=nm.split("[")[0], kind="agree", **sg))
        if S == 0.5 and not probs:
            jx, jy, jz = three(j)
            Hh = R.chain(L, 2, two=lambda i: R.heis_bond(0.5, jx, jy, jz), cyclic=cyc)
            h, res = R.single_site_fields(first - Hh, L)
            ne += 1
            act = {"s1": [0, 0, 1], "s2": [1, 1, 0], "s3": [1, 1, 1], "g1": [0, 0, 1], "g3": [1, 1, 1], "qp": [0, 0, 1], "vec": [1, 0, 1]}[pv]
            amp = [0.3, 0.0, 0.9] if pv == "vec" else [0.8] * 3
            if res > 1e-9:
                probs.append(P("MBL hamiltonian minus the Heisenberg part is not a sum of single-site fields (residual %.3g)" % res, entry=names[0], kind="structure", **sg))
            else:
                for a in range(3):
                    col = np.abs(h[:, a])
                    if (not act[a] and col.max() > 1e-9) or (act[a] and dist != "g" and col.max() > amp[a] + 1e-9) or (act[a] and amp[a] > 0 and col.max() < 1e-6):
                        probs.append(P("MBL random field direction %d: |h| = %s (dh=%r, dist=%s, dim=%s)" % (a, np.round(col, 4).tolist(), dh, dist, dim), entry=names[0], kind="field", **sg))
    else:
        for nm in names:
            ne += 1
            if not R.same(dense[nm], Href, TOL):
                probs.append(P("%s differs from its documented Hamiltonian: rel.err %.3g" % (nm, R.err(dense[nm], Href)), entry=nm.split("[")[0], root=root or "value", kind="value", **sg))
        # agreement between representations is asserted separately (a shared
        # wrong model must not hide a disagreement)
        for nm in names[1:]:
            ne += 1
            if not R.same(dense[nm], dense[names[0]], TOL):
                probs.append(P("%s and %s disagree: rel.err %.3g" % (names[0], nm, R.err(dense[nm], dense[names[0]])), entry=nm.split("[")[0], root="agree", kind="agree", **sg))
    if probs:
        return table.bad(probs)
    return table.ok(key=core.digest(core.jsonable(cell)), nontrivial=True, outcome="%s S=%s cyc=%d reps=%d" % (model, S, cyc, len(names)), evals=ne)


def sh_cell(cell, common):
    try:
        return _sh_cell(cell, common)
    except AssertionError:
        raise
    except Exception as ex:
        return table.bad(P("SpinHam1D %r: unexpected %s" % (dict(cell), short(ex)), entry="SpinHam1D.exception", exc=type(ex).__name__))


def _sh_cell(cell, common):
    """SpinHam1D with default + site-specific terms: MPO, sparse matrix and
    LocalHam1D against the documented meaning (site specific terms override
    the default ones)."""
    import scipy.sparse as sp

    import quimb.tensor as qtn

    L, cyc, S = cell["L"], bool(cell["cyclic"]), cell["S"]
    d = int(round(2 * S + 1))
    ops = R.spin_named(S)
    cs = coeffs("cplx" if cell.get("cplx") else "real", 12, ("sh",))
    ci = iter(cs)
    D2 = {"none": [], "xy": [("X", "Y")], "hop": [("+", "-"), ("-", "+")], "three": [("Z", "Z"), ("X", "X"), ("Y", "Z")]}
    D1 = {"none": [], "z": [("Z",)], "xy": [("X",), ("Y",)]}
    d2 = [(next(ci), *t) for t in D2[cell["d2"]]]
    d1 = [(next(ci), *t) for t in D1[cell["d1"]]]
    v1 = {}
    if cell["v1"] == "first":
        v1[0] = [(next(ci), "X")]
    elif cell["v1"] == "off-last":
        v1[L - 1] = [(0.0, "I")]
    v2 = {}
    if cell["v2"] == "first" and L >= 2:
        v2[(0, 1)] = [(next(ci), "Z", "X")]
    elif cell["v2"] == "last3" and L >= 3:
        v2[(L - 2, L - 1)] = [(next(ci), "X", "X"), (next(ci), "Y", "Y"), (next(ci), "+", "Z")]
    H = qtn.SpinHam1D(S=S, cyclic=cyc)
    for t in d2:
        H += t
    for k, t in enumerate(d1):
        if k % 2:
            H -= (-t[0], *t[1:])
        else:
            H += t
    for i, ts in v1.items():
        for t in ts:
            H[i] += t
    for ij, ts in v2.items():
        for t in ts:
            H[ij] += t

    def one(i):
        ts = v1.get(i, d1)
        return sum((c * ops[a] for c, a in ts), np.zeros((d, d), dtype=complex))

    def two(i):
        ts = v2.get((i, i + 1), d2) if i + 1 < L else d2
        return sum((c * np.kron(ops[a], ops[b]) for c, a, b in ts), np.zeros((d * d, d * d), dtype=complex))

    Href = R.chain(L, d, one=one, two=two, cyclic=cyc)
    sg = {}
    probs = []
    ne = 0
    res = {}
    res["build_mpo"] = H.build_mpo(L).to_dense()
    if d2 or d1 or v1 or v2:
        M = H.build_sparse(L)
        if sp.issparse(M):
            res["build_sparse"] = M.toarray()
        elif np.ndim(M) == 2:
            res["build_sparse"] = np.asarray(M)
        M2 = H.build_sparse(L, stype="coo") if (d2 or d1) else None
        if M2 is not None and sp.issparse(M2):
            res["build_sparse[coo]"] = M2.toarray()
    rej = None
    try:
        if not d2:
            # without a default two-site term LocalHam1D has no bond to absorb
            # one-site terms into (documented restriction of LocalHamGen)
            raise ValueError("no default two-site term")
        lh = H.build_local_ham(L)
        res["build_local_ham"] = localham_dense(lh, L, d)
    except (ValueError, TypeError) as ex:
        if isinstance(ex, np.linalg.LinAlgError):
            raise
        if d2 and L >= 2:  # a default two-site term covers every site
            probs.append(P("build_local_ham raises %s" % short(ex), entry="SpinHam1D.build_local_ham", kind="exception", **sg))
        else:
            rej = "SpinHam1D.build_local_ham:one-site-term-not-covered"
    for nm, M in res.items():
        ne += 1
        if not R.same(M, Href, TOL):
            root = "build-sparse-cyclic-bond-index-out-of-range" if (nm.startswith("build_sparse") and cyc and d2) else "value"
            probs.append(P("SpinHam1D.%s differs from the documented sum of terms: rel.err %.3g (L=%d cyclic=%s S=%s d2=%s d1=%s v1=%s v2=%s)" % (nm, R.err(M, Href), L, cyc, S, cell["d2"], cell["d1"], cell["v1"], cell["v2"]), entry="SpinHam1D." + nm.split("[")[0], root=root, kind="value", **sg))
    if probs:
        return table.bad(probs)
    out = [table.ok(key=core.digest(core.jsonable(cell)), nontrivial=bool(d2 or d1 or v1 or v2), outcome="SH reps=%d var=%d%d" % (len(res), bool(v1), bool(v2)), evals=ne)]
    if rej:
        out.append(table.rejected(rej, sub="lh"))
    return out


# --------------------------------------------------------------------------- #
#                               enumerations                                  #
# --------------------------------------------------------------------------- #

A7 = ("x", "y", "z", "+", "-", "n", "sn")
A5 = ("x", "y", "+", "-", "n")
A13 = R.ALL_OPS
TFS = ("none", "jw", "pd", "pdzx", "jw+pd", "jw+pdzx")
TMODE = {"none": "ctor", "jw": "ctor", "pd": "ctor", "pdzx": "toggle", "jw+pd": "toggle", "jw+pdzx": "ctor"}


def single_terms(n, k, alpha):
    for ops in itertools.product(alpha, repeat=k):
        for sites in itertools.permutations(range(n), k):
            yield [[o, s] for o, s in zip(ops, sites)]


def menu(n):
    """terms that share left / right operator substrings in every way the MPO
    state machine distinguishes, plus unordered and long-range ones."""
    M = []
    pairs = [(i, j) for i in range(n) for j in range(i + 1, n)]
    for i, j in pairs:
        M.append([["z", i], ["z", j]])
        M.append([["+", i], ["-", j]])
        M.append([["-", i], ["+", j]])
    for i, j in pairs[: n - 1 + 1]:
        M.append([["x", j], ["x", i]])  # written in descending site order
    M.append([["n", 0], ["n", 1]])
    M.append([["+", 0], ["+", 1]])
    M.append([["-", 1], ["-", 0]])
    M.append([["y", n - 1], ["x", 0]])
    for i in range(n):
        M.append([["x", i]])
        M.append([["n", i]])
    M.append([["sn", n - 1]])
    M.append([["y", 1]])
    M.append([["x", 0], ["y", 1], ["z", 2]])
    M.append([["z", 0], ["z", 1], ["z", 2]])
    M.append([["+", 0], ["z", 1], ["-", 2]])
    M.append([["-", 2], ["n", 1], ["+", 0]])
    if n >= 4:
        M.append([["z", 0], ["z", 1], ["z", 2], ["z", 3]])
        M.append([["x", 3], ["y", 2], ["x", 1]])
        M.append([["+", 3], ["-", 0], ["n", 2]])
    out = []
    for t in M:
        if t not in out:
            out.append(t)
    return out


def special_lists(n):
    """(name, term list, coefficient pattern, coefficient relations)"""
    t_hop = [["+", 0], ["-", 1]]
    t_hop_r = [["-", 1], ["+", 0]]
    t_hc = [["+", 1], ["-", 0]]
    L = [
        ("same-raw-term-twice", [t_hop, t_hop], "cplx", None),
        ("reordered-duplicate", [[["x", 0], ["z", 1]], [["z", 1], ["x", 0]]], "cplx", None),
        ("fermionic-reorder-equal", [t_hop, t_hop_r], "one", None),
        ("fermionic-reorder", [t_hop, t_hop_r], "cplx", None),
        ("exact-cancel", [[["x", 0], ["z", 1]], [["z", 1], ["x", 0]]], "cplx", [None, "neg"]),
        ("exact-cancel-one-of-two", [[["x", 0], ["z", 1]], [["z", 1], ["x", 0]], [["n", 1]]], "cplx", [None, "neg", None]),
        ("identity-zz", [[["z", 0], ["z", 0]]], "cplx", None),
        ("identity-plus-bond", [[["x", 0], ["x", 0]], [["z", 1], ["z", 0]]], "cplx", None),
        ("identity-n-plus-h", [[["+", 0], ["-", 0]], [["-", 0], ["+", 0]], [["x", 1]]], "half", None),
        ("null-pp", [[["+", 0], ["+", 0]], [["x", 1]]], "cplx", None),
        ("null-nh-only", [[["n", 0], ["h", 0], ["x", 1]]], "cplx", None),
        ("hermitian-hop", [t_hop, t_hc], "cplx", [None, "conj"]),
        ("hermitian-pairing", [[["+", 0], ["+", 1]], [["-", 1], ["-", 0]]], "cplx", [None, "conj"]),
        ("hermitian-hop-distant", [[["+", 0], ["-", n - 1]], [["+", n - 1], ["-", 0]], [["n", 0], ["n", n - 1]]], "cplx", [None, "conj", None]),
        ("number-via-product", [[["+", 0], ["z", 1], ["z", 1], ["-", 0]]], "cplx", None),
        ("all-equal-coeff-chain", [[["z", i], ["z", i + 1]] for i in range(n - 1)] + [[["x", i]] for i in range(n)], "half", None),
        ("heisenberg-chain", [[[a, i], [a, i + 1]] for i in range(n - 1) for a in ("sx", "sy", "sz")] + [[["sz", i]] for i in range(n)], "real", None),
        ("hubbard-like-chain", [t for i in range(n - 1) for t in ([["+", i], ["-", i + 1]], [["+", i + 1], ["-", i]], [["n", i], ["n", i + 1]])] + [[["n", i]] for i in range(n)], "real", ["same" if k % 3 == 1 else None for k in range(3 * (n - 1))] + [None] * n),
        ("all-to-all-zz", [[["z", i], ["z", j]] for i in range(n) for j in range(i + 1, n)], "cplx", None),
        ("long-range-hop-ring", [t for i in range(n) for t in ([["+", i], ["-", (i + 1) % n]], [["-", i], ["+", (i + 1) % n]])], "half", None),
        ("u1-conserved-only-in-sum", [[["x", 0], ["x", 1]], [["+", 0], ["+", 1]], [["-", 0], ["-", 1]]], "one", [None, "neg", "same"]),
        ("h-and-sn", [[["h", 0], ["sn", 1]], [["h", 1]], [[ZX, 0], ["sx", n - 1]]], "cplx", None),
    ]
    return L


def species_lists():
    """n = 4, abstract sites 0,1 species a and 2,3 species b (interleaved
    registers a0 b0 a1 b1): lists conserving N_a and N_b separately."""
    hop_a = [[["+", 0], ["-", 1]], [["+", 1], ["-", 0]]]
    hop_b = [[["+", 2], ["-", 3]], [["+", 3], ["-", 2]]]
    inter = [[["n", 0], ["n", 2]], [["n", 1], ["n", 3]]]
    return [
        ("hop-a", hop_a, "real", [None, "same"]),
        ("hop-a-b", hop_a + hop_b, "real", [None, "same", None, "same"]),
        ("hubbard-2-sites", hop_a + hop_b + inter + [[["n", i]] for i in range(4)], "real", [None, "same", None, "same"] + [None] * 6),
        ("hubbard-complex-hop", hop_a + hop_b + inter, "cplx", [None, "conj", None, "same", None, None]),
        ("exchange-ab", [[["+", 0], ["-", 1], ["+", 3], ["-", 2]], [["+", 1], ["-", 0], ["+", 2], ["-", 3]], [["z", 0], ["z", 3]]], "real", [None, "same", None]),
    ]


def connected_graphs_small(nmax):
    """all connected simple graphs on 2..nmax nodes up to isomorphism, written
    out (brute force over labelled graphs, canonical = smallest edge list)."""
    out = []
    for n in range(2, nmax + 1):
        pairs = list(itertools.combinations(range(n), 2))
        reps = set()
        for k in range(n - 1, len(pairs) + 1):
            for es in itertools.combinations(pairs, k):
                # connected?
                comp = {0}
                grow = True
                while grow:
                    grow = False
                    for a, b in es:
                        if (a in comp) != (b in comp):
                            comp |= {a, b}
                            grow = True
                if len(comp) != n:
                    continue
                canon = min(tuple(sorted((min(p[a], p[b]), max(p[a], p[b])) for a, b in es)) for p in itertools.permutations(range(n)))
                reps.add(canon)
        out += [(n, [list(e) for e in g]) for g in sorted(reps)]
    return out


REORDERS = ("sorted", "seq_rev", "seq_shuf", "key_desc", "key_last", "none")


def rank_cells(nmax, nmax_species, nmax_mixed, quick):
    cells = []
    sups = ("id", "rev", "shuf")
    ords = ("none", "false", "sorted", "seq_rev", "seq_shuf", "key_desc", "key_last")
    for n in range(1, nmax + 1):
        for lab in ("int", "tuple", "str", "gap"):
            combos = [(s, o) for s in sups for o in ords]
            if quick or lab == "gap":
                combos = [("id", "none"), ("rev", "sorted"), ("shuf", "none"), ("shuf", "seq_rev"), ("id", "seq_shuf"), ("rev", "key_desc"), ("shuf", "key_last"), ("id", "false")]
            for sup, o in combos:
                base = dict(n=n, lab=lab, sup=sup, ord=o)
                secs = [dict()]
                secs += [dict(sym="Z2", sec=p, secform=f) for p, f in ((0, "even"), (1, "odd"), (0, "int"), (1, "int"))]
                secs += [dict(sym="U1", sec=k, secform="infer") for k in range(n + 1)]
                secs += [dict(sym="U1", sec=k, secform="explicit") for k in (0, n // 2)]
                for na in range(0, n + 1):
                    for ka in range(na + 1):
                        for kb in range(n - na + 1):
                            secs.append(dict(sym="U1U1", sec=[na, ka, kb], secform="infer" if (ka + kb) % 2 else "explicit"))
                for sc in secs:
                    c = dict(base, **sc)
                    if sup == "id" and o == "none" and lab == "int" and not sc:
                        cells.append(dict(c, form="int"))
                    if o in ("seq_rev", "none") and (sup, o) != ("id", "none"):
                        # every kind of order option, rotating over the cells
                        c["reorder"] = [REORDERS[len(cells) % len(REORDERS)], REORDERS[(len(cells) + 3) % len(REORDERS)]]
                    if sup == "shuf" and o == "none" and not sc:
                        c["form"] = "dict"
                    cells.append(c)
                # sector supplied per call
                for sc in secs[1:]:
                    if sc["sym"] == "U1U1" and sc["sec"][0] not in (1, n - 1):
                        continue
                    if (sup, o) in (("id", "none"), ("shuf", "seq_rev")):
                        cells.append(dict(base, percall=1, **sc))
    # species: every assignment of two species to the sites
    for n in range(2, nmax_species + 1):
        for bits in itertools.product((0, 1), repeat=n):
            for lab, sup, o in (("int", "id", "none"), ("str", "shuf", "seq_rev"), ("tuple", "rev", "key_last")):
                na = bits.count(0)
                for ka in range(na + 1):
                    for kb in range(n - na + 1):
                        for sf in ("pair", "dict", "dict_rev", "explicit", "list", "explicit_list"):
                            if quick and sf in ("dict", "list", "explicit_list") and lab != "int":
                                continue
                            c = dict(n=n, lab=lab, sup=sup, ord=o, sym="U1U1", sec=[ka, kb], secform=sf, species=list(bits), spform="callable" if (ka + kb) % 2 else "dict", symarg=int(sf.startswith("explicit") or ka == 0))
                            if sf == "pair" or not quick:
                                # the re-ordered space must keep the species: every
                                # order option, sector membership decided by species
                                c["reorder"] = list(REORDERS) if (lab == "int" or not quick) else [REORDERS[len(cells) % len(REORDERS)]]
                            cells.append(c)
                            if lab == "int" or sf == "dict_rev":
                                # the same spelling supplied per call
                                cells.append(dict({k_: v_ for k_, v_ in c.items() if k_ != "reorder"}, percall=1))
    # preset orderings on (species, position) labels
    for n in range(2, nmax_species + 2):
        labs = labels_for("spin", n)
        bits = [0 if s[0] == "a" else 1 for s in labs]
        na = bits.count(0)
        for o in ("blocked", "interleaved"):
            for sup in ("id", "rev", "shuf"):
                cells.append(dict(n=n, lab="spin", sup=sup, ord=o))
                for k in range(n + 1):
                    cells.append(dict(n=n, lab="spin", sup=sup, ord=o, sym="U1", sec=k, secform="infer"))
                for ka in range(na + 1):
                    for kb in range(n - na + 1):
                        cells.append(dict(n=n, lab="spin", sup=sup, ord=o, sym="U1U1", sec=[ka, kb], secform="pair", species=bits, spform="callable", symarg=0, reorder=["interleaved", "blocked", "seq_shuf", "key_last", "seq_rev"]))
                        for sf in ("dict", "dict_rev"):
                            cells.append(dict(n=n, lab="spin", sup=sup, ord=o, sym="U1U1", sec=[ka, kb], secform=sf, species=bits, spform="dict", symarg=int(sf == "dict"), reorder=["interleaved" if o == "blocked" else "blocked"]))
                            cells.append(dict(n=n, lab="spin", sup=sup, ord=o, sym="U1U1", sec=[ka, kb], secform=sf, species=bits, spform="dict", symarg=0, percall=1))
    # mixed radix
    for n in range(1, nmax_mixed + 1):
        for dims in itertools.product((1, 2, 3), repeat=n):
            if set(dims) == {2}:
                continue
            for lab, sup, o, form in (("int", "id", "none", "list"), ("str", "shuf", "sorted", "dict"), ("tuple", "rev", "seq_shuf", "list")):
                cells.append(dict(n=n, lab=lab, sup=sup, ord=o, dims=list(dims), form=form, reorder=[REORDERS[(sum(dims) + n) % 5]]))
            cells.append(dict(n=n, lab="int", sup="id", ord="none", dims=list(dims), sym="U1", sec=0, secform="infer"))
    return cells


def rp_cells(nmax):
    cells = []
    for n in range(1, nmax + 1):
        cells.append(dict(n=n, sym=None, sec=None))
        cells += [dict(n=n, sym="Z2", sec=p) for p in (0, 1)]
        cells += [dict(n=n, sym="U1", sec=k) for k in range(n + 1)]
        for na in range(1, n):
            for ka in range(na + 1):
                for kb in range(n - na + 1):
                    cells.append(dict(n=n, sym="U1U1", sec=[na, ka, kb]))
    return cells


def builder_cells(tier):
    quick = tier == "quick"
    cells = []

    def add(tab, n, T, cp, hs, tfs, cm=None, name=None):
        for tf in tfs:
            c = dict(tab=tab, n=n, T=T, cp=cp, hs=hs, tf=tf, tm=TMODE[tf])
            if cm:
                c["cm"] = cm
            if name:
                c["name"] = name
            cells.append(c)

    # B1: every single term of locality <= 3 on (un)ordered distinct sites
    n1 = 3 if quick else 4
    for k in (1, 2):
        for T in single_terms(n1, k, A7):
            add("B1", n1, [T], "cplx", "auto", TFS)
            if not quick or k == 1:
                add("B1", n1, [T], "cplx", "rev", TFS)
    for T in single_terms(n1, 3, ("x", "+", "-", "n") if quick else A7):
        add("B1", n1, [T], "cplx", "auto", ("none", "jw", "jw+pd") if quick else ("none", "jw", "jw+pdzx"))
    if not quick:
        for T in single_terms(3, 2, A13):
            add("B1", 3, [T], "cplx", "extra", ("none", "jw", "pdzx"))
    # B2: several operators on one site, interleaved with another site
    a2 = ("x", "y", "z", "+", "n") if quick else ("x", "y", "z", "+", "-", "n", "sz")
    for ops in itertools.product(a2, repeat=3):
        for sites in ((0, 0, 1), (0, 1, 0), (1, 0, 0)):
            add("B2", 2, [[[o, s] for o, s in zip(ops, sites)]], "cplx", "auto", ("none", "jw") if quick else ("none", "jw", "pd"))
    # B3: sums: all subsets of the term menu
    for n in (3,) if quick else (3, 4):
        M = menu(n)
        for pair in itertools.combinations(range(len(M)), 2):
            T = [M[i] for i in pair]
            for cp in ("one", "cplx") if (quick or n == 4) else ("one", "half", "cplx"):
                for hs in ("auto", "rev") if quick else ("auto", "rev", "extra", "gap") if n == 3 else ("auto", "rev", "extra"):
                    add("B3", n, T, cp, hs, ("none", "jw", "jw+pdzx") if quick else TFS)
        if not quick:
            for tri in itertools.combinations(range(len(M)), 3):
                T = [M[i] for i in tri]
                for cp in ("half", "cplx") if n == 3 else ("cplx",):
                    add("B3", n, T, cp, "auto" if n == 4 else "rev", ("none", "jw", "jw+pd") if n == 3 else ("none", "jw+pd"))
    # B4: designed lists (repeats, cancellations, identities, chains)
    for n in (3,) if quick else (2, 3, 4):
        for name, T, cp, cm in special_lists(n):
            for hs in ("auto", "rev", "extra", "gap"):
                add("B4", n, T, cp, hs, TFS, cm=cm, name=name)
    # B5: two species interleaved among the registers (U1U1 in blocked order)
    for name, T, cp, cm in species_lists():
        add("B5", 4, T, cp, "species", ("jw", "none") if quick else TFS, cm=cm, name=name)
    return cells


def x_cells(tier):
    cells = []
    ops_real = [[["z", 0], ["x", 1]], [["n", 1]]]
    ops_cplx = [[["y", 0], ["x", 1]], [["z", 0]], [["x", 0]]]
    ops_asym = [[["+", 0], ["-", 1]], [["x", 1]]]
    ops_id = [[["z", 0], ["z", 0]], [["x", 0], ["x", 1]]]
    ops_id2 = [[["+", 1], ["-", 1]], [["-", 1], ["+", 1]], [["z", 0], ["z", 1]]]
    fam = {"real-sym": (ops_real, "real"), "complex-herm": (ops_cplx, "real"), "real-asym": (ops_asym, "real"), "complex-coeff": (ops_real, "cplx"), "identity": (ops_id, "real"), "identity2": (ops_id2, "half")}
    for probe in ("linop-native-dtype", "matvec-default-dtype", "matvec-out-prefilled", "local-terms-identity", "evaluate-exact"):
        for fname, (T, cp) in fam.items():
            for hs in ("auto", "rev"):
                for tf in ("none", "pd") if tier != "quick" else ("none",):
                    cells.append(dict(probe=probe, fam=fname, n=2, T=T, cp=cp, hs=hs, tf=tf))
                    if probe == "matvec-default-dtype":
                        cells.append(dict(probe=probe, fam=fname, n=2, T=T, cp=cp, hs=hs, tf=tf, ctype="np"))
    return cells


def model_cells(tier):
    quick = tier == "quick"
    cells = []
    graphs = connected_graphs_small(3 if quick else 4)
    for n, g in graphs:
        for nodes in ("int", "str", "tuple"):
            for pv in ("default", "xxz", "xyz", "dict", "callable"):
                for o in ("none", "seq_rev", "key_last"):
                    if quick and (nodes != "int") and o != "none":
                        continue
                    cells.append(dict(model="heis", n=n, graph=g, nodes=nodes, pv=pv, order=o, dup=int(pv == "xxz")))
            for pv in ("default", "full", "u1", "dict", "callable"):
                for o in ("none", "seq_rev", "key_last"):
                    for pd in (0, 1):
                        if quick and (nodes != "int") and (o != "none" or pd):
                            continue
                        cells.append(dict(model="spinless", n=n, graph=g, nodes=nodes, pv=pv, order=o, pd=pd, dup=int(pv == "full")))
        if n <= (2 if quick else 3) or (not quick and len(g) == 3 and n == 4):
            for nodes in ("int", "str") if n <= 3 else ("int",):
                for pv in ("default", "full", "spin", "dict", "callable"):
                    for o in ("default", "interleaved", "blocked", "key"):
                        for pd in (0, 1):
                            if n == 4 and (pd or pv in ("dict", "callable") or o == "default"):
                                continue
                            if quick and pd and pv not in ("full",):
                                continue
                            cells.append(dict(model="hubbard", n=n, graph=g, nodes=nodes, pv=pv, order=o, pd=pd, dup=int(pv == "spin")))
    for n, m, k in ((1, 1, 1), (2, 3, 2), (3, 3, 2), (3, 5, 3), (4, 6, 3)):
        for kmin in (None, 0, 1):
            for seed in (0, 1):
                cells.append(dict(model="rand", n=n, m=m, k=k, kmin=kmin, seed=seed, ops="xyz+-n"))
        cells.append(dict(model="rand", n=n, m=m, k=k, kmin=None, seed=0, ops=None))
    return cells


def chain_cells(tier):
    quick = tier == "quick"
    cells = []
    Lmax = 4 if quick else 5
    for S in (0.5, 1):
        for cyc in (0, 1):
            for L in range(2, (Lmax if S == 0.5 else Lmax - 1) + 1):
                if cyc and L < 3:
                    continue
                for model, pvs in (("ising", ("default", "a", "b")), ("XY", ("default", "iso", "aniso")), ("heis", ("default", "iso", "xyz")), ("XXZ", ("a", "b")), ("blbq", ("t0", "t1", "t2")), ("mbl", ("s1", "s2", "s3", "g1", "g3", "qp", "vec"))):
                    for pv in pvs:
                        cells.append(dict(model=model, L=L, cyclic=cyc, S=S, pv=pv))
    for cyc in (0, 1):
        for L in range(2, Lmax + 2):
            if cyc and L < 3:
                continue
            cells.append(dict(model="heis3b", L=L, cyclic=cyc, S=0.5, pv="a"))
            for pv in ("default", "a"):
                cells.append(dict(model="hardcore", L=L, cyclic=cyc, S=0.5, pv=pv))
                if L >= 3 and (not cyc or L >= 5):
                    cells.append(dict(model="j1j2", L=L, cyclic=cyc, S=0.5, pv=pv))
    for shape in ((1, 2), (2, 2), (2, 3), (3, 2)) + (() if quick else ((1, 4), (2, 4))):
        for pv in ("default", "xyz"):
            cells.append(dict(model="heis2d", L=list(shape), cyclic=0, S=0.5, pv=pv))
    return cells


def sh_cells(tier):
    quick = tier == "quick"
    cells = []
    for S in (0.5, 1):
        for L in (2, 3, 4) if not quick else (2, 3):
            for cyc in (0, 1):
                if cyc and L < 3:
                    continue
                for d2 in ("none", "xy", "hop", "three"):
                    for d1 in ("none", "z", "xy"):
                        for v1 in ("none", "first", "off-last"):
                            for v2 in ("none", "first", "last3"):
                                if v2 == "last3" and L < 3:
                                    continue
                                cells.append(dict(S=S, L=L, cyclic=cyc, d2=d2, d1=d1, v1=v1, v2=v2, cplx=int((L + len(d2)) % 2)))
    return cells


# --------------------------------------------------------------------------- #
#                                 run / replay                                #
# --------------------------------------------------------------------------- #


def run(ctx):
    quick = ctx.tier == "quick"
    want = set((ctx.opts.get("tables") or "R,RP,S,B,X,M,H,SH").split(","))
    level = ctx.opts.get("level", "full")
    common = {"level": level}
    ctx.rule = (
        "complete products: (R) site labels x supplied order x order option x symmetry x every sector x EVERY rank, compared with the brute-force enumerated sector in "
        "lexicographic order; (S,B) every operator string / term list of the stated alphabets x Hilbert-space variant x rewrite, every representation compared with "
        "the explicit sum of Kronecker products (textbook Jordan-Wigner), every sector of every symmetry the operator conserves compared with P^T H P; (M,H,SH) every "
        "model x graph/length x parameter form against the docstring Hamiltonian.  A case is distinct by its full cell and non-trivial when the operator is non-zero / "
        "the sector has more than one state."
    )
    nR = 4 if quick else 6
    ctx.bounds = {
        "ranks: nsites <=": nR,
        "ranks: species assignments nsites <=": 3 if quick else 4,
        "ranks: mixed radix nsites <=": 3 if quick else 4,
        "same-site strings length <=": 3 if quick else 4,
        "builder: nsites <=": 3 if quick else 4,
        "builder: locality <=": 3,
        "builder: terms per enumerated subset <=": 2 if quick else 3,
        "models: graph nodes <=": 3 if quick else 4,
        "chains: L <=": 4 if quick else 5,
        "spins": [0.5, 1],
    }
    ctx.assumptions += [
        "sector matrices are requested only for operators that conserve the sector's charge (checked on the reference matrix); non-conserving operators are outside the documented domain of sector=",
        "aslinearoperator adjoints are asserted only for hermitian operators (documented: 'the operator is assumed to be hermitian')",
        "matvec/linear-operator actions in the main tables use vectors of the operator's dtype or an explicit complex dtype; default-dtype corners live in table X",
        "matvec is never called in a sector after a Pauli decomposition whose individual terms leave the sector (it would write out of bounds); only the coo triplets are requested there",
        "cyclic chains need L >= 3 (L = 2 is a double bond for some builders and a single one for others); cyclic j1-j2 needs L >= 5",
        "coefficients: magnitudes in [0.3, 1.4] with positive real parts, 1e11 above the builder's null threshold 1e-12",
    ]
    if "R" in want:
        cells = rank_cells(nR, 3 if quick else 4, 3 if quick else 4, quick)
        table.run(ctx, "r_cell", cells, name="R:labels x supplied x order x symmetry x sector (every rank)")
        ctx.subproducts.append("R: nsites<=%d x 4 label kinds x %s (supplied order, order option) x {None, Z2 (4 spellings), U1 all k, U1U1 all (na,ka,kb)} x every rank; per-call sectors; all 2^n species assignments n<=%d x all (ka,kb) x 3 sector spellings; blocked/interleaved presets; mixed radix {1,2,3}^n n<=%d" % (nR, "8" if quick else "21", 3 if quick else 4, 3 if quick else 4))
    if "RP" in want:
        table.run(ctx, "rp_cell", rp_cells(3 if quick else 4), name="RP:configcore public dispatchers", chunk=4)
        ctx.subproducts.append("RP: configcore.rank_to_flatconfig / flatconfig_to_rank for every symmetry x sector, nsites<=%d, every rank" % (3 if quick else 4))
    if "S" in want:
        cells = []
        for k in range(1, (3 if quick else 4) + 1):
            for ops in itertools.product(A13, repeat=k):
                for tf in ("none", "pd", "pdzx") if k <= 2 else ("none",):
                    cells.append(dict(tab="S", n=1, T=[[[o, 0] for o in ops]], cp="cplx", hs="auto", tf=tf, tm="ctor"))
        table.run(ctx, "b_cell", cells, common={"level": "lite"}, name="S:same-site operator strings")
        ctx.subproducts.append("S: all strings of length <= %d over the 13-letter alphabet on one site (x {none, pd, pdzx} for length <= 2)" % (3 if quick else 4))
    if "B" in want:
        cells = builder_cells(ctx.tier)
        ctx.notes["builder_cells"] = len(cells)
        table.run(ctx, "b_cell", cells, common=common, name="B:term lists x space x rewrite")
        ctx.subproducts += [
            "B1: every single term, locality 1-2 over {x,y,z,+,-,n,sn} and locality 3 over %s, all ordered site tuples of %d sites x rewrites" % ("{x,y,+,-,n}" if quick else "{x,y,z,+,-,n,sn}", 3 if quick else 4),
            "B2: all same-site triples a,b,c in the three interleavings with a second site",
            "B3: all pairs%s of the term menu (%s) x coefficient patterns x spaces x rewrites" % ("" if quick else " and triples", "n=3" if quick else "n=3,4"),
            "B4: designed lists (repeats, reorderings, cancellations, identities, null products, hermitian pairs, chains) x 4 spaces x 6 rewrites",
            "B5: two interleaved species x all (ka,kb) in 3 spellings",
        ]
    if "X" in want:
        table.run(ctx, "x_cell", x_cells(ctx.tier), name="X:dtype / out= / identity / expectation corners", chunk=2)
    if "M" in want:
        table.run(ctx, "m_cell", model_cells(ctx.tier), common=common, name="M:operator.models", chunk=2)
        ctx.subproducts.append("M: all connected graphs on <= %d nodes x 3 node labellings x 5 parameter forms x orderings (x pauli_decompose) for heisenberg / spinless / Fermi-Hubbard; rand_operator grid" % (3 if quick else 4))
    if "H" in want:
        table.run(ctx, "h_cell", chain_cells(ctx.tier), name="H:chain builders vs matrix generators", chunk=2)
        ctx.subproducts.append("H: {ising, XY, heis, XXZ, bilinear-biquadratic, mbl} x parameter variants x L<=%d x cyclic x S in {1/2,1}; ham_heis 3-field, ham_j1j2, ham_hubbard_hardcore, ham_heis_2D" % (4 if quick else 5))
    if "SH" in want:
        table.run(ctx, "sh_cell", sh_cells(ctx.tier), name="SH:SpinHam1D default + site specific terms", chunk=8)
        ctx.subproducts.append("SH: 4 default two-site x 3 default one-site x 3 site-specific one-site x 3 site-specific two-site term sets x L x cyclic x S")


def replay(case):
    return table.replay(sys.modules[__name__], case)

"""C16 - threaded and parallel kernels give the serial answer for every
schedule.  Exhaustive partition-arithmetic grid + every task completion order
of every threaded routine through the deterministic executor seam
(mc/sched.py), with write-set non-interference (DESIGN 3/C16)."""

from __future__ import annotations

import sys

import numpy as np

from .. import core, sched, table
from ..alphabet import fill

# --------------------------------------------------------------------------- #
#                       A. partition arithmetic grid                          #
# --------------------------------------------------------------------------- #

TBS = (1, 2, 3, 5, 8, 16, 128, 1024)
NTS = tuple(range(1, 17)) + (32,)


def zero_blocks_case(size, tb, nt):
    """Root-cause predicate of the positive-target branch computing
    ``min(nt, round(size / nt))`` = 0 blocks (computed from the case)."""
    return nt > 1 and tb > 0 and round(size / nt) == 0


def grid_cell(cell, common):
    """One size (all block sizes x thread counts x compiled/py_func)."""
    import quimb.core as qc

    size = cell["size"]
    out = []
    for impl in ("jit", "py"):
        choose = qc.threading_choose_num_blocks if impl == "jit" else qc.threading_choose_num_blocks.py_func
        rng_fn = qc.threading_get_block_range if impl == "jit" else qc.threading_get_block_range.py_func
        for tb0 in TBS:
            for tb in (tb0, -tb0):
                for nt in NTS:
                    sub = (impl, tb, nt)
                    root = "zero-blocks" if zero_blocks_case(size, tb, nt) else "partition"
                    try:
                        nb, base, rem = choose(size, tb, nt)
                    except ZeroDivisionError:
                        out.append(table.bad(core.problem("threading_choose_num_blocks(%d,%d,%d) divides by zero" % (size, tb, nt), root=root, entry="threading_choose_num_blocks", kind="ZeroDivisionError"), sub=sub))
                        continue
                    if nb != int(nb) or int(nb) < 1:
                        out.append(table.bad(core.problem("threading_choose_num_blocks(%d,%d,%d) -> num_blocks=%r" % (size, tb, nt, nb), root=root, entry="threading_choose_num_blocks", kind="num_blocks<1"), sub=sub))
                        continue
                    nb, base, rem = int(nb), int(base), int(rem)
                    cover = np.zeros(size, dtype=int)
                    owner = np.zeros(nb, dtype=int)
                    prev_stop = 0
                    contiguous = True
                    for b in range(nb):
                        a, z = rng_fn(b, base, rem)
                        a, z = int(a), int(z)
                        if a != prev_stop or z < a:
                            contiguous = False
                        prev_stop = z
                        cover[max(a, 0) : max(min(z, size), 0)] += 1
                        if z > size or a < 0:
                            contiguous = False
                    for rank in range(nt):
                        for b in range(rank, nb, nt):
                            owner[b] += 1
                    if not contiguous or prev_stop != size or not (cover == 1).all() or not (owner == 1).all():
                        out.append(table.bad(core.problem("partition of %d rows (tb=%d, nt=%d, %s): blocks=%d base=%d rem=%d cover=%s" % (size, tb, nt, impl, nb, base, rem, cover.tolist()[:12]), root=root, entry="threading_get_block_range", kind="cover"), sub=sub))
                        continue
                    out.append(table.ok(key=(size, tb, nt, impl), nontrivial=nb > 1, outcome="blocks=%s" % ("1" if nb == 1 else "<nt" if nb < nt else "=nt" if nb == nt else ">nt"), sub=sub))
    return out


# --------------------------------------------------------------------------- #
#                        B. kernels through the seam                          #
# --------------------------------------------------------------------------- #

KERNELS = ("complex_array", "phase_to_complex", "subtract_update_1d", "subtract_update_2d", "divide_update_1d", "divide_update_2d", "csr_matvec", "ldmul", "ldmul_wide", "rdmul", "rdmul_tall", "outer", "kron_dense", "kron_dense_rect")


def _real_dtype(dtype):
    return {"float32": "float32", "float64": "float64", "complex64": "float32", "complex128": "float64"}[dtype]


def _make_kernel(name, sz, dtype, key):
    """Returns (call(nt, tb) -> result array, numpy reference, size_total,
    inputs list for the untouched check)."""
    import scipy.sparse as sp

    import quimb.core as qc

    rd = _real_dtype(dtype)
    g = lambda shape, k, dt=dtype: fill("generic", shape, dt, key=("c16", key, k))  # noqa
    if name == "complex_array":
        x, y = g((sz,), "x", rd), g((sz,), "y", rd)
        return (lambda nt, tb: qc.complex_array(x, y, num_threads=nt, target_block_size=tb)), x + 1j * y, sz, [x, y]
    if name == "phase_to_complex":
        x = g((sz,), "x", rd)
        return (lambda nt, tb: qc.phase_to_complex(x, num_threads=nt, target_block_size=tb)), np.cos(x) + 1j * np.sin(x), sz, [x]
    if name in ("subtract_update_1d", "subtract_update_2d"):
        shape = (sz,) if name.endswith("1d") else (sz, 3)
        X, Y = g(shape, "X"), g(shape, "Y") + 2.0
        c = 0.75

        def call(nt, tb):
            Xc = X.copy()
            qc.subtract_update_(Xc, c, Y, num_threads=nt, target_block_size=tb)
            return Xc

        return call, X - np.asarray(c, dtype=X.dtype) * Y, sz, [X, Y]
    if name in ("divide_update_1d", "divide_update_2d"):
        shape = (sz,) if name.endswith("1d") else (sz, 3)
        X = g(shape, "X")
        c = 1.25

        def call(nt, tb):
            out = np.full(shape, np.nan, dtype=dtype)
            qc.divide_update_(X, c, out, num_threads=nt, target_block_size=tb)
            return out

        return call, X / np.asarray(c, dtype=X.dtype), sz, [X]
    if name == "csr_matvec":
        dense = g((sz, sz), "A")
        mask = fill("generic", (sz, sz), "float64", key=("c16", key, "mask")) > -0.2
        A = sp.csr_matrix(np.where(mask, dense, 0).astype(dtype))
        x = g((sz,), "x")
        return (lambda nt, tb: qc.par_dot_csr_matvec(A, x, target_block_size=tb, num_threads=nt)), A.toarray() @ x, sz, [x, A.data]
    if name in ("ldmul", "ldmul_wide"):
        shape = (sz, 3) if name == "ldmul" else (sz, 2 * sz + 1)
        d, M = g((sz,), "d"), g(shape, "M")
        return (lambda nt, tb: np.asarray(qc.l_diag_dot_dense(d, M, num_threads=nt, target_block_size=tb))), d[:, None] * M, sz, [d, M]
    if name in ("rdmul", "rdmul_tall"):
        # kernel partitions the ROWS of mat; size_total passed is diag.size
        shape = (3, sz) if name == "rdmul" else (2 * sz + 1, sz)
        d, M = g((sz,), "d"), g(shape, "M")
        return (lambda nt, tb: np.asarray(qc.r_diag_dot_dense(M, d, num_threads=nt, target_block_size=tb))), M * d[None, :], sz, [d, M]
    if name == "outer":
        a, b = g((sz,), "a"), g((3,), "b")
        return (lambda nt, tb: np.asarray(qc.outer(a, b, num_threads=nt, target_block_size=tb))), np.outer(a, b), sz, [a, b]
    if name in ("kron_dense", "kron_dense_rect"):
        a = g((sz, 2), "a")
        b = g((2, 2), "b") if name == "kron_dense" else g((1, 3), "b")
        return (lambda nt, tb: np.asarray(qc.kron_dense(a, b, num_threads=nt, target_block_size=tb))), np.kron(a, b), a.shape[0] * b.shape[0], [a, b]
    raise KeyError(name)


def _rows_partitioned(name, sz):
    """Number of rows the kernel actually partitions (for the root cause)."""
    if name == "rdmul":
        return 3
    if name == "rdmul_tall":
        return 2 * sz + 1
    if name == "kron_dense":
        return 2 * sz
    return sz


def kernel_cell(cell, common):
    """One (kernel, dtype, size): all thread counts x block sizes x orders."""
    name, dtype, sz = cell["kernel"], cell["dtype"], cell["size"]
    nts, tbs = common["nts"], common["tbs"]
    call, ref, size_total, inputs = _make_kernel(name, sz, dtype, (name, dtype, sz))
    rt = 1e-12 if _real_dtype(dtype) == "float64" else 2e-5
    out = []
    with sched.Seam() as seam0:
        # inside the seam so that np.empty is NaN-filled: an element the serial
        # kernel never writes is then visible (and deterministic)
        serial = np.asarray(seam0.run(lambda: call(1, 2**20), ("id", 0))[0])
    if serial.shape != np.shape(ref) or not np.allclose(serial, ref, rtol=rt, atol=rt):
        out.append(table.bad(core.problem("%s serial result differs from numpy" % name, root="serial-wrong", entry=name), sub=("serial",)))
        return out
    snap = [x.copy() for x in inputs]
    with sched.Seam() as seam:
        for nt in nts:
            for tb in tbs:
                sub0 = (nt, tb)
                rows = _rows_partitioned(name, sz)
                threaded = size_total > tb
                root = "zero-blocks" if (threaded and zero_blocks_case(rows, tb, nt)) else "kernel"
                # learn the number of tasks with the identity order
                try:
                    res0, log0, fs0 = seam.run(lambda: call(nt, tb), ("id", 0))
                except Exception as ex:
                    out.append(table.bad(core.problem("%s(nt=%d,tb=%d,size=%d,%s) raised %s: %s" % (name, nt, tb, sz, dtype, type(ex).__name__, str(ex)[:100]), root=root, entry=name, kind="exception"), sub=sub0))
                    continue
                nmax = max(fs0) if fs0 else 0
                policies = sched.order_policies(nmax) if nmax > 1 else [("id", 0)]
                results = []
                bad = None
                for pol in policies:
                    res, log, fs = (res0, log0, fs0) if pol == ("id", 0) else seam.run(lambda: call(nt, tb), pol)
                    res = np.asarray(res)
                    facts = sched.analyse(log)
                    if facts:
                        bad = (facts[0][0], "%s; order %s" % (facts[0][1], pol))
                    elif res.dtype.kind in "fc" and np.isnan(res).any():
                        bad = ("unwritten-output", "%d element(s) never written; order %s" % (int(np.isnan(res).sum()), pol))
                    elif res.shape != serial.shape or not np.array_equal(res, serial):
                        bad = ("differs-from-serial", "max diff %r; order %s" % (float(np.max(np.abs(res - serial))) if res.shape == serial.shape else "shape", pol))
                    elif any(not np.array_equal(a, b) for a, b in zip(inputs, snap)):
                        bad = ("input-modified", "an input array was modified; order %s" % (pol,))
                    if bad:
                        break
                    results.append(res)
                if bad:
                    out.append(table.bad(core.problem("%s(nt=%d,tb=%d,size=%d,%s): %s" % (name, nt, tb, sz, dtype, bad[1]), root=root, entry=name if root == "kernel" else "maybe_multithread", kind=bad[0]), sub=sub0))
                    for a, b in zip(inputs, snap):
                        a[...] = b
                    continue
                out.append(table.ok(key=(name, dtype, sz, nt, tb), nontrivial=nmax > 1, outcome="%s:tasks=%d" % (name, nmax), evals=len(policies), sub=sub0))
    return out


# --------------------------------------------------------------------------- #
#                  C. par_reduce / kron(parallel) / randn                     #
# --------------------------------------------------------------------------- #


def misc_cell(cell, common):
    import scipy.sparse as sp

    import quimb as qu
    import quimb.core as qc

    kind = cell["kind"]
    out = []
    if kind == "par_reduce":
        n, nt = cell["n"], cell["nt"]
        # non-commutative, associative reduction: matrix product
        mats = [fill("generic", (2, 2), "complex128", key=("c16pr", i)) for i in range(n)]
        ref = mats[0]
        for m in mats[1:]:
            ref = ref @ m
        with sched.Seam() as seam:
            res0, log0, fs0 = seam.run(lambda: qc.par_reduce(np.matmul, mats, num_threads=nt), ("id", 0))
            nmax = max(fs0) if fs0 else 0
            for pol in sched.order_policies(nmax) if nmax > 1 else [("id", 0)]:
                res, log, fs = seam.run(lambda: qc.par_reduce(np.matmul, mats, num_threads=nt), pol)
                facts = sched.analyse(log)
                if facts or np.shape(res) != ref.shape or not np.allclose(res, ref, rtol=1e-12, atol=1e-12):
                    out.append(table.bad(core.problem("par_reduce(matmul, %d mats, nt=%d) order %s: %s" % (n, nt, pol, facts[:1] or "wrong product"), root="par_reduce", entry="par_reduce"), sub=(kind, n, nt)))
                    return out
        out.append(table.ok(key=(kind, n, nt), nontrivial=nmax > 1, outcome="par_reduce:tasks=%d" % nmax, sub=(kind, n, nt)))
    elif kind == "kron_parallel":
        n, nt, sparse = cell["n"], cell["nt"], cell["sparse"]
        shapes = [(2, 2), (3, 3), (1, 1), (2, 2), (2, 2), (3, 3)][:n]
        ops = [fill("generic", s, "complex128", key=("c16kp", i)) for i, s in enumerate(shapes)]
        ref = np.eye(1)
        for o in ops:
            ref = np.kron(ref, o)
        if sparse:
            ops = [sp.csr_matrix(o) if i % 2 == 0 else o for i, o in enumerate(ops)]
        with sched.Seam() as seam:
            # kron(parallel=True) uses the default worker count: pin it
            old = qc._NUM_THREAD_WORKERS
            qc._NUM_THREAD_WORKERS = nt
            par_defaults = qc.par_reduce.__defaults__
            qc.par_reduce.__defaults__ = (nt,)
            try:
                res0, log0, fs0 = seam.run(lambda: qu.kron(*ops, parallel=True), ("id", 0))
                nmax = max(fs0) if fs0 else 0
                for pol in sched.order_policies(nmax) if nmax > 1 else [("id", 0)]:
                    res, log, fs = seam.run(lambda: qu.kron(*ops, parallel=True), pol)
                    res = res.toarray() if sp.issparse(res) else np.asarray(res)
                    facts = sched.analyse(log)
                    if facts or res.shape != ref.shape or not np.allclose(res, ref, rtol=1e-12, atol=1e-12):
                        out.append(table.bad(core.problem("kron(parallel=True) of %d ops nt=%d sparse=%s order %s: %s" % (n, nt, sparse, pol, facts[:1] or "wrong product"), root="kron-parallel", entry="kron"), sub=(kind, n, nt, sparse)))
                        return out
            finally:
                qc._NUM_THREAD_WORKERS = old
                qc.par_reduce.__defaults__ = par_defaults
        out.append(table.ok(key=(kind, n, nt, sparse), nontrivial=nmax > 1, outcome="kron_parallel:tasks=%d" % nmax, sub=(kind, n, nt, sparse)))
    elif kind == "randn":
        d, nt, dtype, dist = cell["d"], cell["nt"], cell["dtype"], cell["dist"]
        with sched.Seam() as seam:
            res0, log0, fs0 = seam.run(lambda: qu.randn(d, dtype=dtype, num_threads=nt, seed=11, dist=dist), ("id", 0))
            nmax = max(fs0) if fs0 else 0
            ref = np.asarray(res0)
            for pol in sched.order_policies(nmax) if nmax > 1 else [("id", 0)]:
                res, log, fs = seam.run(lambda: qu.randn(d, dtype=dtype, num_threads=nt, seed=11, dist=dist), pol)
                res = np.asarray(res)
                facts = sched.analyse(log)
                bad = None
                if facts:
                    bad = "%s %s" % facts[0]
                elif np.isnan(res).any():
                    bad = "%d element(s) never generated" % int(np.isnan(res).sum())
                elif res.shape != (d,):
                    bad = "shape %r" % (res.shape,)
                elif not np.array_equal(res, ref):
                    bad = "result depends on the completion order"
                if bad is None and nmax > 1:
                    # every thread has its own generator: no two threads' chunks
                    # may be bit-identical (chunk = ceil(d / nt) consecutive
                    # entries; only asserted for chunks of >= 4 entries)
                    import math as _m

                    S = _m.ceil(d / nt)
                    if S >= 4:
                        flat = res.ravel()
                        chunks = [flat[i * S : (i + 1) * S] for i in range(nt)]
                        full = [c for c in chunks if len(c) == S]
                        for a_ in range(len(full)):
                            for b_ in range(a_ + 1, len(full)):
                                if np.array_equal(full[a_], full[b_]):
                                    bad = "threads %d and %d produced bit-identical chunks (shared / identically seeded generators)" % (a_, b_)
                if bad:
                    out.append(table.bad(core.problem("randn(%d,%s,nt=%d,%s) order %s: %s" % (d, dtype, nt, dist, pol, bad), root="randn", entry="randn"), sub=(kind, d, nt, dtype, dist)))
                    return out
            if nt >= 3 and d >= 4 * (nt + 4):
                # history: seed once, draw with nt threads, then with nt + 4
                # threads WITHOUT reseeding: nothing already handed out may be
                # handed out again, and no two new chunks may coincide
                def hist():
                    a_ = np.asarray(qu.randn(d, dtype=dtype, num_threads=nt, seed=13, dist=dist)).copy()
                    b_ = np.asarray(qu.randn(d, dtype=dtype, num_threads=nt + 4, dist=dist)).copy()
                    return a_, b_

                (ha, hb), log, fs = seam.run(hist, ("id", 0))
                import math as _m

                Sa, Sb = _m.ceil(d / nt), _m.ceil(d / (nt + 4))
                L = min(Sa, Sb)
                heads = [tuple(np.round(ha.ravel()[i * Sa : i * Sa + L], 12).tolist()) for i in range(nt)] + [tuple(np.round(hb.ravel()[i * Sb : i * Sb + L], 12).tolist()) for i in range(nt + 4) if len(hb.ravel()[i * Sb : i * Sb + L]) == L]
                if L >= 4 and len(set(heads)) != len(heads):
                    out.append(table.bad(core.problem("randn(%d,%s,%s): after seeding once, a draw with %d threads then one with %d threads re-emitted an identical stream prefix" % (d, dtype, dist, nt, nt + 4), root="randn", entry="randn", kind="stream-reuse"), sub=(kind, d, nt, dtype, dist, "hist")))
                    return out
        out.append(table.ok(key=(kind, d, nt, dtype, dist), nontrivial=nmax > 1, outcome="randn:tasks=%d" % nmax, sub=(kind, d, nt, dtype, dist)))
    return out


# --------------------------------------------------------------------------- #
#                     D. operator builder with `parallel`                     #
# --------------------------------------------------------------------------- #

TERMSETS = {
    "heis4": lambda: [(0.25 * (1 + 0.1 * i), (a, i), (a, i + 1)) for i in range(3) for a in "xyz"] + [(0.3, ("z", 0)), (0.2, ("x", 2))],
    "hop4": lambda: [(1.0 + 0.5j, ("+", i), ("-", i + 1)) for i in range(3)] + [(1.0 - 0.5j, ("-", i), ("+", i + 1)) for i in range(3)] + [(0.7, ("z", i), ("z", (i + 2) % 4)) for i in range(4)],
    "ring5": lambda: [(0.5, ("+", i), ("-", (i + 1) % 5)) for i in range(5)] + [(0.5, ("-", i), ("+", (i + 1) % 5)) for i in range(5)] + [(0.3 * (i + 1), ("n", i)) for i in range(5)],
}

SECTORS = {
    "heis4": [(None, None), ("Z2", 0), ("Z2", 1)],
    "hop4": [(None, None), ("U1", 1), ("U1", 2), ("Z2", 1)],
    "ring5": [(None, None), ("U1", 2), ("U1", 0), ("U1", 5)],
}


def builder_cell(cell, common):
    import scipy.sparse as sp

    from quimb.operator import SparseOperatorBuilder

    tname, (sym, sector), par = cell["terms"], cell["sector"], cell["parallel"]
    sub = (tname, sym, sector, par)
    out = []

    def mk():
        return SparseOperatorBuilder(TERMSETS[tname]())

    kw = {} if sym is None else {"symmetry": sym, "sector": sector}
    B = mk()
    d0, r0, c0, D = B.build_coo_data(parallel=False, **kw)
    ref = sp.coo_matrix((d0, (r0, c0)), shape=(D, D)).toarray()
    if D == 0:
        return [table.rejected("empty sector")]
    x = fill("generic", (D,), "complex128", key=("c16bx", tname, sym, sector))
    yref = ref @ x
    with sched.Seam() as seam:
        res0, log0, fs0 = seam.run(lambda: mk().build_coo_data(parallel=par, **kw), ("id", 0))
        nmax = max(fs0) if fs0 else 0
        for pol in sched.order_policies(nmax) if nmax > 1 else [("id", 0)]:
            (d1, r1, c1, D1), log, fs = seam.run(lambda: mk().build_coo_data(parallel=par, **kw), pol)
            facts = sched.analyse(log)
            bad = None
            if facts:
                bad = "%s %s" % facts[0]
            elif D1 != D:
                bad = "dimension %r != %r" % (D1, D)
            else:
                # every entry exactly once: same multiset of (row, col, value)
                a = sorted(zip(r0.tolist(), c0.tolist(), np.round(d0, 12).tolist()), key=repr)
                b = sorted(zip(r1.tolist(), c1.tolist(), np.round(d1, 12).tolist()), key=repr)
                if a != b:
                    bad = "COO entries differ from the serial build (%d vs %d entries)" % (len(b), len(a))
            if bad:
                out.append(table.bad(core.problem("build_coo_data(%s, %s=%s, parallel=%r) order %s: %s" % (tname, sym, sector, par, pol, bad), root="builder-parallel", entry="build_coo_data"), sub=sub + ("coo",)))
                break
            # matrix / matvec / linear operator
            try:
                m, log, fs = seam.run(lambda: mk().build_sparse_matrix(parallel=par, **kw), pol)
                y, log2, fs2 = seam.run(lambda: mk().matvec(x, parallel=par, **kw), pol)
                lo = mk().aslinearoperator(parallel=par, dtype="complex128", **kw)
                y3, log3, fs3 = seam.run(lambda: lo @ x, pol)
            except Exception as ex:
                out.append(table.bad(core.problem("parallel=%r build/matvec on %s raised %s: %s" % (par, sub, type(ex).__name__, str(ex)[:100]), root="builder-parallel", entry="matvec", kind="exception"), sub=sub + ("mv",)))
                break
            # caller-supplied, NON-ZERO out= buffer, re-used for a second vector:
            # the result must be H @ x whatever the buffer held before
            try:
                x2 = x[::-1].copy()
                buf = np.full(D, 3.0 + 1.0j, dtype="complex128")
                Bo = mk()
                yo1, log4, _ = seam.run(lambda: Bo.matvec(x, out=buf, parallel=par, **kw), pol)
                yo1 = np.array(yo1, copy=True)
                yo2, log5, _ = seam.run(lambda: Bo.matvec(x2, out=buf, parallel=par, **kw), pol)
            except Exception as ex:
                out.append(table.bad(core.problem("parallel=%r matvec(out=) on %s raised %s: %s" % (par, sub, type(ex).__name__, str(ex)[:100]), root="builder-parallel", entry="matvec-out", kind="exception"), sub=sub + ("mvout",)))
                break
            facts = sched.analyse(log) + sched.analyse(log2) + sched.analyse(log3) + sched.analyse(log4) + sched.analyse(log5)
            if facts:
                bad = "%s %s" % facts[0]
            elif not np.allclose(yo1, yref, rtol=1e-12, atol=1e-12):
                bad = "matvec(x, out=<non-zero buffer>) differs from matrix @ x"
            elif not np.allclose(yo2, ref @ x2, rtol=1e-12, atol=1e-12) or yo2 is not buf:
                bad = "second matvec into the same out= buffer differs from matrix @ x2 (or out not returned)"
            elif not np.allclose(m.toarray(), ref, rtol=1e-12, atol=1e-12):
                bad = "build_sparse_matrix differs from serial"
            elif not np.allclose(y, yref, rtol=1e-12, atol=1e-12):
                bad = "matvec differs from serial matrix @ x"
            elif not np.allclose(y3, yref, rtol=1e-12, atol=1e-12):
                bad = "aslinearoperator @ x differs from serial matrix @ x"
            if bad:
                out.append(table.bad(core.problem("%s %s=%s parallel=%r order %s: %s" % (tname, sym, sector, par, pol, bad), root="builder-parallel", entry="matvec"), sub=sub + ("mv",)))
                break
        else:
            out.append(table.ok(key=sub, nontrivial=nmax > 1, outcome="builder:tasks=%d" % nmax, evals=4, sub=sub))
    return out


# --------------------------------------------------------------------------- #
#                        E. free-running smoke pass                           #
# --------------------------------------------------------------------------- #


def smoke_cell(cell, common):
    """Real threads, repeated, compared bitwise with the serial result (not the
    deciding step - see DESIGN 3/C16)."""
    name, dtype, sz, nt, tb = cell["kernel"], cell["dtype"], cell["size"], cell["nt"], cell["tb"]
    call, ref, size_total, inputs = _make_kernel(name, sz, dtype, (name, dtype, sz))
    with sched.Seam() as seam0:
        serial = np.asarray(seam0.run(lambda: call(1, 2**20), ("id", 0))[0])
    root = "zero-blocks" if (size_total > tb and zero_blocks_case(_rows_partitioned(name, sz), tb, nt)) else "kernel"
    if root == "zero-blocks":
        return table.rejected("smoke skips zero-block cases (decided by the seam pass)")
    for rep in range(5):
        res = np.asarray(call(nt, tb))
        if res.shape != serial.shape or not np.array_equal(res, serial):
            return table.bad(core.problem("free-running %s(nt=%d,tb=%d,size=%d) differs from serial on repetition %d" % (name, nt, tb, sz, rep), root=root, entry=name, kind="free-running"), sub=None)
    return table.ok(key=("smoke", name, dtype, sz, nt, tb), nontrivial=True, outcome="smoke")


# --------------------------------------------------------------------------- #
#                                   driver                                    #
# --------------------------------------------------------------------------- #


def run(ctx):
    thorough = ctx.tier == "thorough"
    sizes_grid = range(1, 2001 if thorough else 301)
    ksizes = (1, 2, 3, 5, 7, 8, 9, 16, 17, 33)
    dtypes = ("float64", "complex128", "float32", "complex64") if thorough else ("float64", "complex128")
    nts = (1, 2, 3, 4, 5, 8, 16)
    tbs = (1, 2, 3, 7, -1, -2, -3, -5) if thorough else (1, 2, -1, -3)
    ctx.rule = (
        "A: complete grid size x +-block size x thread count x {jit, py_func} of the partition arithmetic (one case = one grid point; non-trivial when > 1 block); "
        "B: kernel x dtype x size x threads x block size, each run under EVERY task completion order (all n! for <= 4 tasks, identity/reverse/rotations above) "
        "through the deterministic executor, with NaN-prefilled outputs and per-task write sets; non-trivial when > 1 task was submitted; "
        "C: par_reduce / kron(parallel) / randn; D: SparseOperatorBuilder parallel in {1,2,3,4,7} x term sets x symmetry sectors; E: free-running smoke"
    )
    ctx.bounds = {"grid_sizes": [1, max(sizes_grid)], "grid_block_sizes": ["+-%d" % t for t in TBS], "grid_threads": list(NTS), "kernel_sizes": list(ksizes), "kernel_threads": list(nts), "kernel_block_sizes": list(tbs), "dtypes": list(dtypes), "orders": "all n! for n<=4, id/rev/rotations for n>4"}
    ctx.assumptions += [
        "preemptive interleavings inside nogil kernels are equivalent to some task order because per-task write sets are checked disjoint and inputs are checked untouched",
        "thread pool obtained only through quimb.core.get_thread_pool (seam)",
    ]
    table.run(ctx, "grid_cell", [{"size": s} for s in sizes_grid], name="A:partition-grid", chunk=8)
    if any(rec["sig"].get("root") in ("partition", "zero-blocks") and rec["sig"].get("entry", "").startswith("threading_") for rec in ctx.viol.values()):
        # the kernels index their output with these ranges and numba does not
        # bounds-check: running them on a broken partition corrupts memory
        ctx.cap("kernel passes B-E skipped: the partition arithmetic (pass A) is violated, kernels would write out of bounds")
        return
    kcells = [{"kernel": k, "dtype": dt, "size": s} for k in KERNELS for dt in dtypes for s in ksizes if not (k in ("complex_array", "phase_to_complex") and dt.startswith("complex"))]
    table.run(ctx, "kernel_cell", kcells, common={"nts": nts, "tbs": tbs}, name="B:kernels", chunk=2)
    mcells = [{"kind": "par_reduce", "n": n, "nt": nt} for n in range(1, 8) for nt in (2, 3, 4)]
    mcells += [{"kind": "kron_parallel", "n": n, "nt": nt, "sparse": sp_} for n in range(2, 7) for nt in (2, 3) for sp_ in (False, True)]
    mcells += [{"kind": "randn", "d": d, "nt": nt, "dtype": dt, "dist": dist} for d in (1, 2, 3, 5, 8, 9, 17, 40, 96) for nt in (1, 2, 3, 4, 5, 8, 12) for dt in ("float64", "complex128", "float32") for dist in (("normal", "uniform") if thorough else ("normal",))]
    table.run(ctx, "misc_cell", mcells, name="C:reduce-kron-randn", chunk=4)
    bcells = [{"terms": t, "sector": s, "parallel": p} for t in TERMSETS for s in SECTORS[t] for p in (1, 2, 3, 4, 7)]
    table.run(ctx, "builder_cell", bcells, name="D:builder-parallel", chunk=1)
    scells = [{"kernel": k, "dtype": "complex128" if k not in ("complex_array", "phase_to_complex") else "float64", "size": s, "nt": nt, "tb": tb} for k in KERNELS for s in (9, 33) for nt in (2, 4) for tb in (1, -2)]
    table.run(ctx, "smoke_cell", scells, name="E:free-running-smoke", chunk=4)
    ctx.subproducts += ["A complete", "B complete for the listed kernels/sizes/threads/block sizes with all orders up to 4 tasks", "C, D complete over their listed alphabets"]


def replay(case):
    return table.replay(sys.modules[__name__], case)

"""C17 - eigen / singular / exponential solvers return genuine, correctly
selected results (DESIGN.md section 3, C17).  TableExplorer.

Tables (each a complete deterministic product, nothing sampled; the product
axes are listed in ``ctx.bounds``):

  partial  eigensystem_partial through eigh / eigvalsh / eigvecsh / eig /
           eigvals / eigvecs / groundstate / groundenergy / bound_spectrum:
           operator kind x size x k x selection rule (+ target) x backend x
           representation x return_vecs x sort, generalised problems with a
           PD metric, projected problems (``P=``), LOBPCG start blocks, and
           the sizes straddling ``choose_backend``'s thresholds
  full     full eigh / eigvalsh / eigvecsh / eig / eigvals / eigvecs on every
           integer partition of d as block sizes under hidden permutations,
           autoblock on/off, sort on/off
  window   eigh_window / eigvalsh_window / eigvecsh_window: centre x k x
           width x representation x backend (dense and iterative path)
  svd      svd, svds (backend x representation x k), norm (every spelling,
           dense and sparse, both sides of the AUTO threshold), rsvd and
           estimate_rank on exactly low-rank inputs with fixed seeds
  fn       expm (herm flag, sparse), expm_multiply, sqrtm

Oracle = the defining equations evaluated with plain numpy on the dense
matrix: residual ||A v - lam B v||, Gram matrix V^H B V, ascending order,
"returned values are a sub-multiset of the reference spectrum" and "their
selection keys are the k best keys of the reference spectrum" (ties at the
selection boundary accept either member); singular triplets; exp / sqrt
against an independent Taylor / eigh reference.  Reference spectra are the
prescribed ones wherever the operator is built from a prescribed spectrum.
"""

from __future__ import annotations

import hashlib
import itertools
import sys
import warnings

import numpy as np

from .. import core, table, ref
from ..alphabet import fill, rng_for

warnings.filterwarnings("ignore")

TOL_DENSE = 1e-9
TOL_GEN = 1e-8  # dense non-Hermitian / generalised (conditioning of V, B)
TOL_ARPACK = 1e-7
TOL_LOBPCG = 2e-6

_Q = {}


def _qu():
    if "qu" not in _Q:
        import quimb

        _Q["qu"] = quimb
    return _Q["qu"]


def _sp():
    import scipy.sparse as sp

    return sp


def _spla():
    import scipy.sparse.linalg as spla

    return spla


def _dense(x):
    sp = _sp()
    return np.asarray(x.toarray()) if sp.issparse(x) else np.asarray(x)


def _tl(x):
    if isinstance(x, (list, tuple)):
        return [_tl(v) for v in x]
    return x


# --------------------------------------------------------------------------- #
#                               result collector                              #
# --------------------------------------------------------------------------- #


class _Acc:
    def __init__(self, tname, cellkey, base):
        self.t = tname
        self.ck = cellkey
        self.base = dict(base)
        self.res = []

    def bad(self, sub, fail, msg, **extra):
        sig = {"table": self.t}
        sig.update(self.base)
        sig.update(extra)
        sig["fail"] = fail
        self.res.append(table.bad(core.problem("%s %s [%s]: %s" % (self.t, self.ck, sub, msg), **sig), sub=sub))

    def ok(self, sub, nontrivial=True, outcome=None):
        self.res.append(table.ok(key=(self.ck, sub), nontrivial=nontrivial, outcome=None if outcome is None else "%s:%s" % (self.t, outcome), sub=sub))

    def rej(self, what, sub):
        self.res.append(table.rejected("%s:%s" % (self.t, what), sub=sub))


def _run(f):
    try:
        return True, f()
    except Exception as ex:  # the caller classifies
        return False, ex


def _fp(x):
    """fingerprint (bytes + layout flags) of an object handed to quimb."""
    if x is None:
        return None
    if _sp().issparse(x):
        return (x.format, x.shape) + tuple(_fp(getattr(x, n)) for n in ("data", "indices", "indptr", "row", "col", "offsets") if hasattr(x, n))
    if isinstance(x, np.ndarray):
        base = x
        while isinstance(base.base, np.ndarray):
            base = base.base
        hb = None if base is x else hashlib.sha1(base.tobytes()).hexdigest()
        fl = x.flags
        return (type(x).__name__, x.shape, str(x.dtype), x.strides, fl.c_contiguous, fl.f_contiguous, fl.writeable, hashlib.sha1(x.tobytes()).hexdigest(), hb)
    if hasattr(x, "_M"):
        return ("action-only", _fp(x._M))
    if hasattr(x, "fn") and hasattr(x, "args"):  # qu.Lazy (its dtype attribute is a documented cache, set on construction)
        return ("lazy", tuple(_fp(a) if isinstance(a, np.ndarray) else repr(a) for a in x.args), repr(x.factor), tuple(x.shape))
    return repr(x)


def _same(a, b, rtol=1e-6):
    """two answers to the same question agree (same structure, values to rtol)."""
    if isinstance(a, tuple) or isinstance(b, tuple):
        return isinstance(a, tuple) and isinstance(b, tuple) and len(a) == len(b) and all(_same(x, y, rtol) for x, y in zip(a, b))
    try:
        x, y = _dense(a), _dense(b)
    except Exception:
        return type(a) is type(b)
    if x.dtype == object or y.dtype == object:
        return x.shape == y.shape
    if x.shape != y.shape:
        return False
    if x.size == 0:
        return True
    if not np.all(np.isfinite(x)) or not np.all(np.isfinite(y)):
        return bool(np.array_equal(np.isfinite(x), np.isfinite(y)))
    return float(np.max(np.abs(x - y))) <= rtol * max(float(np.max(np.abs(x))), 1e-300) + 1e-12


def _run2(f, objs, reseed=None):
    """INPUT PURITY + repeatability: evaluate ``f`` (a call of the real entry
    point on the objects in ``objs``), require every object bit-identical
    (bytes, strides, flags, and the buffer behind a view) afterwards, then ask
    the same question again on the same objects and require the same answer.
    Returns (ok, out, problem-or-None)."""
    names = list(objs)
    before = [_fp(objs[n]) for n in names]
    ok, out = _run(f)
    changed = [n for n, b in zip(names, before) if _fp(objs[n]) != b]
    if changed:
        return ok, out, ("input-mutated", "the call modified its input(s) %s in place" % "+".join(changed), {"mutated": "+".join(changed)})
    if ok:
        if reseed is not None:
            reseed()
        ok2, out2 = _run(f)
        changed = [n for n, b in zip(names, before) if _fp(objs[n]) != b]
        if changed:
            return ok, out, ("input-mutated", "the second identical call modified its input(s) %s in place" % "+".join(changed), {"mutated": "+".join(changed)})
        if not ok2:
            return ok, out, ("second-call", "the same call on the same objects %s the second time" % _exc_msg(out2), {})
        if not _same(out, out2):
            return ok, out, ("second-call", "the same call on the same objects gave a different answer the second time", {})
    return ok, out, None


def _layout(x, lay):
    """the same array content in another memory layout."""
    x = np.array(x)
    if lay in (None, "C"):
        return np.ascontiguousarray(x)
    if lay == "F":
        return np.asfortranarray(x)
    if lay == "T":  # transposed VIEW of a C-ordered buffer
        if x.ndim < 2:
            return _layout(x, "S")
        return np.ascontiguousarray(x.T).T
    if lay == "S":  # strided slice VIEW of a larger buffer
        big = np.zeros(tuple(2 * n for n in x.shape), dtype=x.dtype)
        sl = tuple(slice(None, None, 2) for _ in x.shape)
        big[sl] = x
        return big[sl]
    raise KeyError(lay)


def _lay_of(rep):
    return rep.split("-")[1] if rep in ("ndarray-F", "ndarray-T", "ndarray-S", "nd-F", "nd-T", "nd-S") else None


def _exc_fail(ex):
    return "exc:" + type(ex).__name__


def _exc_msg(ex):
    return "raised %s: %s" % (type(ex).__name__, str(ex).strip().replace("\n", " ")[:140])


# --------------------------------------------------------------------------- #
#                                 operators                                   #
# --------------------------------------------------------------------------- #


def _lam(name, d):
    """named prescribed real spectra (pure functions of d)."""
    i = np.arange(d, dtype=float)
    if name == "gapped":  # distinct, irregular gaps, both signs, no +- symmetry
        return -1.9 + 0.47 * i + 0.11 * ((i * i) % 3)
    if name == "degen":  # exact multiplicities 2, 1, 3, 2, 1, 3, ...
        out, j = [], 0
        while len(out) < d:
            out += [-1.0 + 0.8 * j] * (2, 1, 3)[j % 3]
            j += 1
        return np.array(out[:d])
    if name == "neardeg":  # pairs split by 1e-3
        out, j = [], 0
        while len(out) < d:
            b = -1.3 + 0.9 * j
            out += [b, b + 1e-3]
            j += 1
        return np.array(out[:d])
    if name == "symm":  # +-x pairs: ties in magnitude; 0 for odd d
        h = d // 2
        x = 0.5 + 0.6 * np.arange(h)
        out = list(-x[::-1]) + ([0.0] if d % 2 else []) + list(x)
        return np.array(out)
    if name == "psd":
        return 0.15 + 0.4 * i + 0.07 * (i % 2)
    if name == "singular":  # PSD with a kernel of dimension max(1, d // 3)
        nz = max(1, d // 3)
        return np.array([0.0] * nz + [0.5 + 0.45 * j for j in range(d - nz)])[:d]
    raise KeyError(name)


HERM_SPECTRA = ("gapped", "degen", "neardeg", "symm", "psd", "singular")


def _clam(d):
    """prescribed complex spectrum: distinct moduli, real and imaginary parts.
    Beyond d = 32 (only met by the auto-selection cells, which ask ARPACK for
    the LM / LR / SR end) a bulk plus eight well separated outliers (four on
    each side), so that the requested end of the spectrum is a >= 10x-margin
    decision for a Krylov solver (a dense spiral has moduli 0.5% apart at its
    end)."""
    j = np.arange(d)
    if d <= 32:
        return (0.4 + 0.35 * j) * np.exp(2j * np.pi * (0.17 + 0.381966 * j))
    nb = d - 8
    jb = np.arange(nb)
    bulk = (0.4 + 1.6 * jb / nb) * np.exp(2j * np.pi * (0.17 + 0.381966 * jb))
    out = np.array([7.0 * np.exp(0.5j), 6.1 * np.exp(-0.6j), 5.3 * np.exp(0.8j), 4.6 * np.exp(-0.3j), -6.55 + 1.0j, -5.45 - 1.5j, -4.4 + 2.1j, -3.5 - 0.6j])
    return np.concatenate([bulk, out])


def _rlam(d):
    """spectrum of a real non-symmetric matrix: conjugate pairs (+ one real);
    beyond d = 32 a bulk plus five well separated outlier pairs (see _clam)."""
    out = []
    npair = d // 2
    if d <= 32:
        for j in range(npair):
            a, b = -1.2 + 0.55 * j, 0.3 + 0.25 * j
            out += [a + 1j * b, a - 1j * b]
    else:
        for j in range(npair - 5):
            a, b = -1.0 + 2.0 * ((0.618034 * j) % 1.0), 0.2 + 1.3 * j / npair
            out += [a + 1j * b, a - 1j * b]
        for a, b in ((2.8, 0.5), (4.0, 1.0), (5.5, 2.0), (-3.2, 0.8), (-4.6, 1.6)):
            out += [a + 1j * b, a - 1j * b]
    if d % 2:
        out.append(0.77)
    return np.array(out, dtype=complex)


def _dtype(dt):
    return "float64" if dt == "f" else "complex128"


def _build_op(op):
    """op = (kind, d, dt) -> (A ndarray, reference spectrum, is_hermitian)."""
    kind, d, dt = op[0], int(op[1]), op[2]
    dtype = _dtype(dt)
    key = ("c17", kind, d, dt)
    if kind in ("herm", "hermG"):
        A = fill("hermitian", (d, d), dtype, key)
        A = (A + A.conj().T) / 2
        return A, np.linalg.eigvalsh(A), kind == "herm"
    if kind in HERM_SPECTRA:
        lam = np.sort(_lam(kind, d))
        A = fill("spectrum", (d, d), dtype, key, lam=lam)
        A = (A + A.conj().T) / 2
        return A, lam, True
    if kind == "cgen":
        lam = _clam(d)
        V = _wellcond(d, "complex128", key)
        A = (V * lam) @ np.linalg.inv(V)
        return A, lam, False
    if kind == "rgen":
        lam = _rlam(d)
        D = np.zeros((d, d))
        for j in range(d // 2):
            a, b = lam[2 * j].real, lam[2 * j].imag
            D[2 * j : 2 * j + 2, 2 * j : 2 * j + 2] = [[a, b], [-b, a]]
        if d % 2:
            D[-1, -1] = lam[-1].real
        V = _wellcond(d, "float64", key)
        A = V @ D @ np.linalg.inv(V)
        return A, lam, False
    raise KeyError(kind)


def _wellcond(d, dtype, key):
    q = fill("unitary", (d, d), dtype, (key, "q"))
    g = fill("generic", (d, d), dtype, (key, "g"))
    # strictly triangular perturbation of norm ~0.3 for every d (bounded condition number)
    return q @ (np.eye(d) + (0.3 / np.sqrt(max(d, 1))) * np.triu(g, 1))


def _metric(d, dt, key):
    """positive definite metric with moderate condition number."""
    lam = 0.6 + 0.25 * np.arange(d)
    B = fill("spectrum", (d, d), _dtype(dt), ("c17-metric", key), lam=lam)
    return (B + B.conj().T) / 2


_ACTION = {}


def _action_only(A):
    """an operator only available through its action (and adjoint action)."""
    if "cls" not in _ACTION:
        spla = _spla()

        class ActionOnly(spla.LinearOperator):
            def __init__(self, M):
                self._M = np.array(M)
                super().__init__(dtype=self._M.dtype, shape=self._M.shape)

            def _matvec(self, x):
                return self._M @ x

            def _rmatvec(self, x):
                return self._M.conj().T @ x

            def _matmat(self, X):
                return self._M @ X

        _ACTION["cls"] = ActionOnly
    return _ACTION["cls"](A)


def _rep(A, rep):
    qu, sp = _qu(), _sp()
    if rep == "ndarray":
        return np.array(A)
    if rep in ("ndarray-F", "ndarray-T", "ndarray-S", "nd-F", "nd-T", "nd-S"):
        return _layout(A, _lay_of(rep))
    if rep == "qarray":
        return qu.qarray(np.array(A))
    if rep == "csr":
        return sp.csr_matrix(A)
    if rep == "linop":
        return _action_only(A)
    if rep == "lazy":
        return qu.Lazy(np.array, np.array(A), shape=A.shape)
    if rep == "lazy-csr":
        return qu.Lazy(sp.csr_matrix, np.array(A), shape=A.shape)
    if rep == "lazy-scaled":  # an unconstructed operator carrying a prefactor
        return qu.Lazy(np.array, np.array(A) / 2.0, shape=A.shape) * 2.0
    if rep in ("csc", "coo", "bsr"):
        return getattr(sp, rep + "_matrix")(sp.csr_matrix(A))
    raise KeyError(rep)


# --------------------------------------------------------------------------- #
#                                   oracle                                    #
# --------------------------------------------------------------------------- #


def _keyf(which, sigma, herm, shift_invert=False):
    """selection key (smaller = selected first) for a documented rule."""
    w = which.upper()
    if w in ("SA", "SR"):
        return lambda a: np.real(a)
    if w in ("LA", "LR"):
        return lambda a: -np.real(a)
    if w == "SI":
        return lambda a: np.imag(a)
    if w == "LI":
        return lambda a: -np.imag(a)
    if w == "LM":
        return lambda a: -np.abs(a)
    if w == "SM":
        return lambda a: np.abs(a)
    if w == "TR":
        if shift_invert:  # ARPACK shift-invert: nearest in the complex plane
            return lambda a: np.abs(a - sigma)
        return lambda a: np.abs(np.real(a) - sigma)
    if w == "TM":
        return lambda a: np.abs(np.abs(a) - sigma)
    if w == "TI":
        return lambda a: np.abs(np.imag(a) - sigma)
    raise KeyError(which)


def _match_subset(vals, refv, tol):
    refv = np.asarray(refv)
    used = np.zeros(len(refv), dtype=bool)
    for x in vals:
        dist = np.abs(refv - x)
        dist[used] = np.inf
        j = int(np.argmin(dist)) if len(dist) else -1
        if j < 0 or not dist[j] <= tol:
            return False, x
        used[j] = True
    return True, None


ZERO_TARGETS = {"z0": 0, "z0.0": 0.0, "z-0.0": -0.0, "znp": np.float64(0.0)}


def _sigma_of(tag, lam):
    if tag is None:
        return None
    if tag in ZERO_TARGETS:  # a target of EXACTLY zero, in every spelling a caller may use
        return ZERO_TARGETS[tag]
    x = np.sort(np.real(np.asarray(lam)))
    if len(x) == 1:
        return float(x[0] + {"in": 0.3, "out": -0.7, "on": 0.0, "mid": 0.5}[tag])
    gaps = np.diff(x)
    j = int(np.argmax(gaps))
    if tag == "in":
        return float(x[j] + 0.3 * gaps[j])
    if tag == "mid":
        return float(x[j] + 0.5 * gaps[j])
    if tag == "out":
        return float(x[0] - 0.7)
    if tag == "on":
        return float(x[len(x) // 2])
    raise KeyError(tag)


def _eig_oracle(l, v, A, lam_ref, k, keyf, herm, sort, tol, Bm=None, Pm=None, keytol=None, by_key=False, tolg=None):
    """returns None when everything the property states holds, else
    (fail, msg).  ``A`` is the dense operator (projected problems: the full
    operator, ``Pm`` the isometry)."""
    l = np.asarray(l)
    if l.ndim != 1 or l.shape[0] != k:
        return "count", "eigenvalue array has shape %s, requested k=%d" % (l.shape, k)
    if not np.all(np.isfinite(l)):
        return "nonfinite", "non-finite eigenvalues"
    lam_ref = np.asarray(lam_ref)
    scale = max(1.0, float(np.max(np.abs(lam_ref)))) if lam_ref.size else 1.0
    at = tol * scale
    if herm:
        if np.iscomplexobj(l) and float(np.max(np.abs(l.imag))) > at:
            return "values", "complex eigenvalues for a Hermitian problem"
        lv = l.real
    else:
        lv = l
    okm, x = _match_subset(lv, lam_ref, at)
    if not okm:
        return "values", "%r is not an eigenvalue of the operator (or is returned more often than its multiplicity); returned %s" % (x, np.round(lv, 6).tolist()[:6])
    if keyf is not None and k > 0:
        kr = np.sort(keyf(lam_ref))[:k]
        kg = np.sort(keyf(lv))
        if float(np.max(np.abs(kr - kg))) > (at if keytol is None else keytol):
            return "selection", "returned %s is not the requested part of the spectrum (best keys %s, got %s)" % (np.round(lv, 6).tolist()[:6], np.round(kr, 6).tolist()[:6], np.round(kg, 6).tolist()[:6])
    if sort:
        if np.any(np.diff(np.real(lv)) < -at):
            return "order", "sort=True but eigenvalues not ascending: %s" % (np.round(lv, 6).tolist()[:8],)
    elif by_key and keyf is not None:
        if np.any(np.diff(keyf(lv)) < -at):
            return "order-which", "sort=False on the dense backend: not ordered by the selection rule: %s" % (np.round(lv, 6).tolist()[:8],)
    if v is None:
        return None
    v = _dense(v)
    d_full = A.shape[0]
    if v.ndim != 2 or v.shape != (d_full, k):
        return "shape", "eigenvector array has shape %s, expected %s" % (v.shape, (d_full, k))
    if not np.all(np.isfinite(v)):
        return "nonfinite", "non-finite eigenvectors"
    if k == 0:
        return None
    if Pm is not None:
        w = Pm.conj().T @ v
        if float(np.max(np.abs(v - Pm @ w))) > tol * 10:
            return "projection", "eigenvectors of the projected problem are not mapped back into range(P): defect %.3g" % float(np.max(np.abs(v - Pm @ w)))
        Ae, ve = Pm.conj().T @ A @ Pm, w
    else:
        Ae, ve = A, v
    Bv = ve if Bm is None else Bm @ ve
    R = Ae @ ve - Bv * lv[None, :]
    nA = max(float(np.linalg.norm(Ae, 2)), 1.0)
    if Bm is not None:
        nA = max(nA, float(np.linalg.norm(Bm, 2)) * scale)
    coln = np.linalg.norm(ve, axis=0)
    if np.any(coln < 1e-8):
        return "residual", "zero eigenvector returned"
    res = float(np.max(np.linalg.norm(R, axis=0) / (nA * coln)))
    if res > tol * 10:
        return "residual", "eigen-equation violated: max relative residual %.3g" % res
    if herm:
        G = ve.conj().T @ Bv
        gd = float(np.max(np.abs(G - np.eye(k)))) if k else 0.0
        if gd > (tol * 100 if tolg is None else tolg):
            return "gram", "eigenvectors not (B-)orthonormal: Gram defect %.3g" % gd
    return None


def _rayleigh(v, A, Bm=None):
    v = _dense(v)
    if v.ndim == 1:
        v = v.reshape(-1, 1)
    Bv = v if Bm is None else Bm @ v
    num = np.einsum("ij,ij->j", v.conj(), A @ v)
    den = np.einsum("ij,ij->j", v.conj(), Bv)
    return num / den


# --------------------------------------------------------------------------- #
#                     table 1: partial eigen-decompositions                   #
# --------------------------------------------------------------------------- #

W_NUMPY_H = [("SA", None), ("LA", None), ("LM", None), ("SM", None), (None, None), ("TR", "in"), ("TR", "out"), ("TR", "on"), ("TR", "mid"), (None, "in"), ("SR", None), ("LR", None), ("TM", "in")]
W_NUMPY_H += [(None, "z0"), (None, "z0.0"), (None, "z-0.0"), (None, "znp"), ("TR", "z0"), (None, "on"), (None, "mid"), (None, "out")]
W_NUMPY_G = [("SA", None), ("LA", None), ("SR", None), ("LR", None), ("SI", None), ("LI", None), ("LM", None), ("SM", None), (None, None), ("TR", "in"), ("TM", "in"), ("TI", "in"), (None, "in")]
W_NUMPY_G += [(None, "z0"), (None, "z0.0"), (None, "z-0.0"), (None, "znp"), (None, "on"), (None, "mid")]
FAMILY = {True: {"vec": "eigh", "val": "eigvalsh", "vecs": "eigvecsh"}, False: {"vec": "eig", "val": "eigvals", "vecs": "eigvecs"}}


def _w_scipy(herm, d, complex_data, linop, zero_ok=True, real_spectrum=False):
    if herm:
        w = [("SA", None), ("LA", None), ("LM", None), (None, None)]
        if d <= 20:
            w.append(("SM", None))
        if not linop:
            w += [("TR", "in"), ("TR", "out"), (None, "in"), (None, "out")]
            if zero_ok:  # exact-zero target (shift-invert needs a non-singular operator)
                w += [(None, "z0"), (None, "z0.0"), (None, "z-0.0"), (None, "znp"), ("TR", "z0.0")]
        return w
    w = [("LM", None), ("LR", None), ("SR", None), (None, None), ("SA", None), ("LA", None)]
    if d <= 20:
        w.append(("SM", None))
    if complex_data and not real_spectrum:  # for real input ARPACK's LI/SI mean |imag| (scipy semantics)
        w += [("LI", None), ("SI", None)]
    if not linop and d <= 32:
        w += [("TR", "in"), (None, "in")]
        if zero_ok:
            w += [(None, "z0"), (None, "z0.0")]
    return w


def _resolved(backend, d, k, sigma, linop):
    """the documented auto-selection rule (comments of choose_backend)."""
    if backend != "AUTO":
        return backend
    small = d * d / k < (10000 if sigma is not None else 2000)
    return "NUMPY" if (small and not linop) else "SCIPY"


def _proot(herm, which, sigtag, res, brep, v0tag, k):
    if res == "LOBPCG" and v0tag == "1d" and k > 1:
        return "lobpcg-v0-fewer-columns"
    if res == "NUMPY" and brep == "csr":
        return "numpy-backend-sparse-B"  # (repaired in the repository: e1aee514)
    if (not herm) and res == "SCIPY" and which is None and sigtag is None:
        return "nonherm-default-which-scipy"
    return "none"


def _partial_subs(cell, d, herm, complex_data):
    grp, backend, rep = cell["grp"], cell["backend"], cell["rep"]
    linop = rep == "linop"
    full = cell.get("full", True)
    combos = [("vec", True), ("vec", False), ("val", True), ("val", False)] if full else [("vec", True), ("val", False)]
    subs = []

    def add(form, k, which, sig, sort, v0="std"):
        subs.append({"form": form, "k": k, "which": which, "sig": sig, "sort": sort, "v0": v0})

    if grp == "sel":  # dense selection semantics (NUMPY, or AUTO below the thresholds)
        ks = sorted({k for k in (1, 2, 3, d - 1, d) if 1 <= k <= d})
        for k in ks:
            for which, sig in W_NUMPY_H if herm else W_NUMPY_G:
                for form, sort in combos:
                    add(form, k, which, sig, sort)
    elif grp == "krylov":  # SCIPY
        lim = d - 2  # (scipy solves complex Hermitian problems with the general driver: k < d - 1)
        for k in [k for k in (1, 2, 3) if k <= lim]:
            # (a Hermitian operator fed to the general solver has an all-real spectrum: selecting by imaginary
            # part is a total tie decided by rounding noise - not asked of an iterative solver)
            for which, sig in _w_scipy(herm, d, complex_data, linop, zero_ok=cell["op"][0] not in ("singular", "symm", "degen"), real_spectrum=cell["op"][0] == "hermG"):
                for form, sort in combos:
                    add(form, k, which, sig, sort)
    elif grp == "lobpcg":
        for k in (1, 2, 3):
            for which, sig in [("SA", None), ("LA", None), (None, None), ("LM", None), ("TR", "in")]:
                for v0 in ("full", "1d", "none") if which in ("SA", "LA") else ("full",):
                    for form, sort in combos if v0 == "full" else [("vec", True)]:
                        add(form, k, which, sig, sort, v0)
    elif grp == "auto":  # sizes straddling the thresholds; k fixed by the cell
        k = cell["k"]
        ws = [("SA", None), ("LA", None), ("LM", None), (None, None)] if herm else [("LM", None), ("LR", None), (None, None)]
        if not linop and herm:  # (general problems with a target: see the assumptions)
            ws += [("TR", "in"), (None, "in"), (None, "z0"), (None, "z0.0")]
        for which, sig in ws:
            for form, sort in [("vec", True), ("val", True)]:
                add(form, k, which, sig, sort)
    elif grp == "metric":
        res0 = backend
        for k in (1, 2, 3):
            if k > d - 2:
                continue
            ws = [("SA", None), ("LA", None), (None, None)]
            if backend in ("NUMPY", "AUTO"):
                ws += [("LM", None), ("SM", None), ("TR", "in"), (None, "z0"), (None, "z0.0")]
            elif backend == "SCIPY":
                ws += [("LM", None)] + ([("TR", "in"), (None, "z0"), (None, "z0.0")] if cell.get("B") != "linop" else [])
            if not herm:
                ws = [("LM", None), ("SR", None), ("LR", None), ("SM", None), ("TR", "in"), (None, "z0.0")]
            for which, sig in ws:
                for form, sort in combos:
                    add(form, k, which, sig, sort, "full" if res0 == "LOBPCG" else "std")
    elif grp == "proj":
        for k in (1, 2):
            for which, sig in [("SA", None), ("LA", None)] + ([("TR", "in"), (None, "z0"), (None, "z0.0")] if backend != "LOBPCG" else []):
                for form, sort in combos:
                    add(form, k, which, sig, sort, "full" if backend == "LOBPCG" else "std")
    elif grp == "alias":
        for k in (1, 2):
            for which in ("SA", "LA"):
                add("vecs", k, which, None, True)
                add("vecs", k, which, None, False)
            if backend.upper() != "LOBPCG" and cell["rep"] != "linop" and cell["op"][0] != "degen":
                for sg in ("in", "z0", "z0.0"):
                    add("vecs", k, None, sg, True)
        for form in ("groundstate", "groundenergy", "bound_spectrum"):
            add(form, 1, None, None, True)
        if backend.upper() == "LOBPCG":
            add("fallback", 2, "TR", "in", True, "1d")
    else:
        raise KeyError(grp)
    return subs


def _sublabel(s):
    return "%s|k=%d|%s|sig=%s|%s|v0=%s" % (s["form"], s["k"], s["which"], s["sig"], "sort" if s["sort"] else "nosort", s["v0"])


def partial_cell(cell, common):
    qu = _qu()
    op = tuple(cell["op"])
    A, lam, herm = _build_op(op)
    d = A.shape[0]
    dt = op[2]
    complex_data = np.iscomplexobj(A)
    backend, rep, grp = cell["backend"], cell["rep"], cell["grp"]
    ck = "%s/%s/%s/%s/B=%s/P=%s" % (grp, "-".join(str(x) for x in op), backend, rep, cell.get("B"), cell.get("P"))
    Arep = _rep(A, rep)
    Bm = Brep = Pm = Prep = None
    n_eff = d
    if cell.get("B"):
        Bm = _metric(d, dt if complex_data else "f", op)
        Brep = _rep(Bm, {"nd": "ndarray"}.get(cell["B"], cell["B"]))
        if herm:
            L = np.linalg.cholesky(Bm)
            Li = np.linalg.inv(L)
            C = Li @ A @ Li.conj().T
            lam = np.linalg.eigvalsh((C + C.conj().T) / 2)
        else:
            lam = np.linalg.eigvals(np.linalg.solve(Bm, A))
    if cell.get("P"):
        m = d // 2
        Pm = fill("isometry", (d, m), _dtype(dt), ("c17-P", op))
        Prep = _rep(Pm, {"nd": "ndarray"}.get(cell["P"], cell["P"]))
        lam = np.linalg.eigvalsh(Pm.conj().T @ A @ Pm)
        n_eff = m
    acc = _Acc("partial", ck, {})
    for s in _partial_subs(cell, n_eff, herm, complex_data):
        _partial_eval(acc, qu, s, dict(A=A, lam=lam, herm=herm, d=d, n=n_eff, Arep=Arep, Bm=Bm, Brep=Brep, Pm=Pm, Prep=Prep, backend=backend, rep=rep, brep=cell.get("B"), dtype=A.dtype, op=op))
    return acc.res


def _partial_eval(acc, qu, s, e):
    sub = _sublabel(s)
    form, k, which, sigtag, sort, v0tag = s["form"], s["k"], s["which"], s["sig"], s["sort"], s["v0"]
    herm, backend, n, A = e["herm"], e["backend"], e["n"], e["A"]
    linop = e["rep"] == "linop"
    sigma = _sigma_of(sigtag, e["lam"])
    res = _resolved(backend.upper(), n, k, sigma, linop or e["brep"] == "linop")
    weff = which if which is not None else ("SA" if sigma is None else "TR")
    if form in ("groundstate", "groundenergy"):
        weff = "SA"
    kw = {}
    if form == "fallback":
        kw["fallback_to_scipy"] = True
        res_sig = "LOBPCG->SCIPY"
    else:
        res_sig = res
    if form not in ("groundstate", "groundenergy", "bound_spectrum"):
        kw["k"] = k
        if which is not None:
            kw["which"] = which
        kw["sort"] = sort
    if sigma is not None:
        kw["sigma"] = sigma
    kw["backend"] = backend
    if e["Brep"] is not None:
        kw["B"] = e["Brep"]
    if e["Prep"] is not None:
        kw["P"] = e["Prep"]
    # explicit start vectors (determinism of the iterative backends)
    vdt = e["dtype"]
    if res in ("LOBPCG",) or form == "fallback":
        kw["tol"] = 1e-10
        kw["maxiter"] = 500
        if v0tag == "full":
            kw["v0"] = fill("generic", (e["d"], k), vdt, ("c17-v0", e["op"], k))
        elif v0tag == "1d":
            kw["v0"] = fill("generic", (e["d"],), vdt, ("c17-v0", e["op"], 1))
        qu.seed_rand(1234)  # (a too-narrow / absent start block is completed with qu.randn columns)
    if res == "SCIPY" and form != "fallback" or (backend.upper() == "AUTO" and res == "NUMPY"):
        kw["v0"] = fill("generic", (n,), vdt, ("c17-v0", e["op"], "1d"))
    if form == "bound_spectrum":
        kw.pop("v0", None)  # forwarded to both solves; keep the default call
        if res == "SCIPY":
            kw["v0"] = fill("generic", (n,), vdt, ("c17-v0", e["op"], "1d"))
    lay = _lay_of(e["rep"])
    if lay is not None and isinstance(kw.get("v0"), np.ndarray):
        kw["v0"] = _layout(kw["v0"], lay)
    entry = FAMILY[herm].get(form, form) if form != "fallback" else FAMILY[herm]["vec"]
    root = _proot(herm, which, sigtag, res, e["brep"], v0tag if (res == "LOBPCG" and form != "fallback") else None, k)
    sig = dict(entry=entry, backend=backend.upper(), res=res_sig, herm=herm, root=root)
    # documented rejections
    expect = None
    if form != "fallback":
        if res == "LOBPCG" and not herm:
            expect = (ValueError, "lobpcg:non-hermitian:ValueError")
        elif res == "LOBPCG" and sigma is not None:
            expect = (ValueError, "lobpcg:sigma:ValueError")
        elif res == "LOBPCG" and weff not in ("SA", "LA"):
            expect = (KeyError, "lobpcg:which=%s:KeyError" % weff)
        elif res == "SCIPY" and not herm and which in ("SA", "LA"):
            expect = (ValueError, "scipy:non-hermitian:which=%s:ValueError" % which)
    objs = {"A": e["Arep"], "B": e["Brep"], "P": e["Prep"], "v0": kw.get("v0")}
    reseed = lambda: qu.seed_rand(1234)  # noqa: E731
    if res == "LOBPCG" and form != "fallback":
        # scipy.sparse.linalg.lobpcg orthonormalises its start block in place (scipy behaviour, passed
        # through): v0 is not fingerprinted there and is restored before the repeated call
        v0obj = objs.pop("v0")
        if isinstance(v0obj, np.ndarray):
            saved = v0obj.copy()

            def reseed():
                qu.seed_rand(1234)
                np.copyto(v0obj, saved)

    ok, out, pb = _run2(lambda: getattr(qu, entry)(e["Arep"], **kw), objs, reseed=reseed)
    if pb is not None:
        acc.bad(sub, pb[0], pb[1], **sig, **pb[2])
        return
    if expect is not None and not ok:
        # outside the backend's documented domain: it must reject cleanly - or be right (judged below)
        if isinstance(out, expect[0]) and not isinstance(out, np.linalg.LinAlgError):
            acc.rej(expect[1], sub)
        else:
            acc.bad(sub, _exc_fail(out), "expected %s, %s" % (expect[0].__name__, _exc_msg(out)), **sig)
        return
    if not ok:
        acc.bad(sub, _exc_fail(out), _exc_msg(out), **sig)
        return
    tol = {"NUMPY": TOL_DENSE if (herm and e["Bm"] is None) else TOL_GEN, "SCIPY": TOL_ARPACK, "LOBPCG": TOL_LOBPCG}[res if form != "fallback" else "SCIPY"]
    if res == "SCIPY" and e["brep"] == "linop":
        tol = 1e-5  # scipy inverts an action-only metric iteratively
    shift_invert = (res == "SCIPY" or form == "fallback") and sigma is not None
    keyf = _keyf(weff, sigma, herm, shift_invert=shift_invert and not herm)
    common = dict(A=A, lam_ref=e["lam"], herm=herm, tol=tol, Bm=e["Bm"], Pm=e["Pm"])
    if res != "NUMPY" or form == "fallback":
        # thresholded decision: an iterative solver cannot be held to a selection whose boundary is a
        # near-tie (keys k and k+1 closer than 1% of the spectral scale): then either member is accepted
        kref = np.sort(keyf(np.asarray(e["lam"])))
        scale = max(1.0, float(np.max(np.abs(e["lam"]))))
        kk = 1 if form in ("groundstate", "groundenergy", "bound_spectrum") else k
        if kk < len(kref) and int(np.sum(kref <= kref[kk - 1] + 0.01 * scale)) > kk:
            common["keytol"] = 0.01 * scale
    probs = []
    if form == "bound_spectrum":
        try:
            lo, hi = out
            lo, hi = np.atleast_1d(lo), np.atleast_1d(hi)
        except Exception:
            acc.bad(sub, "shape", "bound_spectrum did not return a pair", **sig)
            return
        probs.append(_eig_oracle(lo, None, k=1, keyf=_keyf("SA", None, herm), sort=True, **common))
        probs.append(_eig_oracle(hi, None, k=1, keyf=_keyf("LA", None, herm), sort=True, **common))
    elif form == "groundenergy":
        probs.append(_eig_oracle(np.atleast_1d(out), None, k=1, keyf=keyf, sort=True, **common))
    elif form in ("vecs", "groundstate"):
        try:
            v = _dense(out)
            v = v.reshape(v.shape[0], -1)
            l = _rayleigh(v, A, e["Bm"])
        except Exception as ex:
            acc.bad(sub, "shape", "result is not an array of eigenvectors (%s)" % type(ex).__name__, **sig)
            return
        probs.append(_eig_oracle(l, v, k=k, keyf=keyf, sort=sort and form == "vecs", **common))
    elif form in ("vec", "fallback"):
        if not (isinstance(out, tuple) and len(out) == 2):
            acc.bad(sub, "shape", "expected (values, vectors), got %s" % type(out).__name__, **sig)
            return
        probs.append(_eig_oracle(out[0], out[1], k=k, keyf=keyf, sort=sort, by_key=res == "NUMPY", **common))
    else:
        if isinstance(out, tuple):
            acc.bad(sub, "shape", "expected eigenvalues only, got a tuple", **sig)
            return
        probs.append(_eig_oracle(out, None, k=k, keyf=keyf, sort=sort, by_key=res == "NUMPY", **common))
    probs = [p for p in probs if p is not None]
    if probs:
        acc.bad(sub, probs[0][0], probs[0][1], **sig)
        return
    acc.ok(sub, nontrivial=k < n, outcome="%s:%s:%s:%s" % (res_sig, "H" if herm else "G", weff if which is not None or form in ("groundstate", "groundenergy", "bound_spectrum") else "default->" + weff, form))


def partial_cells(tier):
    quick = tier == "quick"
    cells = []

    def add(**kw):
        cells.append(kw)

    # --- selection semantics on the dense backend ---------------------------
    dsz = (2, 3, 6, 12) if quick else (2, 3, 4, 5, 6, 8, 12, 16)
    ops = [(kd, dt) for kd in ("herm", "degen", "symm", "singular", "psd", "neardeg") for dt in "fc"]
    ops += [("cgen", "c"), ("rgen", "f"), ("hermG", "f"), ("hermG", "c")]
    for kd, dt in ops:
        for d in dsz:
            for rep in ("ndarray", "qarray", "csr", "lazy", "lazy-csr", "lazy-scaled", "ndarray-F", "ndarray-T", "ndarray-S"):
                for backend in ("NUMPY", "AUTO"):
                    if backend == "AUTO" and rep in ("qarray", "lazy-csr", "lazy-scaled"):
                        continue
                    add(grp="sel", op=(kd, d, dt), backend=backend, rep=rep, full=(rep == "ndarray") or not quick)
    # --- ARPACK -------------------------------------------------------------
    ksz = (12, 20) if quick else (8, 12, 20, 32)
    ops = [(kd, dt) for kd in ("herm", "gapped", "neardeg", "psd") for dt in "fc"] + [("cgen", "c"), ("rgen", "f"), ("hermG", "c")]
    for kd, dt in ops:
        for d in ksz:
            if kd == "neardeg" and d > 20:
                continue
            for rep in ("ndarray", "qarray", "csr", "linop", "lazy", "lazy-csr", "ndarray-F", "ndarray-S"):
                add(grp="krylov", op=(kd, d, dt), backend="SCIPY", rep=rep, full=(rep in ("ndarray", "linop")) or not quick)
    # --- LOBPCG -------------------------------------------------------------
    for kd, dt in [(kd, dt) for kd in ("herm", "gapped", "psd") for dt in "fc"] + [("cgen", "c")]:
        for d in (12, 40) if quick else (12, 24, 40, 64):
            for rep in ("ndarray", "qarray", "csr", "linop", "lazy", "ndarray-F", "ndarray-S"):
                if kd == "cgen" and rep != "ndarray":
                    continue
                add(grp="lobpcg", op=(kd, d, dt), backend="LOBPCG", rep=rep, full=(rep == "ndarray") or not quick)
    # --- AUTO around the thresholds d^2/k = 2000 (10000 with a target) -------
    pairs = [(44, 1), (45, 1), (63, 2), (64, 2), (77, 3), (78, 3), (99, 1), (100, 1)]
    if not quick:
        pairs += [(141, 2), (142, 2), (173, 3), (174, 3), (89, 4), (90, 4)]
    for d, k in pairs:
        for kd, dt in [("herm", "f"), ("herm", "c"), ("gapped", "c"), ("cgen", "c"), ("rgen", "f")]:
            if quick and d >= 99 and kd in ("cgen", "rgen"):
                continue
            for rep in ("ndarray", "csr", "linop", "lazy", "ndarray-F"):
                add(grp="auto", op=(kd, d, dt), backend="AUTO", rep=rep, k=k)
    # --- generalised problems with a PD metric --------------------------------
    for kd, dt in [("herm", "f"), ("herm", "c"), ("gapped", "c"), ("cgen", "c")]:
        for d in (6, 12, 20) if quick else (4, 6, 12, 20, 32):
            for backend in ("NUMPY", "SCIPY", "LOBPCG", "AUTO"):
                if kd == "cgen" and backend != "NUMPY":
                    continue
                for B in ("nd", "csr", "linop", "lazy"):
                    if backend == "NUMPY" and B == "linop":
                        continue  # eigs_numpy documents array_like / sparse / Lazy metrics only
                    if backend == "AUTO" and B == "linop":
                        continue
                    for rep in ("ndarray", "csr"):
                        add(grp="metric", op=(kd, d, dt), backend=backend, rep=rep, B=B, full=(rep == "ndarray" and B == "nd") or not quick)
                # memory layouts of the dense operator and metric (C / Fortran / transposed view / strided view)
                for rep, B in [("ndarray-F", "nd"), ("ndarray-T", "nd"), ("ndarray-S", "nd"), ("ndarray", "nd-F"), ("ndarray", "nd-T"), ("ndarray", "nd-S"), ("ndarray-F", "nd-F"), ("ndarray-T", "nd-T"), ("ndarray-S", "nd-S")]:
                    add(grp="metric", op=(kd, d, dt), backend=backend, rep=rep, B=B, full=not quick)
    for d, k in [(44, 1), (45, 1)]:
        for B in ("nd", "csr"):
            add(grp="auto", op=("herm", d, "c"), backend="AUTO", rep="csr", B=B, k=k)
    # --- projected problems ---------------------------------------------------
    for kd, dt in [("herm", "f"), ("herm", "c"), ("gapped", "c")]:
        for d in (8, 12) if quick else (8, 12, 24):
            for backend in ("NUMPY", "SCIPY", "LOBPCG"):
                for P in ("nd", "csr", "lazy"):
                    for rep in ("ndarray", "csr"):
                        add(grp="proj", op=(kd, d, dt), backend=backend, rep=rep, P=P, full=(P == "nd") or not quick)
                for rep, P in [("ndarray-F", "nd"), ("ndarray-S", "nd"), ("ndarray", "nd-F"), ("ndarray", "nd-T"), ("ndarray", "nd-S"), ("ndarray-T", "nd-T")]:
                    add(grp="proj", op=(kd, d, dt), backend=backend, rep=rep, P=P, full=not quick)
    # --- aliases ----------------------------------------------------------------
    for kd, dt in [("herm", "f"), ("herm", "c"), ("gapped", "c"), ("degen", "c")]:
        for d in (6, 12, 45):
            for backend in ("auto", "numpy", "scipy", "lobpcg"):  # documented case-insensitive
                if kd == "degen" and (backend in ("scipy", "lobpcg") or d == 45):
                    continue
                for rep in ("ndarray", "csr", "linop", "ndarray-F"):
                    if rep == "linop" and (backend == "numpy" or kd == "degen"):
                        continue  # (AUTO sends an action-only operator to ARPACK)
                    add(grp="alias", op=(kd, d, dt), backend=backend, rep=rep)
    for c in cells:
        c["op"] = list(c["op"])
    return cells


# --------------------------------------------------------------------------- #
#              table 2: full decompositions, block structure                  #
# --------------------------------------------------------------------------- #


def _partitions(n, maxpart=None):
    maxpart = n if maxpart is None else maxpart
    if n == 0:
        yield ()
        return
    for p in range(min(n, maxpart), 0, -1):
        for rest in _partitions(n - p, p):
            yield (p,) + rest


def _perm(name, d, key):
    if name == "id":
        return np.arange(d)
    if name == "rev":
        return np.arange(d)[::-1].copy()
    if name == "stride":  # multiplication by a unit mod d (interleaves blocks)
        s = next(s for s in range(2, d + 2) if np.gcd(s, d) == 1) if d > 2 else 1
        return (np.arange(d) * s) % d
    if name == "seeded":
        return rng_for("c17-perm", key).permutation(d)
    raise KeyError(name)


def _block_matrix(blocks, fk, dt, herm):
    """block diagonal operator and, per block, its spectrum computed
    block-wise by numpy (the reference of the direct computation)."""
    d = sum(blocks)
    dtype = _dtype(dt)
    A = np.zeros((d, d), dtype=dtype)
    o = 0
    lam = []
    for j, b in enumerate(blocks):
        key = ("c17-blk", fk, dt, b, 0 if fk == "degen" else j)
        if herm:
            Hb = fill("hermitian", (b, b), dtype, key)
            Hb = (Hb + Hb.conj().T) / 2
            if fk == "kernel" and j == len(blocks) - 1:
                Hb = np.zeros_like(Hb)
            if fk == "zerodiag":
                Hb = Hb - np.diag(np.diag(Hb))
            lam += list(np.linalg.eigvalsh(Hb))
        else:
            Hb = fill("generic", (b, b), dtype, key)
            lam += list(np.linalg.eigvals(Hb))
        A[o : o + b, o : o + b] = Hb
        o += b
    return A, np.array(lam)


def full_cell(cell, common):
    qu = _qu()
    blocks, pname, dt, fk = tuple(cell["blocks"]), cell["perm"], cell["dt"], cell["fk"]
    d = sum(blocks)
    ck = "%s/%s/%s/%s" % ("+".join(map(str, blocks)), pname, dt, fk)
    acc = _Acc("full", ck, {})
    p = _perm(pname, d, (blocks, dt, fk))
    for herm in (True, False):
        if not herm and fk != "herm":
            continue
        A0, lam_blocks = _block_matrix(blocks, fk, dt, herm)
        A = A0[np.ix_(p, p)]
        lam_direct = np.linalg.eigvalsh(A) if herm else np.linalg.eigvals(A)
        for form in ("vec", "val", "vecs"):
            entry = FAMILY[herm][form]
            for autoblock in (False, True):
                # the block shortcut is compared with the direct spectrum and
                # the direct computation with the block-wise spectrum
                lam_ref = lam_direct if autoblock else lam_blocks
                for sort in (True, False):
                    for rep in ("ndarray", "qarray", "ndarray-F", "ndarray-T", "ndarray-S"):
                        if autoblock and not herm and not (sort and rep == "ndarray"):
                            continue  # one documented rejection per entry point is enough
                        if _lay_of(rep) is not None and not sort:
                            continue
                        sub = "%s|autoblock=%s|%s|%s" % (entry, autoblock, "sort" if sort else "nosort", rep)
                        root = "autoblock-values-only-complex" if (autoblock and herm and form == "val" and dt == "c") else "none"
                        sig = dict(entry=entry, autoblock=autoblock, herm=herm, root=root)
                        Arep = _rep(A, rep)
                        ok, out, pb = _run2(lambda: getattr(qu, entry)(Arep, autoblock=autoblock, sort=sort), {"A": Arep})
                        if pb is not None:
                            acc.bad(sub, pb[0], pb[1], **sig, **pb[2])
                            continue
                        if autoblock and not herm:
                            if not ok and isinstance(out, NotImplementedError):
                                acc.rej("autoblock:non-hermitian:NotImplementedError", sub)
                            elif ok:
                                acc.bad(sub, "no-rejection", "non-Hermitian autoblock documented as not implemented but returned", **sig)
                            else:
                                acc.bad(sub, _exc_fail(out), _exc_msg(out), **sig)
                            continue
                        if not ok:
                            acc.bad(sub, _exc_fail(out), _exc_msg(out), **sig)
                            continue
                        tol = TOL_DENSE if herm else TOL_GEN
                        if form == "vec":
                            if not (isinstance(out, tuple) and len(out) == 2):
                                acc.bad(sub, "shape", "expected (values, vectors)", **sig)
                                continue
                            l, v = out
                        elif form == "val":
                            l, v = out, None
                        else:
                            v = _dense(out)
                            l = _rayleigh(v, A) if v.ndim == 2 and v.shape[0] == d else np.zeros(0)
                        pr = _eig_oracle(l, v, A, lam_ref, d, None, herm, sort, tol)
                        if pr is None and herm and v is not None:
                            vv = _dense(v)
                            rec = (vv * np.asarray(l).real) @ vv.conj().T
                            if not ref.close(rec, A, 1e-8, 1e-10):
                                pr = ("recon", "ev @ diag(el) @ ev.H != A (relerr %.3g)" % ref.relerr(rec, A))
                        if pr is not None:
                            acc.bad(sub, pr[0], pr[1], **sig)
                            continue
                        nb = len(blocks)
                        acc.ok(sub, nontrivial=d > 1, outcome="%s:%s:%s" % (entry, "auto" if autoblock else "direct", "1blk" if nb == 1 else ("diag" if nb == d else "blocks")))
    return acc.res


def full_cells(tier):
    quick = tier == "quick"
    cells = []
    dmax = 5 if quick else 8
    for d in range(1, dmax + 1):
        for blocks in _partitions(d):
            for pname in ("id", "rev", "stride", "seeded"):
                if d <= 2 and pname in ("stride", "seeded"):
                    continue
                for dt in "fc":
                    for fk in ("herm", "degen", "kernel", "zerodiag"):
                        if fk == "zerodiag" and max(blocks) == 1:
                            continue
                        cells.append({"blocks": list(blocks), "perm": pname, "dt": dt, "fk": fk})
    # a few larger structured ones (many sectors, as for conserved charges)
    for blocks in [(1, 4, 6, 4, 1), (6, 6), (12,), (3, 3, 3, 3), (1,) * 8, (8, 1, 1), (5, 4, 2, 1)] + ([] if quick else [(1, 6, 15, 20, 15, 6, 1), (16, 16), (10, 9, 8, 7)]):
        for pname in ("id", "stride", "seeded"):
            for dt in "fc":
                for fk in ("herm", "degen", "kernel"):
                    cells.append({"blocks": list(blocks), "perm": pname, "dt": dt, "fk": fk})
    return cells


# --------------------------------------------------------------------------- #
#                           table 3: spectral windows                         #
# --------------------------------------------------------------------------- #

WIN_W0 = (0.0, 0.25, 0.5, 0.8, 1.0)
WIN_SZ = (None, 0.1, 0.3, 1.0)
OFFSET_CONST = 1 / 104729  # documented default of eigh_window(offset_const=)


def window_cell(cell, common):
    qu = _qu()
    op = tuple(cell["op"])
    A, lam, herm = _build_op(op)
    d = A.shape[0]
    rep, backend = cell["rep"], cell["backend"]
    ck = "%s/%s/%s" % ("-".join(str(x) for x in op), rep, backend)
    acc = _Acc("window", ck, {})
    Arep = _rep(A, rep)
    dense_path = rep in ("ndarray", "qarray", "ndarray-F", "ndarray-T", "ndarray-S") or backend == "NUMPY"
    lmin, lmax = float(np.min(lam)), float(np.max(lam))
    R = lmax - lmin
    for form, entry in (("vec", "eigh_window"), ("val", "eigvalsh_window"), ("vecs", "eigvecsh_window")):
        for w0 in WIN_W0:
            for k in sorted({1, 2, 3, d}):
                for wsz in WIN_SZ:
                    sub = "%s|w0=%s|k=%d|wsz=%s" % (entry, w0, k, wsz)
                    res = "NUMPY" if dense_path else _resolved(backend, d, k, 0.0, False)
                    if not dense_path and res == "SCIPY" and k > d - 2:
                        continue  # ARPACK needs k < d - 1 (complex Hermitian input goes through the general driver)
                    sig = dict(entry=entry, backend=backend, path="dense" if dense_path else "iterative", root="none")
                    kw = dict(backend=backend)
                    if wsz is not None:
                        kw["w_sz"] = wsz
                    if not dense_path and (res == "SCIPY" or backend == "AUTO"):
                        kw["v0"] = fill("generic", (d,), A.dtype, ("c17-v0", op, "1d"))
                    lay = _lay_of(rep)
                    if lay is not None and "v0" in kw:
                        kw["v0"] = _layout(kw["v0"], lay)
                    ok, out, pb = _run2(lambda: getattr(qu, entry)(Arep, w0, k, **kw), {"A": Arep, "v0": kw.get("v0")})
                    if pb is not None:
                        acc.bad(sub, pb[0], pb[1], **sig, **pb[2])
                        continue
                    if not ok:
                        acc.bad(sub, _exc_fail(out), _exc_msg(out), **sig)
                        continue
                    tol = TOL_DENSE if res == "NUMPY" else TOL_ARPACK
                    if form == "vec":
                        if not (isinstance(out, tuple) and len(out) == 2):
                            acc.bad(sub, "shape", "expected (values, vectors)", **sig)
                            continue
                        l, v = np.asarray(out[0]), out[1]
                    elif form == "val":
                        l, v = np.asarray(out), None
                    else:
                        v = _dense(out)
                        if v.ndim != 2 or v.shape[0] != d:
                            acc.bad(sub, "shape", "eigenvector array has shape %s" % (v.shape,), **sig)
                            continue
                        l = _rayleigh(v, A).real if v.shape[1] else np.zeros(0)
                    if l.ndim != 1:
                        acc.bad(sub, "shape", "eigenvalue array has shape %s" % (l.shape,), **sig)
                        continue
                    we = 1.1 if wsz is None else wsz
                    c = lmin + w0 * R
                    lo, hi = c - we * R / 2, c + we * R / 2
                    mg = 1e-6 * max(R, 1.0)
                    n_strict = int(np.sum((lam > lo + mg) & (lam < hi - mg)))
                    n_loose = int(np.sum((lam > lo - mg) & (lam < hi + mg)))
                    n = len(l)
                    if np.any(l <= lo - mg) or np.any(l >= hi + mg):
                        acc.bad(sub, "window", "eigenvalue outside the requested window (%.6g, %.6g): %s" % (lo, hi, np.round(l, 6).tolist()[:8]), **sig)
                        continue
                    if dense_path:
                        nmin, nmax = n_strict, n_loose
                    else:
                        nmin, nmax = min(k, n_strict), min(k, n_loose)
                    if not (nmin <= n <= nmax):
                        acc.bad(sub, "count", "%d eigenvalues returned, the window holds %d..%d (k=%d)" % (n, n_strict, n_loose, k), **sig)
                        continue
                    inwin = lam[(lam > lo - mg) & (lam < hi + mg)]
                    keyf = None if dense_path else (lambda a: np.abs(np.real(a) - c))
                    keytol = 2.5 * R * OFFSET_CONST + tol * max(1.0, abs(lmax), abs(lmin)) + mg
                    if keyf is not None and res == "SCIPY" and 0 < n < len(inwin):
                        kref = np.sort(keyf(inwin))
                        if int(np.sum(kref <= kref[n - 1] + 0.01 * max(R, 1.0))) > n:
                            keytol = max(keytol, 0.01 * max(R, 1.0))  # near-tie at the selection boundary (iterative solver)
                    pr = _eig_oracle(l, v, A, inwin, n, keyf, True, True, tol, keytol=keytol)
                    if pr is not None:
                        acc.bad(sub, pr[0], pr[1], **sig)
                        continue
                    acc.ok(sub, nontrivial=0 < n < d, outcome="%s:%s:%s" % ("dense" if dense_path else "iter-" + res, form, "empty" if n == 0 else ("all" if n == d else ("k" if n == k else "window"))))
    return acc.res


def window_cells(tier):
    quick = tier == "quick"
    cells = []
    for kd, dt in [("herm", "f"), ("herm", "c"), ("gapped", "c"), ("degen", "c"), ("symm", "f"), ("neardeg", "c"), ("singular", "c")]:
        for d in (6, 12, 20) if quick else (4, 6, 12, 20, 32):
            for rep in ("ndarray", "qarray", "csr", "ndarray-F", "ndarray-T", "ndarray-S"):
                for backend in ("AUTO", "NUMPY", "SCIPY"):
                    if kd in ("degen", "singular") and rep == "csr" and backend == "SCIPY":
                        continue  # exactly degenerate spectra go to the dense backends only
                    if _lay_of(rep) is not None and (backend != "AUTO" or d == 20):
                        continue
                    cells.append({"op": [kd, d, dt], "rep": rep, "backend": backend})
    return cells


# --------------------------------------------------------------------------- #
#                 table 4: singular values, norms, randomised SVD             #
# --------------------------------------------------------------------------- #

SVALS = {
    "graded": lambda r: np.array([1.7 * 0.62**j for j in range(r)]),
    "degen": lambda r: np.array(([2.0, 2.0, 1.0, 1.0, 1.0, 0.5] * r)[:r]),
    "deficient": lambda r: np.array([1.5 * 0.7**j if j < max(1, r // 2) else 0.0 for j in range(r)]),
}


def _build_mat(mat):
    """mat = (kind, m, n, dt) -> (M, singular values descending)."""
    kind, m, n, dt = mat[0], int(mat[1]), int(mat[2]), mat[3]
    dtype = _dtype(dt)
    key = ("c17-mat", kind, m, n, dt)
    r = min(m, n)
    if kind == "generic":
        M = fill("generic", (m, n), dtype, key)
        return M, np.linalg.svd(M, compute_uv=False)
    if kind == "herm":
        M = fill("hermitian", (m, m), dtype, key)
        M = (M + M.conj().T) / 2
        return M, np.linalg.svd(M, compute_uv=False)
    if kind.startswith("rank"):
        rr = int(kind[4:])
        s = np.array([1.3 * 0.8**j for j in range(rr)])
        M = fill("svals", (m, n), dtype, key, s=s)
        return M, np.concatenate([s, np.zeros(r - rr)])
    s = SVALS[kind](r)
    M = fill("svals", (m, n), dtype, key, s=s)
    return M, np.sort(s)[::-1]


def _svd_oracle(out, M, s_ref, k, rv, tol, top=True, s_tol=None):
    """singular triplets: shapes, non-negative descending values equal to the
    k largest reference values, orthonormal factors, A V = U s, A^H U = V s."""
    m, n = M.shape
    if rv:
        if not (isinstance(out, tuple) and len(out) == 3):
            return "shape", "expected (U, s, VH), got %s" % type(out).__name__
        U, s, VH = _dense(out[0]), np.asarray(out[1]), _dense(out[2])
    else:
        if isinstance(out, tuple):
            return "shape", "expected singular values only, got a tuple of %d" % len(out)
        U, s, VH = None, np.asarray(out), None
    if s.ndim != 1 or s.shape[0] != k:
        return "count", "singular value array has shape %s, requested k=%d" % (s.shape, k)
    if not np.all(np.isfinite(s)):
        return "nonfinite", "non-finite singular values"
    scale = max(float(s_ref[0]) if len(s_ref) else 1.0, 1e-300)
    at = (tol if s_tol is None else s_tol) * scale
    if np.any(s < -at) or np.any(np.diff(s) > at):
        return "order", "singular values not non-negative descending: %s" % (np.round(s, 8).tolist()[:8],)
    if top and float(np.max(np.abs(s - s_ref[:k]))) > at:
        return "values", "singular values %s differ from the %d largest %s" % (np.round(s, 8).tolist()[:6], k, np.round(s_ref[:k], 8).tolist()[:6])
    if not rv:
        return None
    if U.shape != (m, k) or VH.shape != (k, n):
        return "shape", "factor shapes %s %s, expected %s %s" % (U.shape, VH.shape, (m, k), (k, n))
    if not (np.all(np.isfinite(U)) and np.all(np.isfinite(VH))):
        return "nonfinite", "non-finite singular vectors"
    gu = float(np.max(np.abs(U.conj().T @ U - np.eye(k))))
    gv = float(np.max(np.abs(VH @ VH.conj().T - np.eye(k))))
    if max(gu, gv) > tol * 100:
        return "gram", "singular vectors not orthonormal: defects %.3g / %.3g" % (gu, gv)
    r1 = float(np.max(np.abs(M @ VH.conj().T - U * s[None, :])))
    r2 = float(np.max(np.abs(M.conj().T @ U - VH.conj().T * s[None, :])))
    if max(r1, r2) > tol * 10 * scale:
        return "residual", "A v = s u / A^H u = s v violated: %.3g / %.3g" % (r1, r2)
    return None


NORM_SPELL = {2: "2", "2": "2", "spectral": "2", "f": "f", "fro": "f", "t": "t", "trace": "t", "nuc": "t", "tr": "t"}


def svd_cell(cell, common):
    qu = _qu()
    what = cell["what"]
    mat = tuple(cell["mat"])
    M, s_ref = _build_mat(mat)
    m, n = M.shape
    r = min(m, n)
    ck = "%s/%s/%s/%s" % (what, "-".join(str(x) for x in mat), cell.get("backend"), cell.get("rep"))
    acc = _Acc("svd", ck, {})
    if what == "svd":
        for rep in ("ndarray", "qarray", "ndarray-F", "ndarray-T", "ndarray-S"):
            for rv in (True, False):
                sub = "svd|%s|%s" % (rep, "vec" if rv else "val")
                sig = dict(entry="svd", root="none")
                Mrep = _rep(M, rep)
                ok, out, pb = _run2(lambda: qu.svd(Mrep, return_vecs=rv), {"A": Mrep})
                if pb is not None:
                    acc.bad(sub, pb[0], pb[1], **sig, **pb[2])
                    continue
                if not ok:
                    acc.bad(sub, _exc_fail(out), _exc_msg(out), **sig)
                    continue
                pr = _svd_oracle(out, M, s_ref, r, rv, TOL_DENSE)
                if pr is None and rv:
                    U, s, VH = _dense(out[0]), np.asarray(out[1]), _dense(out[2])
                    if not ref.close((U * s) @ VH, M, 1e-9, 1e-12):
                        pr = ("recon", "U s VH != A (relerr %.3g)" % ref.relerr((U * s) @ VH, M))
                if pr is not None:
                    acc.bad(sub, pr[0], pr[1], **sig)
                else:
                    acc.ok(sub, nontrivial=r > 1, outcome="svd:%s" % ("vec" if rv else "val"))
    elif what == "svds":
        backend, rep = cell["backend"], cell["rep"]
        Mrep = _rep(M, rep)
        for k in sorted({k for k in (1, 2, 3, r - 1, r) if 1 <= k <= r}):
            res = _resolved(backend, m, k, None, rep == "linop")
            if res == "SCIPY" and k > r - 2:
                continue  # ARPACK's documented range
            if res == "SCIPY" and mat[0] == "degen":
                continue  # exactly degenerate values go to the dense backend only
            for rv in (True, False):
                sub = "svds|k=%d|%s" % (k, "vec" if rv else "val")
                sig = dict(entry="svds", backend=backend, res=res, root="none")
                kw = dict(backend=backend, return_vecs=rv)
                if res == "SCIPY" or backend == "AUTO":
                    kw["v0"] = fill("generic", (r,), M.dtype, ("c17-sv0", mat))
                lay = _lay_of(rep)
                if lay is not None and "v0" in kw:
                    kw["v0"] = _layout(kw["v0"], lay)
                ok, out, pb = _run2(lambda: qu.svds(Mrep, k, **kw), {"A": Mrep, "v0": kw.get("v0")})
                if pb is not None:
                    acc.bad(sub, pb[0], pb[1], **sig, **pb[2])
                    continue
                if not ok:
                    acc.bad(sub, _exc_fail(out), _exc_msg(out), **sig)
                    continue
                pr = _svd_oracle(out, M, s_ref, k, rv, TOL_DENSE if res == "NUMPY" else TOL_ARPACK)
                if pr is not None:
                    acc.bad(sub, pr[0], pr[1], **sig)
                else:
                    acc.ok(sub, nontrivial=k < r, outcome="svds:%s:%s" % (res, "vec" if rv else "val"))
    elif what == "norm":
        rep = cell["rep"]
        Mrep = _rep(M, rep)
        sparse = rep in ("csr", "csc", "coo", "bsr")
        res2 = _resolved("AUTO", m, 1, None, False)
        expv = {"2": float(s_ref[0]), "f": float(np.sqrt(np.sum(np.abs(M) ** 2))), "t": float(np.sum(s_ref))}
        variants = [(nt, {}) for nt in NORM_SPELL] + [("default", {})]
        if mat[0] == "herm" and not sparse:
            variants.append(("tr", {"isherm": True}))
        variants.append((2, {"backend": "NUMPY"}))
        if r > 2:
            variants.append(("2", {"backend": "SCIPY", "v0": fill("generic", (r,), M.dtype, ("c17-sv0", mat))}))
        for nt, kw in variants:
            typ = "2" if nt == "default" else NORM_SPELL[nt]
            sub = "norm|%r|%s" % (nt, ",".join(sorted(kw)))
            sig = dict(entry="norm", ntype=typ, sparse=sparse, root="none")
            ok, out, pb = _run2(lambda: qu.norm(Mrep, **kw) if nt == "default" else qu.norm(Mrep, nt, **kw), {"A": Mrep, "v0": kw.get("v0")})
            if pb is not None:
                acc.bad(sub, pb[0], pb[1], **sig, **pb[2])
                continue
            if sparse and typ == "t":
                if not ok and isinstance(out, KeyError):
                    acc.rej("norm:trace:sparse:KeyError", sub)
                    continue
            if not ok:
                acc.bad(sub, _exc_fail(out), _exc_msg(out), **sig)
                continue
            try:
                x = float(np.real(out))
                scalar = np.ndim(out) == 0
            except Exception:
                x, scalar = float("nan"), False
            tol = TOL_ARPACK if (typ == "2" and (kw.get("backend") == "SCIPY" or (res2 == "SCIPY" and "backend" not in kw))) else TOL_DENSE
            if not scalar or not np.isfinite(x) or abs(x - expv[typ]) > tol * max(expv[typ], 1e-300) * 10:
                acc.bad(sub, "mismatch", "norm %r = %r, defining expression gives %.12g" % (nt, out if scalar else type(out).__name__, expv[typ]), **sig)
                continue
            acc.ok(sub, nontrivial=r > 1, outcome="norm:%s:%s" % (typ, "sparse" if sparse else "dense"))
    elif what == "rsvd":
        _rsvd_subs(acc, qu, M, s_ref, mat)
    else:
        raise KeyError(what)
    return acc.res


def _concat_reached(rank, k_start, use_qb, k_max, k_incr=1.4):
    """does rsvd_iterate's documented block schedule (k_start, then steps
    growing by k_incr) leave QB mode (accumulated rank >= use_qb, or use_qb
    false) before the accumulated rank exceeds the rank of the input?  A pure
    function of the case."""
    acc_rank, step = k_start, k_start
    while acc_rank <= rank and acc_rank < k_max:
        new_k = min(step, k_max - acc_rank)
        step = round(k_incr * step)
        acc_rank += new_k
        if not ((acc_rank < use_qb) or (use_qb is True)):
            return True
    return False


def _rsvd_subs(acc, qu, M, s_ref, mat):
    from quimb.linalg import rand_linalg as rl

    m, n = M.shape
    r = min(m, n)
    rank = int(np.sum(s_ref > 1e-12))
    nrm = float(s_ref[0])
    for rep in ("ndarray", "qarray", "ndarray-F", "ndarray-T", "ndarray-S"):
        Mrep = _rep(M, rep)
        # --- fixed k ('block' mode): exact on exactly low-rank input when k >= rank
        for k in sorted({rank, rank + 2, min(r, rank + 5)}):
            if k > r:
                continue
            for q in (0, 2):
                for p in (0, 3):
                    if k + p > r:
                        continue
                    for g0 in (False, True):
                        for uv in (True, False):
                            sub = "rsvd|%s|k=%d|q=%d|p=%d|G0=%s|%s" % (rep, k, q, p, g0, "vec" if uv else "val")
                            sig = dict(entry="rsvd", mode="block", root="none")
                            kw = dict(q=q, p=p, compute_uv=uv)
                            if g0:  # rsvd works on the tall orientation: the block lives on the short side
                                kw["G0"] = fill("generic", (min(m, n), k + p), M.dtype, ("c17-G0", mat, k, p))
                            qu.seed_rand(4321)
                            ok, out, pb = _run2(lambda: qu.rsvd(Mrep, k, **kw), {"A": Mrep, "G0": kw.get("G0")}, reseed=lambda: qu.seed_rand(4321))
                            if pb is not None:
                                acc.bad(sub, pb[0], pb[1], **sig, **pb[2])
                                continue
                            if not ok:
                                acc.bad(sub, _exc_fail(out), _exc_msg(out), **sig)
                                continue
                            pr = _svd_oracle(out, M, s_ref, k, uv, 1e-8, s_tol=1e-8)
                            if pr is None and uv:
                                U, s, VH = _dense(out[0]), np.asarray(out[1]), _dense(out[2])
                                if float(np.max(np.abs((U * s) @ VH - M))) > 1e-8 * nrm:
                                    pr = ("recon", "U s VH does not reproduce the rank-%d input with k=%d" % (rank, k))
                            if pr is not None and pr[0] in ("gram", "residual") and k > rank:
                                # vectors of numerically zero values are arbitrary: only the product is asserted
                                pr = None
                            if pr is not None:
                                acc.bad(sub, pr[0], pr[1], **sig)
                            else:
                                acc.ok(sub, nontrivial=True, outcome="rsvd:block:%s" % ("vec" if uv else "val"))
        # --- adaptive modes with a precision target
        for mode in ("adapt+block", "adapt"):
            for q in (0, 2):
                for use_qb in (20, True, 0):
                    for k_start in (2, 5):
                        for uv in (True, False):
                            sub = "rsvd|%s|eps|%s|q=%d|qb=%s|ks=%d|%s" % (rep, mode, q, use_qb, k_start, "vec" if uv else "val")
                            root = "none"
                            if mode == "adapt" and not uv:
                                root = "rsvd-adapt-values-only"
                            elif mode == "adapt" and _concat_reached(rank, k_start, use_qb, r):
                                root = "rsvd-adapt-svd-concatenation"
                            sig = dict(entry="rsvd", mode=mode, root=root, concat=bool(mode == "adapt" and _concat_reached(rank, k_start, use_qb, r)))
                            qu.seed_rand(4321)
                            ok, out, pb = _run2(lambda: qu.rsvd(Mrep, 1e-8, mode=mode, q=q, use_qb=use_qb, k_start=k_start, compute_uv=uv), {"A": Mrep}, reseed=lambda: qu.seed_rand(4321))
                            if pb is not None:
                                acc.bad(sub, pb[0], pb[1], **sig, **pb[2])
                                continue
                            if not ok:
                                acc.bad(sub, _exc_fail(out), _exc_msg(out), **sig)
                                continue
                            if uv:
                                if not (isinstance(out, tuple) and len(out) == 3):
                                    acc.bad(sub, "shape", "expected (U, s, VH)", **sig)
                                    continue
                                U, s, VH = _dense(out[0]), np.asarray(out[1]), _dense(out[2])
                            else:
                                if isinstance(out, tuple):
                                    acc.bad(sub, "shape", "compute_uv=False returned a tuple of %d instead of the singular values" % len(out), **sig)
                                    continue
                                U, s, VH = None, np.asarray(out), None
                            kk = s.shape[0] if s.ndim == 1 else -1
                            if kk < rank or kk > r:
                                acc.bad(sub, "count", "%d singular values for a rank-%d input at eps=1e-8" % (kk, rank), **sig)
                                continue
                            if np.any(np.diff(s) > 1e-7 * nrm) or np.any(s < -1e-7 * nrm) or float(np.max(np.abs(s[:rank] - s_ref[:rank]))) > 1e-6 * nrm or (kk > rank and float(np.max(np.abs(s[rank:]))) > 1e-6 * nrm):
                                acc.bad(sub, "values", "singular values %s, reference %s" % (np.round(s, 8).tolist()[:6], np.round(s_ref[:rank], 8).tolist()), **sig)
                                continue
                            if uv:
                                if U.shape != (m, kk) or VH.shape != (kk, n):
                                    acc.bad(sub, "shape", "factor shapes %s %s" % (U.shape, VH.shape), **sig)
                                    continue
                                if float(np.max(np.abs((U * s) @ VH - M))) > 1e-6 * nrm:
                                    acc.bad(sub, "recon", "U s VH differs from the input by %.3g" % float(np.max(np.abs((U * s) @ VH - M))), **sig)
                                    continue
                            acc.ok(sub, nontrivial=True, outcome="rsvd:%s:%s" % (mode, "vec" if uv else "val"))
        # --- estimate_rank: documented as low resolution (~10)
        for use_sli in (True, False):
            for kmax in (None, r, max(rank + 1, r // 2)):
                for q in (0, 1):
                    sub = "estimate_rank|%s|sli=%s|kmax=%s|q=%d" % (rep, use_sli, kmax, q)
                    sli_path = use_sli and (kmax is None or kmax == r)
                    sig = dict(entry="estimate_rank", root="rsvd-adapt-svd-concatenation" if (not sli_path and _concat_reached(rank, 2, 20, r if kmax is None else kmax)) else "none")
                    qu.seed_rand(4321)
                    ok, out, pb = _run2(lambda: qu.estimate_rank(Mrep, 1e-8, k_max=kmax, use_sli=use_sli, q=q), {"A": Mrep}, reseed=lambda: qu.seed_rand(4321))
                    if pb is not None:
                        acc.bad(sub, pb[0], pb[1], **sig, **pb[2])
                        continue
                    if not ok:
                        acc.bad(sub, _exc_fail(out), _exc_msg(out), **sig)
                        continue
                    if sli_path:
                        # scipy's interpolative estimator, passed through: it overshoots freely (up to full
                        # rank on wide inputs), so only "pass-through and not below the rank" is asserted
                        import scipy.linalg.interpolative as sli

                        lo_ok, hi = int(sli.estimate_rank(np.array(M), 1e-8)), None
                        good = isinstance(out, (int, np.integer)) and int(out) == lo_ok and rank <= int(out) <= r
                        hi = lo_ok
                    else:
                        hi = max(rank, min(rank + 12, r if kmax is None else kmax))
                        good = isinstance(out, (int, np.integer)) and rank <= int(out) <= hi
                    if not good:
                        acc.bad(sub, "rank", "estimate %r for an exactly rank-%d input (accepted: %d..%d)" % (out, rank, rank, hi), **sig)
                        continue
                    acc.ok(sub, nontrivial=True, outcome="estimate_rank:+%d" % (int(out) - rank))
        sub = "estimate_rank|%s|eps=0" % rep
        ok, out = _run(lambda: qu.estimate_rank(Mrep, 0.0))
        if ok and out == r:
            acc.ok(sub, nontrivial=False, outcome="estimate_rank:eps0")
        else:
            acc.bad(sub, "rank" if ok else _exc_fail(out), "eps=0 documented to give k_max=%d, got %r" % (r, out), entry="estimate_rank", root="none")


def svd_cells(tier):
    quick = tier == "quick"
    cells = []
    shapes = [(1, 1), (2, 2), (3, 5), (5, 3), (6, 6), (12, 7), (7, 12)] + ([] if quick else [(1, 4), (4, 1), (9, 9), (20, 11)])
    for m, n in shapes:
        for dt in "fc":
            for kind in ("generic", "graded", "degen", "deficient"):
                cells.append({"what": "svd", "mat": [kind, m, n, dt]})
    for m, n in [(6, 6), (12, 7), (7, 12), (20, 20), (44, 30), (45, 30), (64, 64)] + ([] if quick else [(63, 40), (90, 50), (32, 9)]):
        for dt in "fc":
            for kind in ("generic", "graded", "degen"):
                if kind == "degen" and m > 20:
                    continue
                for backend in ("AUTO", "NUMPY", "SCIPY"):
                    for rep in ("ndarray", "qarray", "csr", "linop", "ndarray-F", "ndarray-T", "ndarray-S"):
                        if rep == "linop" and backend == "NUMPY":
                            continue
                        if _lay_of(rep) is not None and (kind == "degen" or m > 45):
                            continue
                        if rep == "linop" and backend == "AUTO" and kind == "degen":
                            continue
                        cells.append({"what": "svds", "mat": [kind, m, n, dt], "backend": backend, "rep": rep})
    for m, n in [(3, 3), (12, 12), (12, 7), (44, 44), (45, 45), (45, 20), (64, 64)]:
        for dt in "fc":
            for kind in ("generic", "herm", "graded"):
                if kind == "herm" and m != n:
                    continue
                for rep in ("ndarray", "qarray", "csr", "csc", "coo", "bsr", "ndarray-F", "ndarray-T", "ndarray-S"):
                    cells.append({"what": "norm", "mat": [kind, m, n, dt], "rep": rep})
    for m, n in [(20, 15), (15, 20), (30, 30)] + ([] if quick else [(48, 25), (25, 48)]):
        for rank in (1, 2, 4):
            for dt in "fc":
                cells.append({"what": "rsvd", "mat": ["rank%d" % rank, m, n, dt]})
    # a rank beyond the default use_qb=20 switch of the adaptive driver
    for m, n in [(40, 32)] + ([] if quick else [(32, 40), (60, 60)]):
        for dt in "fc":
            cells.append({"what": "rsvd", "mat": ["rank24", m, n, dt]})
    return cells


# --------------------------------------------------------------------------- #
#                    table 5: exponentials and square roots                   #
# --------------------------------------------------------------------------- #


def _build_fn_op(op):
    kind, d, dt = op[0], int(op[1]), op[2]
    if kind == "nilp":  # strictly upper triangular: not diagonalisable
        g = fill("generic", (d, d), _dtype(dt), ("c17-nilp", d, dt))
        return np.triu(g, 1), False
    if kind == "zero":
        return np.zeros((d, d), dtype=_dtype(dt)), True
    if kind == "posgen":  # general matrix with spectrum in the right half plane
        lam = 0.5 + 0.3 * np.arange(d) + 0.2j * ((np.arange(d) % 3) - 1)
        if dt == "f":
            lam = lam.real
        V = _wellcond(d, _dtype(dt), ("c17-posgen", d, dt))
        return ((V * lam) @ np.linalg.inv(V)).astype(_dtype(dt)), False
    A, _, herm = _build_op(op)
    return A, herm


def _expm_ref(X, herm):
    X = np.asarray(X)
    if herm:
        w, v = np.linalg.eigh(X)
        return (v * np.exp(w)) @ v.conj().T
    return ref.expm_general(X)


def fn_cell(cell, common):
    qu, sp = _qu(), _sp()
    what = cell["what"]
    op = tuple(cell["op"])
    A, herm = _build_fn_op(op)
    d = A.shape[0]
    rep = cell["rep"]
    ck = "%s/%s/%s/%s/%s" % (what, "-".join(str(x) for x in op), rep, cell.get("vec"), cell.get("backend"))
    acc = _Acc("fn", ck, {})
    if what == "expm":
        for sc in (1.0, 0.3, -0.4j, 3.0, -1.0):
            for hflag in (False, True):
                Xh = np.iscomplexobj(sc) is False and herm
                if hflag and not (herm and np.isrealobj(sc)):
                    continue  # herm=True documented for Hermitian input only
                X = A * sc
                sub = "expm|s=%s|herm=%s" % (sc, hflag)
                sig = dict(entry="expm", hflag=hflag, sparse=rep == "csr", root="none")
                Xrep = _rep(X, rep)
                ok, out, pb = _run2(lambda: qu.expm(Xrep, herm=hflag), {"A": Xrep})
                if pb is not None:
                    acc.bad(sub, pb[0], pb[1], **sig, **pb[2])
                    continue
                ok2, out2 = _run(lambda: qu.expm(_rep(-X, rep), herm=hflag))
                if not (ok and ok2):
                    ex = out if not ok else out2
                    acc.bad(sub, _exc_fail(ex), _exc_msg(ex), **sig)
                    continue
                if rep == "csr" and not sp.issparse(out):
                    acc.bad(sub, "format", "sparse input gave a %s" % type(out).__name__, **sig)
                    continue
                E, Em = _dense(out), _dense(out2)
                Er = _expm_ref(X, herm and np.isrealobj(sc))
                if E.shape != (d, d) or not ref.close(E, Er, 1e-9, 1e-12):
                    acc.bad(sub, "mismatch", "expm differs from the reference exponential (relerr %.3g)" % ref.relerr(E, Er), **sig)
                    continue
                inv = float(np.max(np.abs(E @ Em - np.eye(d))))
                if inv > 1e-8 * max(1.0, float(np.linalg.norm(E, 2) * np.linalg.norm(Em, 2))):
                    acc.bad(sub, "inverse", "expm(A) expm(-A) != 1 (defect %.3g)" % inv, **sig)
                    continue
                acc.ok(sub, nontrivial=d > 1 and op[0] != "zero", outcome="expm:%s:%s" % ("sparse" if rep == "csr" else "dense", "eigh" if hflag else "pade"))
    elif what == "expm_multiply":
        vk, backend = cell["vec"], cell["backend"]
        if vk == "ket":
            vec = qu.qarray(fill("generic", (d, 1), "complex128", ("c17-vec", op)))
        elif vk == "1d":
            vec = fill("generic", (d,), "complex128", ("c17-vec", op))
        else:
            vec = fill("generic", (d, 3), "complex128", ("c17-vec", op))
        if _lay_of(rep) is not None:  # the vector(s) in the operator's memory layout
            vec = _layout(vec, _lay_of(rep)) if vk != "ket" else qu.qarray(_layout(vec, _lay_of(rep)))
        for sc in (1.0, -0.4j, 0.05, -2.5j):
            X = A * sc
            sub = "expm_multiply|s=%s" % (sc,)
            sig = dict(entry="expm_multiply", backend=backend, root="none")
            kw = {} if backend == "DEFAULT" else {"backend": backend}
            Xrep = _rep(X, rep)
            ok, out, pb = _run2(lambda: qu.expm_multiply(Xrep, vec, **kw), {"A": Xrep, "vec": vec})
            if pb is not None:
                acc.bad(sub, pb[0], pb[1], **sig, **pb[2])
                continue
            if not ok:
                acc.bad(sub, _exc_fail(out), _exc_msg(out), **sig)
                continue
            got = _dense(out)
            exp = _expm_ref(X, False) @ np.asarray(vec)
            if got.shape != exp.shape or not ref.close(got, exp, 1e-8, 1e-12):
                acc.bad(sub, "mismatch", "expm_multiply != expm(A) @ v (shape %s vs %s, relerr %.3g)" % (got.shape, exp.shape, ref.relerr(got, exp)), **sig)
                continue
            acc.ok(sub, nontrivial=d > 1 and op[0] != "zero", outcome="expm_multiply:%s:%s" % (rep, vk))
    elif what == "sqrtm":
        for hflag in (True, False):
            if hflag and not herm:
                continue
            if not hflag and op[0] in ("herm", "singular", "symm", "zero"):
                continue  # scipy's general root: only matrices without eigenvalues on the closed negative axis
            sub = "sqrtm|herm=%s" % hflag
            sig = dict(entry="sqrtm", hflag=hflag, root="none")
            Arep = _rep(A, rep)
            ok, out, pb = _run2(lambda: qu.sqrtm(Arep, herm=hflag), {"A": Arep})
            if pb is not None:
                acc.bad(sub, pb[0], pb[1], **sig, **pb[2])
                continue
            if rep == "csr":
                if not ok and isinstance(out, NotImplementedError):
                    acc.rej("sqrtm:sparse:NotImplementedError", sub)
                elif ok:
                    acc.bad(sub, "no-rejection", "sparse sqrtm documented as unavailable but returned", **sig)
                else:
                    acc.bad(sub, _exc_fail(out), _exc_msg(out), **sig)
                continue
            if not ok:
                acc.bad(sub, _exc_fail(out), _exc_msg(out), **sig)
                continue
            S = _dense(out)
            if S.shape != (d, d) or not np.all(np.isfinite(S)) or not ref.close(S @ S, A, 1e-8, 1e-10):
                acc.bad(sub, "mismatch", "sqrtm(A)^2 != A (relerr %.3g)" % (ref.relerr(S @ S, A) if S.shape == (d, d) else float("inf")), **sig)
                continue
            if op[0] in ("psd", "singular"):
                w = np.linalg.eigvals(S)
                if float(np.min(w.real)) < -1e-7 or float(np.max(np.abs(w.imag))) > 1e-7:
                    acc.bad(sub, "principal", "root of a PSD operator is not the PSD root (eigenvalue %r)" % complex(w[np.argmin(w.real)]), **sig)
                    continue
            acc.ok(sub, nontrivial=d > 1 and op[0] != "zero", outcome="sqrtm:%s:%s" % ("eigh" if hflag else "schur", op[0]))
    else:
        raise KeyError(what)
    return acc.res


def fn_cells(tier):
    quick = tier == "quick"
    cells = []
    dsz = (2, 3, 6, 12) if quick else (1, 2, 3, 4, 6, 8, 12, 20)
    for kd, dt in [("herm", "f"), ("herm", "c"), ("psd", "c"), ("degen", "c"), ("cgen", "c"), ("rgen", "f"), ("nilp", "f"), ("nilp", "c"), ("zero", "f")]:
        for d in dsz:
            for rep in ("ndarray", "qarray", "csr", "ndarray-F", "ndarray-T", "ndarray-S"):
                cells.append({"what": "expm", "op": [kd, d, dt], "rep": rep})
    for kd, dt in [("herm", "f"), ("herm", "c"), ("cgen", "c"), ("rgen", "f"), ("nilp", "c"), ("zero", "f")]:
        for d in (2, 6, 12, 40) if quick else (2, 3, 6, 12, 24, 40):
            for rep in ("ndarray", "qarray", "csr", "linop", "ndarray-F", "ndarray-T", "ndarray-S"):
                for vec in ("ket", "1d", "block"):
                    for backend in ("DEFAULT", "AUTO", "SCIPY"):
                        if _lay_of(rep) is not None and backend != "DEFAULT":
                            continue
                        cells.append({"what": "expm_multiply", "op": [kd, d, dt], "rep": rep, "vec": vec, "backend": backend})
    for kd, dt in [("psd", "f"), ("psd", "c"), ("herm", "f"), ("herm", "c"), ("singular", "c"), ("symm", "f"), ("degen", "c"), ("posgen", "f"), ("posgen", "c"), ("zero", "f")]:
        for d in dsz:
            for rep in ("ndarray", "qarray", "csr", "ndarray-F", "ndarray-T", "ndarray-S"):
                cells.append({"what": "sqrtm", "op": [kd, d, dt], "rep": rep})
    return cells


# --------------------------------------------------------------------------- #
#                                    driver                                   #
# --------------------------------------------------------------------------- #

TABLES = [
    ("full", "full_cell", full_cells, 8),
    ("partial", "partial_cell", partial_cells, 2),
    ("window", "window_cell", window_cells, 2),
    ("svd", "svd_cell", svd_cells, 2),
    ("fn", "fn_cell", fn_cells, 4),
]


def _cost(cell):
    d = 1
    if "op" in cell:
        d = int(cell["op"][1])
    elif "mat" in cell:
        d = max(int(cell["mat"][1]), int(cell["mat"][2]))
    elif "blocks" in cell:
        d = sum(cell["blocks"])
    w = {"rsvd": 40, "svds": 2}.get(cell.get("what"), 1)
    return d * d * w


def run(ctx):
    only = ctx.opts.get("only")
    ctx.rule = (
        "every cell of the tables partial / full / window / svd / fn is evaluated on the real quimb.linalg entry point and judged by the defining "
        "equations on the dense matrix (residual, Gram matrix, order, sub-multiset of the reference spectrum, selection keys = k best reference keys, "
        "singular triplets, exp/sqrt identities); a case is (entry point, operator kind, size, dtype, representation, backend, k, selection rule, target, "
        "return_vecs, sort, metric/projector representation, start block); it is non-trivial when a proper part of the spectrum is requested (k < d), "
        "the window holds a proper non-empty part, or the operator has dimension > 1"
    )
    ctx.bounds = {
        "tier": ctx.tier,
        "partial.dense_sizes": "2,3,6,12 (quick) / 2,3,4,5,6,8,12,16 (thorough); k in {1,2,3,d-1,d}",
        "partial.dense_rules": "Hermitian: %s; general: %s (target tags: in = inside the widest gap, out = below the spectrum, on = exactly an eigenvalue, mid = exact midpoint (tie), z0 / z0.0 / z-0.0 / znp = a target of EXACTLY zero spelled 0, 0.0, -0.0, np.float64(0); which=None means the rule is left at its default)" % (W_NUMPY_H, W_NUMPY_G),
        "partial.zero_targets": "which=None with an exact-zero target for every entry point (eigh/eigvalsh/eigvecsh/eig/eigvals/eigvecs), backend (NUMPY, SCIPY, AUTO on both sides of the thresholds; LOBPCG rejects targets), representation, metric and projector cell",
        "purity": "EVERY evaluation of every table: operator / metric / projector / start vector / start block / vector are fingerprinted (bytes, strides, flags, and the buffer behind a view) before and after the call and must be bit-identical; the same call is then repeated on the same objects and must give the same answer (1e-6)",
        "layouts": "dense inputs in C order, Fortran order, transposed view of a C buffer, strided slice view of a larger buffer (operator; metric and projector crossed with the operator's layout; start vectors / blocks / vectors follow the operator's layout)",
        "partial.operator_kinds": "herm (generic), degen (exact multiplicities), neardeg (1e-3 pairs), symm (+-pairs), singular, psd, gapped, cgen (V diag V^-1 complex), rgen (real, conjugate pairs), hermG (Hermitian fed to the general solvers); float64 and complex128",
        "partial.krylov_sizes": "12,20 (quick) / 8,12,20,32 (thorough); k in {1,2,3}",
        "partial.lobpcg_sizes": "12,40 (quick) / 12,24,40,64 (thorough); start block: full (d,k) / 1-D / None (seeded)",
        "partial.auto_threshold_pairs(d,k)": "(44,1),(45,1),(63,2),(64,2),(77,3),(78,3),(99,1),(100,1) + thorough (141,2),(142,2),(173,3),(174,3),(89,4),(90,4)",
        "partial.representations": "ndarray, qarray, csr, LinearOperator (action only), Lazy(dense), Lazy(csr)",
        "partial.metric": "PD metric as ndarray / csr / LinearOperator / Lazy; sizes 6,12,20 (+4,32)",
        "partial.projector": "isometry d x d/2 as ndarray / csr / Lazy; d in 8,12 (+24)",
        "full.blocks": "every integer partition of d <= 5 (quick) / 8 (thorough) + named larger sector structures, x hidden permutation {id, rev, stride, seeded} x {float, complex} x {generic, identical blocks, zero block, zero diagonal} x entry x autoblock x sort x {ndarray, qarray}",
        "window": "w_0 in %s x k in {1,2,3,d} x w_sz in %s x {ndarray, qarray, csr} x {AUTO, NUMPY, SCIPY} x d in 6,12,20 (+4,32)" % (WIN_W0, WIN_SZ),
        "svd": "svd on 7 (11) shapes x 4 spectra; svds: 7 (10) shapes x backend x representation x k in {1,2,3,r-1,r}; norm: 9 spellings + default + options, dense/qarray/csr, 7 shapes incl. 44/45 rows; rsvd/estimate_rank: ranks 1,2,4 x 3 (5) shapes x modes x q x p x use_qb x k_start x compute_uv",
        "fn": "expm: 9 operator kinds x d x {ndarray, qarray, csr} x 5 scalings x herm flag; expm_multiply: 6 kinds x d x 4 representations x {ket, 1-D, block} x {default, AUTO, SCIPY} x 4 scalings; sqrtm: 10 kinds x d x 3 representations x herm flag",
    }
    ctx.assumptions += [
        "exactly degenerate spectra go to the dense backends only; ARPACK / LOBPCG get near-degenerate (1e-3) or gapped spectra (a single-vector Krylov space cannot resolve an exactly degenerate eigenspace; scipy behaviour, passed through)",
        "ARPACK is asked for k < d (Hermitian) / k < d-1 (general) / k < min(shape)-1 (svds) only: beyond that scipy silently switches to a dense solver that returns all eigenpairs",
        "LOBPCG is run with tol=1e-10, maxiter=500 (its 30-iteration default is documented as inaccurate); it only gets Hermitian problems with SA / LA",
        "shift-invert on an action-only operator is not requested (scipy's internal GMRES inverse does not converge on indefinite shifts); which='SM' without a target only for d <= 20 on ARPACK",
        "general (non-Hermitian) problems with a target: the dense backend documents 'real part closest to sigma', ARPACK shift-invert returns the eigenvalues nearest in the complex plane; each backend is held to its own documented rule; on ARPACK only for d <= 32 (on the larger prescribed spectra many eigenvalues are nearly equidistant from the target, ARPACK does not converge and scipy 1.18 returned zero vectors without raising at d=174 - scipy behaviour, passed through)",
        "iterative backends: when the selection boundary is a near-tie (keys k and k+1 closer than 1% of the spectral scale) either member is accepted",
        "for real non-symmetric input ARPACK's LI/SI mean |imag| (scipy semantics): LI/SI only asked of ARPACK for complex input",
        "which='SA'/'LA' explicitly requested of ARPACK for a general problem is a documented (scipy) rejection; the DEFAULT which=None failing there is reported as a finding",
        "eigs_numpy documents array_like / Lazy metrics: explicit backend='NUMPY' is not given a sparse / LinearOperator metric; AUTO is (eigensystem_partial documents 'sparse, dense or linear operator')",
        "window semantics as documented: k is a target, w_sz a maximum relative width (default 1.1); the dense path returns every eigenpair inside the window, the iterative path the min(k, #inside) nearest the centre; eigenvalues within 1e-6 of a window edge may go either way",
        "estimate_rank documented as low resolution: rank <= estimate <= rank + 12; rsvd(eps) judged by reconstruction and leading values, not by its length; rsvd(k) asserted exact only for k >= rank of the exactly low-rank input",
        "sqrtm(herm=False) only for operators without eigenvalues on the closed negative real axis; expm(herm=True) only for Hermitian input with a real prefactor",
        "every random generator is seeded (qu.seed_rand) or replaced by an explicit start vector / block",
        "input purity exemption: scipy.sparse.linalg.lobpcg orthonormalises its start block X in place and quimb hands it a view of the caller's v0 - scipy behaviour passed through, so v0 is not fingerprinted on the LOBPCG path (operator, metric, projector are)",
    ]
    for name, fname, gen, ch in TABLES:
        if only and name not in only.split(","):
            continue
        cells = sorted(gen(ctx.tier), key=_cost, reverse=True)
        t0 = ctx.elapsed()
        n_ok, n_rej, n_bad = table.run(ctx, fname, cells, name=name, chunk=ch)
        ctx.notes.setdefault("table_wall_s", {})[name] = round(ctx.elapsed() - t0, 1)
        ctx.subproducts.append("%s: %d cells complete (%d evaluations ok, %d documented rejections, %d violating)" % (name, len(cells), n_ok, n_rej, n_bad))
    ctx.notes["outcomes_all"] = dict(sorted(ctx.outcomes.items()))


def replay(case):
    return table.replay(sys.modules[__name__], case)

"""C12 - approximate contraction is exact when untruncated and obeys its cap.

TableExplorer (DESIGN.md section 3, C12).  Every list below is a complete
deterministic enumeration; ``VERIF_SEED`` selects the data fill (and rotates
the order) only.  A *cell* is a flat tuple whose first entry names the table:

  b2d     2D ``contract_boundary``: lattice kind x size x cyclic x mode x
          sequence (every ordered subset of the four directions, letter
          aliases, None) x one option deviation; exact value with a cap above
          every bond and cutoff=0; with chi in {2, 3} and final_contract=False
          every bond between two boundary (merged) tensors is <= chi
  from2d  the four ``contract_boundary_from_{xmin,xmax,ymin,ymax}`` wrappers
          (+ generic ``contract_boundary_from``), every sub-range, in place and
          not: the handed-over network still contracts to the exact value and
          the swept line's bonds are <= chi
  ar2d    ``contract_boundary(around=...)`` / ``contract_ctmrg(around=...)``:
          region untouched, value, cap
  env2d   ``compute_x/y_environments``, ``compute_environments`` (every side,
          every sub-range), ``compute_plaquette_environments`` (block sizes,
          both first_contract): every stored key, combined with the sites it
          excludes, contracts to the value of the whole
  rg      ``coarse_grain_hotrg``, ``contract_hotrg``, ``contract_ctmrg``,
          ``contract_mps_sweep`` (2D and 3D)
  b3d / from3d / rg3d / sw3d / cell3d   the 3D analogues (six directions,
          modes, sequences, HOTRG / CTMRG, peps / simple sweeps, cell envs)
  cc      ``contract_compressed`` on every connected graph with <= 5 tensors
          along EVERY contraction path x option deviations; the public
          ``callback_post_compress`` sees every compressed bond <= chi
  ar      ``contract_around`` (every site), ``contract_around_center/corner``
  cb      ``compress_between`` on every edge x absorb / canonize distance / mode
  call    ``compress_all``, ``compress_all_tree`` (trees), ``compress_all_1d``
          (chains), ``compress_all_simple``
  tnag    every method of ``tnag/compress.py`` on 1-3 layer networks

Oracle (numpy only): the network is DENOTED by its labelled arrays times
10**exponent; ``ref_contract`` contracts them pairwise with ``np.einsum``.
Everything a scheme returns (scalar, (mantissa, exponent), Tensor, network) is
brought to that denotation and compared with the denotation of the input.

Conventions established on the real code (not defects):
  * ``mode='full-bond'`` raises NotImplementedError with equalize_norms /
    strip_exponent (explicit in the code): documented rejection;
  * ``compress_late`` / ``sweep_reverse`` / ``compress_opts`` (absorb) are
    options of mode='mps' ('peps' in 3D) only;
  * 3D mode='peps' on cyclic lattices: documented NotImplementedError;
  * ``compress_all_tree`` is for trees, ``compress_all_1d`` for chains (they
    only touch the bonds of a spanning tree);
  * ``contract_simple_sweep`` / ``compress_all_simple`` have their own default
    cutoff=1e-10: "no cutoff" must be passed explicitly (peps_opts / mps_opts);
  * ``canonize_distance=-1`` and ``compress_mode='local-fit'`` below the exact
    bond are not enumerated (undocumented special value / iterative ALS fit);
  * environments only accumulate NEW exponent (documented): the oracle adds the
    exponent of the original network once;
  * on a lattice that is periodic ALONG the boundary line, 'mps' / 'full-bond'
    leave the wrap-around bond of the line uncompressed (it can exceed the
    cap); the cap is asserted on the bonds between lattice neighbours only.

Root-cause signatures: ``entry`` (method), ``check`` (value / cap / open /
keys / structure / type / crash / touched), ``exc`` for crashes, ``mode`` and - computed
from the CASE, never from the failure - ``root`` when the cell contains the
trigger of a known finding (see known_findings.d/C12.json).
"""

from __future__ import annotations

import copy
import itertools
import re
import sys

import numpy as np

from .. import core, table
from ..alphabet import fill

RTOL = 1e-8  # QR / SVD based schemes (DESIGN)
RTOL_GRAM = 1e-7  # schemes going through Gram matrices / eigh (projectors, dm, full-bond, bp)
RTOL_CLOSED = 1e-5  # the same on a closed boundary (rank deficient Gram matrices)
BIG = 1 << 14  # arbitrary geometry: a cap above every bond that can occur
CAP3D = 64  # >= 2**(L-1) for every 3D lattice used (L <= 4)
CAPRG = 1024


def layer_bond(kind):
    """size of one original lattice bond (never compressed when two opposite
    boundaries meet: such a bond may legitimately exceed a smaller cap)"""
    return {"flat": 2, "flatexp": 2, "flat3": 3, "norm": 4}[kind.partition(":")[0]]


def cap2d(kind, Lx, Ly, cyc, lines=None):
    """a cap that is at least the exact bond size of any boundary of this
    lattice that has absorbed ``lines`` lines (default: all of them):
    (layer bond)**lines, squared when a periodic bond is routed through the
    open boundary MPS.  Kept tight because the 'fit' compressors allocate
    their guess at the full cap."""
    d = layer_bond(kind)
    c = d ** max(lines if lines is not None else max(Lx, Ly), 1)
    return int(c * c if cyc else c)


_Q = {}


def _qtn():
    if "qtn" not in _Q:
        import quimb.tensor as qtn

        try:
            # harness seam (as in c13): keep cotengra's hyper optimiser from
            # forking pools of its own inside worker processes; affects the path
            # search only, never a contraction
            import cotengra.parallel as _cp

            _cp._IS_WORKER = True
        except Exception:  # pragma: no cover
            pass
        _Q["qtn"] = qtn
    return _Q["qtn"]


def _registries():
    if "reg" not in _Q:
        _qtn()
        from quimb.tensor.tn1d.compress import _TN1D_COMPRESS_METHODS
        from quimb.tensor.tnag.compress import _TNAG_COMPRESS_METHODS

        _Q["reg"] = (tuple(sorted(_TN1D_COMPRESS_METHODS)), tuple(sorted(_TNAG_COMPRESS_METHODS)))
    return _Q["reg"]


# --------------------------------------------------------------------------- #
#                         reference (numpy only, no quimb)                    #
# --------------------------------------------------------------------------- #


def ref_contract(ts, out=()):
    """ts: list of (ndarray, labels).  Sum every label not in ``out``; result
    axes ordered as ``out``.  Pairwise ``np.einsum``, greedily contracting the
    connected pair that frees most memory (then disconnected pieces)."""
    ts = [(np.asarray(a), tuple(l)) for a, l in ts]
    out = tuple(out)
    if not ts:
        return np.asarray(1.0)
    size = {}
    for a, l in ts:
        for x, d in zip(l, a.shape):
            size[x] = int(d)
    live = dict(enumerate(ts))
    nxt = len(ts)

    def count():
        c = {}
        for _, l in live.values():
            for x in set(l):
                c[x] = c.get(x, 0) + 1
        for x in out:
            c[x] = c.get(x, 0) + 1
        return c

    cnt = count()
    while len(live) > 1:
        where = {}
        for k, (_, l) in live.items():
            for x in l:
                where.setdefault(x, []).append(k)
        best = None
        seen = set()
        for x, ks in where.items():
            for i in range(len(ks)):
                for j in range(i + 1, len(ks)):
                    pr = (ks[i], ks[j])
                    if pr in seen or ks[i] == ks[j]:
                        continue
                    seen.add(pr)
                    la, lb = live[pr[0]][1], live[pr[1]][1]
                    sa, sb = set(la), set(lb)
                    keep = [y for y in dict.fromkeys(la + lb) if cnt[y] > (y in sa) + (y in sb)]
                    sz = 1
                    for y in keep:
                        sz *= size[y]
                    # opt_einsum's greedy score: memory freed by the step
                    sz -= live[pr[0]][0].size + live[pr[1]][0].size
                    if best is None or (sz, pr) < best[:2]:
                        best = (sz, pr, keep)
        if best is None:
            ks = sorted(live)[:2]
            la, lb = live[ks[0]][1], live[ks[1]][1]
            best = (0, (ks[0], ks[1]), list(dict.fromkeys(la + lb)))
        _, (ka, kb), keep = best
        a, la = live.pop(ka)
        b, lb = live.pop(kb)
        allab = list(dict.fromkeys(la + lb))
        sym = {x: i for i, x in enumerate(allab)}
        res = np.einsum(a, [sym[x] for x in la], b, [sym[x] for x in lb], [sym[x] for x in keep])
        for x in set(la):
            cnt[x] -= 1
        for x in set(lb):
            cnt[x] -= 1
        for x in keep:
            cnt[x] += 1
        live[nxt] = (res, tuple(keep))
        nxt += 1
    ((acc, al),) = live.values()
    sym = {x: i for i, x in enumerate(al)}
    for x in out:
        if x not in sym:
            raise KeyError(x)
    return np.asarray(np.einsum(acc, [sym[x] for x in al], [sym[x] for x in out]))


def denote(tn):
    """labelled arrays + exponent of a quimb network (containers only)."""
    return [(np.asarray(t.data), tuple(t.inds)) for t in tn], float(getattr(tn, "exponent", 0.0))


def dangling(ts):
    cnt = {}
    for _, l in ts:
        for x in l:
            cnt[x] = cnt.get(x, 0) + 1
    return tuple(x for x, c in cnt.items() if c == 1)


def net_value(tn, out=()):
    ts, ex = denote(tn)
    return ref_contract(ts, out) * 10.0**ex


class Ref:
    """exact denotation of an input network + the absolute scale used to make
    the tolerance robust against cancellation in the exact value."""

    def __init__(self, tn, out=()):
        ts, ex = denote(tn)
        self.out = tuple(out)
        self.exact = ref_contract(ts, self.out) * 10.0**ex
        self.scale = float(np.max(ref_contract([(np.abs(a), l) for a, l in ts], self.out))) * 10.0**ex
        self.exponent = ex

    def err(self, got):
        got = np.asarray(got)
        if got.shape != self.exact.shape:
            return float("inf")
        if not np.all(np.isfinite(got)):
            return float("inf")
        den = max(float(np.max(np.abs(self.exact))), 1e-4 * self.scale, 1e-300)
        return float(np.max(np.abs(got - self.exact))) / den


def valof(x, out=()):
    """denotation of whatever a scheme returned"""
    qtn = _qtn()
    if isinstance(x, tuple) and len(x) == 2 and not isinstance(x[0], str):
        return valof(x[0], out) * 10.0 ** float(np.real(x[1]))
    if isinstance(x, qtn.TensorNetwork):
        return net_value(x, out)
    if isinstance(x, qtn.Tensor):
        return np.asarray(x.transpose(*out).data) if out else np.asarray(x.data).reshape(())
    return np.asarray(x)


_SITE_RE = re.compile(r"^I\d+(,\d+)*$")


def n_site_tags(t):
    return sum(1 for g in t.tags if _SITE_RE.match(g))


def _coords(t):
    return [tuple(int(x) for x in g[1:].split(",")) for g in t.tags if _SITE_RE.match(g)]


def merged_bond_max(tn, per_index=False, L=None, cyc=None, wrap_compressed=False):
    """largest bond between two boundary tensors (tensors that absorbed more
    than one site), and how many such tensors there are.  The bond of a pair is
    the TOTAL size of everything the two share (an unfused multi-bond must not
    hide behind max_bond()).  On a periodic lattice (``L``, ``cyc`` given):

      * a pair that is only neighbours AROUND the lattice counts in full when
        the mode compresses the wrap-around bond of a boundary line
        (``wrap_compressed``: every mode but 'mps' / 'full-bond', which never
        touch it) and is skipped otherwise;
      * a pair that is neighbours both directly and around (two boundaries
        facing each other twice) is compressed bond by bond: per index."""
    qtn = _qtn()
    ts = [(t, _coords(t)) for t in tn if n_site_tags(t) > 1]
    mb = 0
    for (a, ca), (b, cb) in itertools.combinations(ts, 2):
        if not a.bonds(b):
            continue
        direct = any(sum(abs(x - y) for x, y in zip(p, q)) == 1 for p in ca for q in cb)
        wrap = False
        if L is not None and cyc is not None:
            for ax in range(len(L)):
                if cyc[ax] and L[ax] >= 2:
                    if any(abs(p[ax] - q[ax]) == L[ax] - 1 and all(p[k] == q[k] for k in range(len(L)) if k != ax) for p in ca for q in cb):
                        wrap = True
        if L is None:
            if not direct:
                continue
            both = per_index
        else:
            if not direct and not (wrap and wrap_compressed):
                continue
            both = direct and wrap
        if both:
            mb = max([mb] + [int(tn.ind_size(ix)) for ix in a.bonds(b)])
        else:
            mb = max(mb, int(qtn.bonds_size(a, b)))
    return mb, len(ts)


def total_bond_max(tn):
    """largest TOTAL bond (product over all shared indices) between any two
    tensors: an uncompressed double bond must not hide behind max_bond()."""
    qtn = _qtn()
    mb = 0
    ts = list(tn)
    for a, b in itertools.combinations(ts, 2):
        if a.bonds(b):
            mb = max(mb, int(qtn.bonds_size(a, b)))
    return mb


def pair_bond(tn, tag_a, tag_b):
    qtn = _qtn()
    ta = tn.select_tensors(tag_a)
    tb = tn.select_tensors(tag_b)
    if len(ta) != 1 or len(tb) != 1:
        return None
    return int(qtn.bonds_size(ta[0], tb[0])) if ta[0].bonds(tb[0]) else 0


# --------------------------------------------------------------------------- #
#                                 structures                                  #
# --------------------------------------------------------------------------- #

CYC2 = {0: False, 1: (True, False), 2: (False, True), 3: (True, True)}
CYC3 = {0: False, 1: (True, False, False), 2: (False, True, False), 4: (False, False, True), 7: (True, True, True)}


def _refill(tn, key):
    for n, t in enumerate(tn):
        t.modify(data=fill("generic", t.shape, "complex128", key=("c12",) + tuple(key) + (n,)))
    return tn


_ST = {}


def build2d(kind, Lx, Ly, cyc=0):
    """kinds: flat (D=2), flat3 (D=3), flatexp (part of the scale in
    tn.exponent), norm (PEPS double layer, tags KET/BRA)."""
    k = ("2d", kind, Lx, Ly, cyc)
    if k not in _ST:
        qtn = _qtn()
        if kind in ("flat", "flat3", "flatexp"):
            D = 3 if kind == "flat3" else 2
            tn = qtn.TN2D_rand(Lx, Ly, D=D, cyclic=CYC2[cyc], seed=4, dtype="complex128")
            _refill(tn, k)
            if kind == "flatexp":
                tn.equalize_norms_(1.0)
                if abs(float(tn.exponent)) < 0.05:
                    raise RuntimeError("exponent variant has no exponent: %r" % (k,))
        elif kind == "norm":
            peps = qtn.PEPS.rand(Lx, Ly, bond_dim=2, phys_dim=2, cyclic=CYC2[cyc], seed=7, dtype="complex128")
            _refill(peps, k)
            tn = peps.make_norm()
        else:
            raise KeyError(kind)
        _ST[k] = (tn, Ref(tn))
    tn, rf = _ST[k]
    return tn.copy(), rf


def build3d(shape, cyc=0):
    k = ("3d",) + tuple(shape) + (cyc,)
    if k not in _ST:
        qtn = _qtn()
        tn = qtn.TN3D_rand(*shape, D=2, cyclic=CYC3[cyc], seed=1, dtype="complex128")
        _refill(tn, k)
        _ST[k] = (tn, Ref(tn))
    tn, rf = _ST[k]
    return tn.copy(), rf


def buildag(edges, phys, D=3):
    """arbitrary geometry: one tensor per node (tags I0..), bonds of size D,
    optionally one dangling label k{i} of size ``phys`` per node."""
    edges = tuple(tuple(e) for e in edges)
    k = ("ag", edges, phys, D)
    if k not in _ST:
        qtn = _qtn()
        tn = qtn.TN_from_edges_rand(edges, D=D, phys_dim=phys, seed=2, dtype="complex128")
        tn = qtn.TensorNetwork(tn)
        _refill(tn, k)
        out = tuple(sorted(tn.outer_inds()))
        _ST[k] = (tn, Ref(tn, out))
    tn, rf = _ST[k]
    return tn.copy(), rf


def nnodes(edges):
    return max(max(e) for e in edges) + 1


def is_tree(edges):
    return len(edges) == nnodes(edges) - 1


def is_chain(edges):
    n = nnodes(edges)
    deg = [0] * n
    for a, b in edges:
        deg[a] += 1
        deg[b] += 1
    return is_tree(edges) and max(deg) <= 2


def all_paths(n):
    """every sequence of pairwise contractions of n tensors, in quimb's linear
    path format (positions in the shrinking list, result appended)."""

    def rec(avail, nxt):
        if len(avail) == 1:
            yield ()
            return
        for i, j in itertools.combinations(sorted(avail), 2):
            for rest in rec((avail - {i, j}) | {nxt}, nxt + 1):
                yield ((i, j),) + rest

    out = []
    for ssa in rec(frozenset(range(n)), n):
        ids = list(range(n))
        lin = []
        for i, j in ssa:
            a, b = sorted((ids.index(i), ids.index(j)))
            lin.append((a, b))
            ids.pop(b)
            ids.pop(a)
            ids.append(n + len(lin) - 1)
        out.append(tuple(lin))
    return out


# --------------------------------------------------------------------------- #
#                       result helpers / failure plumbing                     #
# --------------------------------------------------------------------------- #

REJECT = (NotImplementedError,)


class Out:
    def __init__(self, cell):
        self.cell = cell
        self.res = []
        self.maxerr = 0.0

    def ok(self, sub, key=None, nontrivial=True, outcome=None):
        self.res.append(table.ok(key=(self.cell, sub) if key is None else key, nontrivial=nontrivial, outcome=outcome, sub=sub))

    def rej(self, sub, what):
        self.res.append(table.rejected(what, sub=sub))

    def bad(self, sub, msg, **sig):
        sig = {k: v for k, v in sig.items() if v is not None}
        self.res.append(table.bad(core.problem(msg, **sig), sub=sub))


def _exc_name(ex):
    return type(ex).__name__


def _fp_val(v):
    """structural fingerprint of a caller-supplied container option"""
    if isinstance(v, dict):
        return "{" + ",".join("%r:%s" % (k, _fp_val(x)) for k, x in sorted(v.items(), key=lambda kv: repr(kv[0]))) + "}"
    if isinstance(v, (list, tuple)):
        return ("[" if isinstance(v, list) else "(") + ",".join(_fp_val(x) for x in v) + "]"
    if callable(v):
        return "<callable>"
    return repr(v)


def opt_fp(kw):
    """fingerprints of every dict / list the caller hands in (they belong to
    the caller: a scheme that writes its own defaults into them changes what a
    LATER call with the same object does)"""
    return {k: _fp_val(v) for k, v in kw.items() if isinstance(v, (dict, list))}


def opt_mutated(kw, fp0):
    fp1 = opt_fp(kw)
    return sorted(k for k in fp0 if fp1.get(k) != fp0[k])


def check_pure(out, sub, ename, kw, fp0, mode=None):
    """records a violation when the call rewrote a container option of the
    caller; returns True when it did"""
    ch = opt_mutated(kw, fp0)
    if ch:
        out.bad(sub + ":pure", "%s rewrote the caller's option container(s) %r in place (before %s, after %s): a later call re-using the object silently inherits these values" % (ename, ch, {k: fp0[k] for k in ch}, {k: opt_fp(kw)[k] for k in ch}), entry=ename, check="option-mutated", option="+".join(ch), mode=mode, root=PURITY_ROOTS.get((ename, "+".join(ch))))
        return True
    return False


# known-finding triggers of the purity check, keyed by (entry, option)
PURITY_ROOTS = {
    ("contract_around_center", "span_opts"): "around-span-opts-mutated",
    ("contract_around_corner", "span_opts"): "around-span-opts-mutated",
    ("tn3d.contract_peps_sweep", "peps_opts"): "peps-sweep-nested-opts-mutated",
}


def gram_mode(mode):
    return not (mode in ("mps", "peps", "direct", "local-early", "local-late") or mode.startswith(("zipup", "sdc", "src")))


def tol_for(mode, closed=False):
    """``closed``: the scheme compressed a boundary WITHOUT dangling indices
    (a sweep that reaches the last line): its environment / Gram matrices are
    (numerically) rank one, the Gram based schemes lose digits there."""
    if gram_mode(mode):
        return RTOL_CLOSED if closed else RTOL_GRAM
    return RTOL


def seed_kw(mode):
    """explicit seed for the randomised / randomly started 1D compressors"""
    if "src" in mode or mode in ("fit", "fit-oversample"):
        return {"seed": 7}
    return {}


# --------------------------------------------------------------------------- #
#                    2D: model of the interleaved sequence loop               #
# --------------------------------------------------------------------------- #

ALIAS = {"b": "xmin", "t": "xmax", "l": "ymin", "r": "ymax"}
DIRS2 = ("xmin", "xmax", "ymin", "ymax")
DIRS3 = ("xmin", "xmax", "ymin", "ymax", "zmin", "zmax")


def parse_seq(seq):
    if seq is None:
        return None
    if isinstance(seq, str):
        if seq in DIRS3:
            return (seq,)
        return tuple(ALIAS[c] for c in seq)
    return tuple(ALIAS.get(d, d) for d in seq)


def sim_steps(L, cyc, seq, max_sep=1, max_unf=1, lo=None, hi=None, ctm=False):
    """harness-side model of ``_contract_interleaved_boundary_sequence`` (used
    ONLY to label cells: non-triviality and known-finding triggers).  Returns
    the list of steps (direction, separation before the step, extents of the
    other axes before the step)."""
    axes = "xyz"[: len(L)]
    lo = dict(zip(axes, lo or [0] * len(L)))
    hi = dict(zip(axes, hi or [l - 1 for l in L]))
    sep = {a: hi[a] - lo[a] for a in axes}
    seq = parse_seq(seq)
    if seq is None:
        if len(L) == 2 and not ctm:
            a = "x" if L[0] >= L[1] else "y"
            seq = (a + "min",) if cyc[axes.index(a)] else (a + "min", a + "max")
        else:
            seq = ()
            for i, a in enumerate(axes):
                seq += (a + "min",) if cyc[i] else (a + "min", a + "max")

    def fin(d):
        return sep[d[0]] <= max_sep

    seq = [d for d in seq if not fin(d)]
    steps = []
    while seq:
        d = seq.pop(0)
        if fin(d):
            continue
        seq.append(d)
        steps.append((d, sep[d[0]], tuple(sep[a] + 1 for a in axes if a != d[0])))
        sep[d[0]] -= 1
        if sum(sep[a] > max_sep for a in axes) <= max_unf:
            break
    return steps


def cyc_flags(cyc, nd):
    c = (CYC2 if nd == 2 else CYC3)[cyc]
    return (c,) * nd if isinstance(c, bool) else tuple(c)


def native_mode(mode):
    return mode in ("mps", "full-bond", "projector2d", "peps", "projector3d", "l2bp3d")


def last_site_closed(L, cyc, ax, sw, ot):
    """geometry only: after sweeping the lines ``sw`` of axis ``ax`` into one
    boundary line restricted to ``ot`` on the other axis, does the LAST site
    of that line have no bond left to anything outside the swept block?"""
    o_end = ot[1]
    for i in range(sw[0], sw[1] + 1):
        for a, pos, rng in ((ax, i, sw), (1 - ax, o_end, ot)):
            for d in (-1, 1):
                j = pos + d
                if not 0 <= j < L[a]:
                    if not (cyc[a] and L[a] > 1):
                        continue
                    j %= L[a]
                if not rng[0] <= j <= rng[1]:
                    return False
    return True


def root_for_steps(mode, steps, full, dm_closed=None):
    """first known-finding trigger along the steps (from the case only)."""
    for n, (d, sep, others) in enumerate(steps):
        if min(others) == 1 and len(others) == 1 and not native_mode(mode):
            return "via1d-single-site"
        if mode == "dm" and (dm_closed if dm_closed is not None else full) and (sep == 1 if dm_closed is None else n == len(steps) - 1):
            return "dm-site-without-open-index"
        if full and sep == 1:
            if mode in ("l2bp", "l2bp3d") and sum(o > 1 for o in others) >= 1:
                return "l2bp-closed-network"
            if mode in ("su", "superorthogonal") and sum(o > 1 for o in others) >= 1:
                # same family: converged simple-update gauges of a closed loopy
                # network are (numerically) rank one
                return "su-closed-network"
    return None


# --------------------------------------------------------------------------- #
#                            2D contract_boundary                             #
# --------------------------------------------------------------------------- #

OPT2D = {
    "-": {},
    "nocanon": dict(canonize=False),
    "rev": dict(sweep_reverse=True),
    "eqT": dict(equalize_norms=True),
    "eq1": dict(equalize_norms=1.0),
    "strip": dict(strip_exponent=True),
    "nofinal": dict(final_contract=False),
    "inplace": dict(inplace=True),
    "sep0": dict(max_separation=0),
    "sep2": dict(max_separation=2),
    "unf0": dict(max_unfinished=0),
    "unf2": dict(max_unfinished=2),
    "fgreedy": dict(final_contract_opts={"optimize": "greedy"}),
    "early": dict(compress_late=False),  # mode='mps' only
    "absboth": dict(compress_opts={"absorb": "both"}),  # mode='mps' only
    "dicts": dict(compress_opts={}, final_contract_opts={}),  # caller-owned (empty) option dicts
    "sub": "sub",  # explicit inner starting borders xmin=1 / ymax=Ly-2
    "bounds": "bounds",  # explicit full borders
}
OPT_MPS_ONLY = ("early", "absboth")
OPT_CAP = ("-", "nocanon", "rev", "eq1", "sep0", "unf0", "early", "absboth", "sub", "dicts")


def _opt2d(name, L):
    o = OPT2D[name]
    lo, hi = None, None
    if o == "sub":
        o = dict(xmin=1 if L[0] >= 3 else 0, ymax=L[1] - 2 if L[1] >= 3 else L[1] - 1)
        lo, hi = [o["xmin"], 0], [L[0] - 1, o["ymax"]]
    elif o == "bounds":
        o = dict(xmin=0, xmax=L[0] - 1, ymin=0, ymax=L[1] - 1)
    return dict(o), lo, hi


def _kind(kind):
    base, _, lt = kind.partition(":")
    lts = {"": None, "KB": ("KET", "BRA"), "BK": ("BRA", "KET")}[lt]
    return base, lts


def _is_rejection(ex, mode, kw):
    """documented rejections of the boundary schemes"""
    if isinstance(ex, NotImplementedError):
        if mode == "full-bond" and (kw.get("equalize_norms") or kw.get("strip_exponent")):
            return "full-bond:equalize_norms:NotImplementedError"
        if mode == "peps" and kw.get("_cyclic"):
            return "peps:cyclic:NotImplementedError"
    return None


def cell_b2d(cell):
    _, kind, Lx, Ly, cyc, mode, seq, opt, chis = cell
    out = Out(cell)
    base, lts = _kind(kind)
    tn0, rf = build2d(base, Lx, Ly, cyc)
    okw, lo, hi = _opt2d(opt, (Lx, Ly))
    kw = dict(mode=mode, sequence=list(seq) if isinstance(seq, tuple) else seq, cutoff=0.0, layer_tags=lts)
    kw.update(seed_kw(mode))
    kw.update(copy.deepcopy(okw))
    steps = sim_steps((Lx, Ly), cyc_flags(cyc, 2), seq, kw.get("max_separation", 1), kw.get("max_unfinished", 1), lo, hi)
    root = root_for_steps(mode, steps, full=(lo is None))
    if mode == "full-bond" and any(steps[i][0] == steps[k][0] and steps[j][0][0] != steps[i][0][0] for i in range(len(steps)) for j in range(i + 1, len(steps)) for k in range(j + 1, len(steps))):
        # a direction is resumed after a sweep along the other axis: the
        # lazily cached opposite environments of the first axis are stale
        root = "full-bond-stale-opposite-envs"
    cf = cyc_flags(cyc, 2)
    if mode == "full-bond" and any(cf[1 - "xy".index(st[0][0])] for st in steps):
        # (takes precedence: it strikes at the first truncation)
        root = "full-bond-periodic-line"
    nontrivial = len(steps) > 0
    for chi in chis:
        sub = "chi=%s" % chi
        k2 = copy.deepcopy(kw)
        if chi == "E":
            k2["max_bond"] = cap2d(kind, Lx, Ly, cyc, lines=max([1] + [max(Lx, Ly) + 1 - st[1] for st in steps]))
        else:
            k2["max_bond"] = int(chi)
            k2["final_contract"] = False
            k2.pop("final_contract_opts", None)
        tn = tn0.copy()
        fp0 = opt_fp(k2)
        try:
            res = tn.contract_boundary(**k2)
        except Exception as ex:
            rj = _is_rejection(ex, mode, k2)
            if rj:
                out.rej(sub, rj)
            else:
                out.bad(sub, "contract_boundary%r on %s %dx%d cyc=%s raised %s: %s" % (sorted(k2.items(), key=str), kind, Lx, Ly, cyc, _exc_name(ex), str(ex)[:160]), entry="tn2d.contract_boundary", check="crash", exc=_exc_name(ex), mode=mode, root=root)
            continue
        check_pure(out, sub, "tn2d.contract_boundary", k2, fp0, mode)
        if chi == "E":
            try:
                e = rf.err(valof(res))
            except Exception as ex:
                out.bad(sub, "contract_boundary result of type %s cannot be denoted (%s: %s)" % (type(res).__name__, _exc_name(ex), str(ex)[:120]), entry="tn2d.contract_boundary", check="type", mode=mode, root=root)
                continue
            out.maxerr = max(out.maxerr, e if np.isfinite(e) else 0.0)
            closed = lo is None and any(st[1] == 1 for st in steps)
            if not e <= tol_for(mode, closed):
                out.bad(sub, "untruncated contract_boundary(mode=%r, sequence=%r, %s) on %s %dx%d cyc=%s: value off by %.3e (relative)" % (mode, seq, okw, kind, Lx, Ly, cyc, e), entry="tn2d.contract_boundary", check="value", mode=mode, root=root)
            else:
                out.ok(sub, nontrivial=nontrivial, outcome="b2d:value:steps=%d" % len(steps))
        else:
            mb, nm = merged_bond_max(res, L=(Lx, Ly), cyc=cyc_flags(cyc, 2), wrap_compressed=mode not in ("mps", "full-bond"))
            if mb > max(int(chi), layer_bond(kind)):
                out.bad(sub, "contract_boundary(mode=%r, sequence=%r, max_bond=%s, %s, final_contract=False) on %s %dx%d cyc=%s hands over a boundary bond of size %d" % (mode, seq, chi, okw, kind, Lx, Ly, cyc, mb), entry="tn2d.contract_boundary", check="cap", mode=mode, root=root)
            else:
                out.ok(sub, nontrivial=nm > 0, outcome="b2d:cap:%s" % ("bond=chi" if mb == int(chi) else "bond<chi" if nm else "no-boundary"))
    return out


# --------------------------------------------------------------------------- #
#                       2D contract_boundary_from_* wrappers                  #
# --------------------------------------------------------------------------- #

OPTFROM = {
    "-": {},
    "nocanon": dict(canonize=False),
    "rev": dict(sweep_reverse=True),
    "eq1": dict(equalize_norms=1.0),
    "early": dict(compress_late=False),
    "absboth": dict(compress_opts={"absorb": "both"}),
    "lazy": dict(lazy=True),  # projector2d only
    "dicts": dict(compress_opts={}),
}


def cell_from2d(cell):
    _, kind, Lx, Ly, cyc, mode, fw, xr, yr, opt, how, chis = cell
    out = Out(cell)
    base, lts = _kind(kind)
    tn0, rf = build2d(base, Lx, Ly, cyc)
    okw = dict(OPTFROM[opt])
    L = (Lx, Ly)
    ax = "xy".index(fw[0])
    xr_eff = tuple(xr) if xr is not None else (0, Lx - 1)
    yr_eff = tuple(yr) if yr is not None else (0, Ly - 1)
    sw = (xr_eff, yr_eff)[ax]
    ot = (xr_eff, yr_eff)[1 - ax]
    full = sw == (0, L[ax] - 1) and ot == (0, L[1 - ax] - 1)
    steps = [(fw, s, (ot[1] - ot[0] + 1,)) for s in range(sw[1] - sw[0], 0, -1)]
    root = root_for_steps(mode, steps, full, dm_closed=last_site_closed(L, cyc_flags(cyc, 2), ax, sw, ot))
    if mode == "full-bond" and root is None and cyc_flags(cyc, 2)[1 - ax]:
        root = "full-bond-periodic-line"
    entry = "tn2d.contract_boundary_from" + ("" if how == "gen" else "_" + fw)
    kw = dict(mode=mode, cutoff=0.0, layer_tags=lts)
    kw.update(seed_kw(mode))
    kw.update(copy.deepcopy(okw))
    if mode == "full-bond":
        kw.pop("layer_tags")
    for chi in chis:
        sub = "chi=%s" % chi
        k2 = copy.deepcopy(kw)
        k2["max_bond"] = cap2d(kind, Lx, Ly, cyc, lines=sw[1] - sw[0] + 1) if chi == "E" else int(chi)
        tn = tn0.copy()
        fp0 = opt_fp(k2)
        try:
            if how == "gen":
                res = tn.contract_boundary_from(xrange=xr, yrange=yr, from_which=fw, **k2)
            elif how == "wrap":
                res = getattr(tn, "contract_boundary_from_" + fw)(xrange=xr, yrange=yr, **k2)
            else:
                res = getattr(tn, "contract_boundary_from_" + fw + "_")(xrange=xr, yrange=yr, **k2)
        except Exception as ex:
            rj = _is_rejection(ex, mode, k2)
            if rj:
                out.rej(sub, rj)
            else:
                out.bad(sub, "%s(xrange=%r, yrange=%r, %r) on %s %dx%d cyc=%s raised %s: %s" % (entry, xr, yr, sorted(k2.items(), key=str), kind, Lx, Ly, cyc, _exc_name(ex), str(ex)[:160]), entry=entry, check="crash", exc=_exc_name(ex), mode=mode, root=root)
            continue
        qtn = _qtn()
        check_pure(out, sub, entry, k2, fp0, mode)
        if not isinstance(res, qtn.TensorNetwork):
            out.bad(sub, "%s returned %s instead of the partially contracted network" % (entry, type(res).__name__), entry=entry, check="type", mode=mode, root=root)
            continue
        if how == "wrap_" and res is not tn:
            out.bad(sub, "%s_ (in place) returned a different object" % entry, entry=entry, check="type", mode=mode, root=root)
            continue
        line = sw[1] if fw.endswith("min") else sw[0]
        if not okw.get("lazy"):
            # the swept lines must have been absorbed into ONE boundary tensor
            # per site of the last line
            miss = None
            for j in range(ot[0], ot[1] + 1):
                want = {res.site_tag(*((i, j) if ax == 0 else (j, i))) for i in range(sw[0], sw[1] + 1)}
                got = res.select_tensors(res.site_tag(*((line, j) if ax == 0 else (j, line))))
                if len(got) != 1 or not want <= set(got[0].tags):
                    miss = j
            if miss is not None:
                out.bad(sub, "%s(xrange=%r, yrange=%r, mode=%r, %s) on %s %dx%d cyc=%s: the lines %r have not been absorbed into a single boundary tensor at position %d of line %d" % (entry, xr, yr, mode, okw, kind, Lx, Ly, cyc, sw, miss, line), entry=entry, check="structure", mode=mode, root=root)
                continue
        if chi == "E":
            e = rf.err(net_value(res))
            out.maxerr = max(out.maxerr, e if np.isfinite(e) else 0.0)
            if not e <= tol_for(mode, full):
                out.bad(sub, "untruncated %s(xrange=%r, yrange=%r, mode=%r, %s) on %s %dx%d cyc=%s: the handed-over network contracts to a value off by %.3e" % (entry, xr, yr, mode, okw, kind, Lx, Ly, cyc, e), entry=entry, check="value", mode=mode, root=root)
            else:
                out.ok(sub, outcome="from2d:value")
        else:
            if okw.get("lazy"):
                out.ok(sub, nontrivial=False, outcome="from2d:cap:lazy-skipped")
                continue
            mb, npairs = 0, 0
            pairs = [(j, j + 1) for j in range(ot[0], ot[1])]
            Lo = L[1 - ax]
            if cyc_flags(cyc, 2)[1 - ax] and ot == (0, Lo - 1) and Lo >= 3 and mode not in ("mps", "full-bond"):
                # the line is a ring: every mode but 'mps' / 'full-bond'
                # compresses the bond that wraps around as well
                pairs.append((Lo - 1, 0))
            for j, jn in pairs:
                ca = (line, j) if ax == 0 else (j, line)
                cb = (line, jn) if ax == 0 else (jn, line)
                b = pair_bond(res, res.site_tag(*ca), res.site_tag(*cb))
                if b is not None:
                    npairs += 1
                    mb = max(mb, b)
            if mb > int(chi):
                out.bad(sub, "%s(xrange=%r, yrange=%r, mode=%r, max_bond=%s, %s) on %s %dx%d cyc=%s leaves a bond of size %d on the swept line" % (entry, xr, yr, mode, chi, okw, kind, Lx, Ly, cyc, mb), entry=entry, check="cap", mode=mode, root=root)
            else:
                out.ok(sub, nontrivial=npairs > 0, outcome="from2d:cap:%s" % ("bond=chi" if mb == int(chi) else "bond<chi" if npairs else "no-pair"))
    return out


# --------------------------------------------------------------------------- #
#                      2D around a region (boundary / ctmrg)                  #
# --------------------------------------------------------------------------- #


def cell_ar2d(cell):
    _, kind, Lx, Ly, mode, entry, around, chis = cell
    out = Out(cell)
    qtn = _qtn()
    base, lts = _kind(kind)
    tn0, rf = build2d(base, Lx, Ly, 0)
    ename = "tn2d." + entry
    for chi in chis:
        sub = "chi=%s" % chi
        kw = dict(max_bond=cap2d(kind, Lx, Ly, 0) if chi == "E" else int(chi), cutoff=0.0, around=[tuple(a) for a in around])
        if entry == "contract_boundary":
            kw.update(mode=mode, layer_tags=lts)
            kw.update(seed_kw(mode))
        fp0 = opt_fp(kw)
        try:
            res = getattr(tn0.copy(), entry)(**kw)
        except Exception as ex:
            out.bad(sub, "%s(%r) on %s %dx%d raised %s: %s" % (ename, sorted(kw.items(), key=str), kind, Lx, Ly, _exc_name(ex), str(ex)[:160]), entry=ename, check="crash", exc=_exc_name(ex), mode=mode)
            continue
        check_pure(out, sub, ename, kw, fp0, mode)
        if not isinstance(res, qtn.TensorNetwork):
            out.bad(sub, "%s(around=%r) returned %s, not a network" % (ename, around, type(res).__name__), entry=ename, check="type", mode=mode)
            continue
        x0, x1 = min(a[0] for a in around), max(a[0] for a in around)
        y0, y1 = min(a[1] for a in around), max(a[1] for a in around)
        touched = None
        for i in range(x0, x1 + 1):
            for j in range(y0, y1 + 1):
                want = tn0.select_tensors(tn0.site_tag(i, j))
                got = res.select_tensors(tn0.site_tag(i, j))
                if len(got) != len(want) or any(n_site_tags(t) != 1 for t in got):
                    touched = (i, j)
        if touched is not None:
            out.bad(sub, "%s(around=%r, mode=%r) on %s %dx%d contracted site %r of the region it should leave alone" % (ename, around, mode, kind, Lx, Ly, touched), entry=ename, check="touched", mode=mode)
            continue
        if chi == "E":
            e = rf.err(net_value(res))
            out.maxerr = max(out.maxerr, e if np.isfinite(e) else 0.0)
            if not e <= tol_for(mode):
                out.bad(sub, "untruncated %s(around=%r, mode=%r) on %s %dx%d: network contracts to a value off by %.3e" % (ename, around, mode, kind, Lx, Ly, e), entry=ename, check="value", mode=mode)
            else:
                out.ok(sub, nontrivial=res.num_tensors < tn0.num_tensors, outcome="ar2d:value")
        else:
            mb, nm = merged_bond_max(res)
            if mb > max(int(chi), layer_bond(kind)):
                out.bad(sub, "%s(around=%r, mode=%r, max_bond=%s) on %s %dx%d hands over a boundary bond of size %d" % (ename, around, mode, chi, kind, Lx, Ly, mb), entry=ename, check="cap", mode=mode)
            else:
                out.ok(sub, nontrivial=nm > 0, outcome="ar2d:cap")
    return out


# --------------------------------------------------------------------------- #
#                             2D environments                                 #
# --------------------------------------------------------------------------- #

OPTENV = {
    "-": {},
    "dense": dict(dense=True),
    "nocanon": dict(canonize=False),
    "eq1": dict(equalize_norms=1.0),
    "eqT": dict(equalize_norms=True),
    "dense+eq1": dict(dense=True, equalize_norms=1.0),
    "dicts": dict(compress_opts={}),
}


def expected_absorbed(entry, key, args, Lx, Ly):
    """the set of sites an environment stored under ``key`` stands for (by
    the documented meaning of the key, not by what the object contains)."""
    sites = [(i, j) for i in range(Lx) for j in range(Ly)]
    if entry in ("x", "y"):
        ax = "xy".index(entry)
        which, i = key
        if which.endswith("min"):
            return {s for s in sites if s[ax] < i}
        return {s for s in sites if s[ax] > i}
    if entry == "one":
        fw, xr, yr = args
        ax = "xy".index(fw[0])
        rr = [tuple(xr) if xr is not None else (0, Lx - 1), tuple(yr) if yr is not None else (0, Ly - 1)]
        sweep = list(range(rr[ax][0], rr[ax][1] + 1))
        if fw.endswith("max"):
            sweep.reverse()
        pos = sweep.index(key[1])
        if pos == 0:
            return set()
        done = set(sweep[:pos])
        ot = rr[1 - ax]
        # the boundary is selected by the tag of the first line: it holds the
        # absorbed lines inside the other range and the first line outside it
        return {s for s in sites if (s[ax] in done and ot[0] <= s[1 - ax] <= ot[1]) or s[ax] == sweep[0]}
    (i0, j0), (bx, by) = key
    return {s for s in sites if not (i0 <= s[0] < i0 + bx and j0 <= s[1] < j0 + by)}


def env_check(E, tn0, rf, sites, site_tag, expected):
    """(status, info): the stored environment must have absorbed exactly the
    sites its key stands for; combined with every other site of the lattice it
    must be closed and contract to the value of the whole.  Environments
    accumulate only NEW exponent (documented), so the exponent of the original
    is added once."""
    etags = set()
    for t in E:
        etags.update(t.tags)
    absorbed = {s for s in sites if site_tag(*s) in etags}
    if absorbed != expected:
        return "keys", sorted(absorbed ^ expected)
    rest = [site_tag(*s) for s in sites if s not in expected]
    ts, ex = denote(E)
    if rest:
        ts2, _ = denote(tn0.select_any(rest))
        ts = ts + ts2
    if dangling(ts):
        return "open", len(dangling(ts))
    val = ref_contract(ts) * 10.0 ** (ex + float(tn0.exponent))
    return "value", rf.err(val)


def cell_env2d(cell):
    _, kind, Lx, Ly, cyc, mode, entry, args, opt = cell
    out = Out(cell)
    qtn = _qtn()
    base, lts = _kind(kind)
    tn0, rf = build2d(base, Lx, Ly, cyc)
    L = (Lx, Ly)
    sites = [(i, j) for i in range(Lx) for j in range(Ly)]
    okw = dict(OPTENV[opt])
    kw = dict(max_bond=cap2d(kind, Lx, Ly, cyc, lines=max(Lx, Ly) - 1), cutoff=0.0, mode=mode, layer_tags=lts)
    kw.update(seed_kw(mode))
    kw.update(copy.deepcopy(okw))
    dense = bool(okw.get("dense"))
    root = None
    if entry in ("x", "y"):
        ename = "tn2d.compute_%s_environments" % entry
        ax = "xy".index(entry)
        nl, other = L[ax], L[1 - ax]
        want = {(entry + m, i) for m in ("min", "max") for i in range(nl)}
        call = lambda t: getattr(t, "compute_%s_environments" % entry)(**kw)
    elif entry == "one":
        fw, xr, yr = args
        ename = "tn2d.compute_environments"
        ax = "xy".index(fw[0])
        rr = [tuple(xr) if xr is not None else (0, Lx - 1), tuple(yr) if yr is not None else (0, Ly - 1)]
        nl, other = rr[ax][1] - rr[ax][0] + 1, rr[1 - ax][1] - rr[1 - ax][0] + 1
        want = {(fw, i) for i in range(rr[ax][0], rr[ax][1] + 1)}
        call = lambda t: t.compute_environments(fw, xrange=xr, yrange=yr, **kw)
    else:
        bx, by, fc, sd = args
        ename = "tn2d.compute_plaquette_environments"
        want = {((i, j), (bx, by)) for i in range(Lx - bx + 1) for j in range(Ly - by + 1)}
        kw.pop("dense", None)
        call = lambda t: t.compute_plaquette_environments(x_bsz=bx, y_bsz=by, first_contract=fc, second_dense=sd, **kw)
        if fc is None:
            fcr = "y" if bx > by else "x" if by > bx else "x" if Lx >= Ly else "y"
        else:
            fcr = fc
        ax = "xy".index(fcr)
        nl, other = L[ax], L[1 - ax]
        sdr = ((bx, by)[ax] < 2) if sd is None else sd
        trig = []
        if mode == "projector2d" and (nl >= 3 or (not sdr and other >= 3)):
            trig.append("env-view-aliased")
        if okw.get("equalize_norms"):
            trig.append("plaquette-env-exponent")
            if sdr:
                trig.append("env-dense-equalize")
        root = "+".join(trig) or None
    if entry != "plq":
        if nl < 2:
            root = "env-single-line"
        elif mode == "projector2d" and not dense and nl >= 3:
            root = "env-view-aliased"
        elif mode == "full-bond" and not dense and nl >= 3 and entry == "one" and other < L[1 - ax]:
            # canonize_around_ of the whole row moves gauge between the
            # boundary and the first-line tensors outside the other range
            root = "env-view-aliased-full-bond"
        elif dense and okw.get("equalize_norms") and nl >= 3:
            root = "env-dense-equalize"
        elif other == 1 and not native_mode(mode) and not dense and nl >= 3:
            root = "via1d-single-site"
    elif root is None and not native_mode(mode) and (other == 1 or min(L) == 1):
        root = "via1d-single-site"
    fp0 = opt_fp(kw)
    try:
        envs = call(tn0.copy())
    except Exception as ex:
        rj = _is_rejection(ex, mode, kw)
        if rj:
            out.rej("call", rj)
        else:
            out.bad("call", "%s(%r%s) on %s %dx%d cyc=%s raised %s: %s" % (ename, sorted(kw.items(), key=str), (", args=%r" % (args,)) if args else "", kind, Lx, Ly, cyc, _exc_name(ex), str(ex)[:160]), entry=ename, check="crash", exc=_exc_name(ex), mode=mode, root=root)
        return out
    check_pure(out, "call", ename, kw, fp0, mode)
    if set(envs) != want:
        out.bad("keys", "%s on %s %dx%d stored keys %r, expected %r" % (ename, kind, Lx, Ly, sorted(envs, key=str), sorted(want, key=str)), entry=ename, check="keys", mode=mode, root=root)
        return out
    tol = tol_for(mode)
    for key in sorted(envs, key=str):
        E = envs[key]
        sub = "key=%r" % (key,)
        if not isinstance(E, qtn.TensorNetwork):
            out.bad(sub, "%s stored a %s under %r" % (ename, type(E).__name__, key), entry=ename, check="type", mode=mode, root=root)
            continue
        st, e = env_check(E, tn0, rf, sites, tn0.site_tag, expected_absorbed(entry, key, args, Lx, Ly))
        if st == "keys":
            out.bad(sub, "%s(mode=%r, %s%s) on %s %dx%d cyc=%s: the environment stored under %r has not absorbed exactly the sites that key stands for (symmetric difference %r)" % (ename, mode, okw, (", args=%r" % (args,)) if args else "", kind, Lx, Ly, cyc, key, e), entry=ename, check="keys", mode=mode, root=root)
            continue
        if st == "open":
            out.bad(sub, "%s(mode=%r, %s%s) on %s %dx%d cyc=%s: environment %r combined with the sites it excludes has %d dangling indices (cannot contract to the value of the whole)" % (ename, mode, okw, (", args=%r" % (args,)) if args else "", kind, Lx, Ly, cyc, key, e), entry=ename, check="open", mode=mode, root=root)
            continue
        out.maxerr = max(out.maxerr, e if np.isfinite(e) else 0.0)
        if not e <= tol:
            out.bad(sub, "%s(mode=%r, %s%s) on %s %dx%d cyc=%s: environment %r combined with the sites it excludes contracts to a value off by %.3e" % (ename, mode, okw, (", args=%r" % (args,)) if args else "", kind, Lx, Ly, cyc, key, e), entry=ename, check="value", mode=mode, root=root)
        else:
            out.ok(sub, nontrivial=E.num_tensors > 0, outcome="env2d:%s:ok" % entry)
    if entry in ("x", "y"):
        # the documented combination: both environments of line i + line i
        tagf = tn0.x_tag if entry == "x" else tn0.y_tag
        for i in range(nl):
            sub = "pair=%d" % i
            lo, hi = envs[entry + "min", i], envs[entry + "max", i]
            ts = denote(lo)[0] + denote(hi)[0] + denote(tn0.select(tagf(i)))[0]
            if dangling(ts):
                out.bad(sub, "%s(mode=%r, %s): envs[min,%d] | line %d | envs[max,%d] has dangling indices" % (ename, mode, okw, i, i, i), entry=ename, check="open", mode=mode, root=root)
                continue
            e = rf.err(ref_contract(ts) * 10.0 ** (float(lo.exponent) + float(hi.exponent) + float(tn0.exponent)))
            out.maxerr = max(out.maxerr, e if np.isfinite(e) else 0.0)
            if not e <= tol:
                out.bad(sub, "%s(mode=%r, %s) on %s %dx%d cyc=%s: envs[min,%d] | line %d | envs[max,%d] contracts to a value off by %.3e" % (ename, mode, okw, kind, Lx, Ly, cyc, i, i, i, e), entry=ename, check="value", mode=mode, root=root)
            else:
                out.ok(sub, outcome="env2d:pair:ok")
    return out


# --------------------------------------------------------------------------- #
#                            2D HOTRG / CTMRG                                 #
# --------------------------------------------------------------------------- #

OPTRG = {
    "-": {},
    "canon": dict(canonize=True),
    "gp": dict(canonize=True, gauge_power=0.5),
    "lazy": dict(lazy=True),
    "strip": dict(strip_exponent=True),
    "eqT": dict(equalize_norms=True),
    "eq1": dict(equalize_norms=1.0),
    "nofinal": dict(final_contract=False),
    "inplace": dict(inplace=True),
    "sep0": dict(max_separation=0),
    "sep2": dict(max_separation=2),
    "unf0": dict(max_unfinished=0),
    "seq:yx": dict(sequence=("y", "x")),
    "seq:x": dict(sequence=("x",)),
    "seq:y": dict(sequence=("y",)),
    "seq:xy": dict(sequence=("xmin", "ymin")),
    "seq:rev": dict(sequence=("ymax", "xmax", "ymin", "xmin")),
    "seq:zyx": dict(sequence=("z", "y", "x")),
    "seq:z": dict(sequence=("z",)),
    "seq:zrev": dict(sequence=("zmax", "ymax", "xmax", "zmin", "ymin", "xmin")),
    "dicts": dict(compress_opts={"cutoff_mode": "rel"}, contract_opts={}, reduce_opts={}, final_contract_opts={}),
    "dicts+canon": dict(canonize=True, canonize_opts={}, compress_opts={}),
}


def _rg_opt(opt):
    if opt.startswith("mode:"):
        return dict(mode=opt[5:])
    if opt.startswith("dir:"):
        return dict(direction=None if opt[4:] == "None" else opt[4:])
    return dict(OPTRG[opt])


def cell_rg(cell):
    """2D and 3D: contract_hotrg / contract_ctmrg / coarse_grain_hotrg"""
    _, nd, kind, L, cyc, entry, opt, chis = cell
    out = Out(cell)
    qtn = _qtn()
    if nd == 2:
        base, lts = _kind(kind)
        tn0, rf = build2d(base, L[0], L[1], cyc)
        D = 3 if base == "flat3" else (4 if base == "norm" else 2)
    else:
        tn0, rf = build3d(L, cyc)
        D = 2
    okw = _rg_opt(opt)
    ename = "tn%dd.%s" % (nd, entry.split(":")[0])
    root = None
    mode = okw.get("mode", "projector" if entry == "contract_ctmrg" else "mps" if entry == "contract_mps_sweep" else "hotrg")
    if entry == "contract_ctmrg" and "mode" in okw and okw["mode"] != "projector":
        root = "ctmrg-mode-kwargs"
    for chi in chis:
        sub = "chi=%s" % chi
        kw = dict(max_bond=CAPRG if chi == "E" else int(chi), cutoff=0.0)
        kw.update(copy.deepcopy(okw))
        if entry.startswith("cg"):
            kw.pop("final_contract_opts", None)  # not an option of coarse_grain_hotrg
        if chi != "E" and not entry.startswith("cg"):
            kw["final_contract"] = False
        tn = tn0.copy()
        fp0 = opt_fp(kw)
        try:
            if entry.startswith("cg"):
                res = tn.coarse_grain_hotrg(entry[3:], **kw)
            else:
                res = getattr(tn, entry)(**kw)
        except Exception as ex:
            out.bad(sub, "%s(%r) on %s %r cyc=%s raised %s: %s" % (ename, sorted(kw.items(), key=str), kind, L, cyc, _exc_name(ex), str(ex)[:160]), entry=ename, check="crash", exc=_exc_name(ex), mode=mode, root=root)
            continue
        check_pure(out, sub, ename, kw, fp0, mode)
        lazy = bool(okw.get("lazy"))
        if entry.startswith("cg"):
            if not isinstance(res, qtn.TensorNetwork):
                out.bad(sub, "%s returned %s" % (ename, type(res).__name__), entry=ename, check="type", mode=mode)
                continue
            ax = "xyz".index(entry[3:])
            wantL = tuple((l + 1) // 2 if a == ax else l for a, l in enumerate(L))
            gotL = (res.Lx, res.Ly) if nd == 2 else (res.Lx, res.Ly, res.Lz)
            if tuple(gotL) != wantL or (not lazy and res.num_tensors != int(np.prod(wantL)) * (1 if not kind.startswith("norm") else 1)):
                out.bad(sub, "%s(%r) on %s %r: coarse lattice is %r with %d tensors, expected %r" % (ename, entry[3:], kind, L, gotL, res.num_tensors, wantL), entry=ename, check="keys", mode=mode)
                continue
        if chi == "E":
            try:
                e = rf.err(valof(res))
            except Exception as ex:
                out.bad(sub, "%s result of type %s cannot be denoted (%s: %s)" % (ename, type(res).__name__, _exc_name(ex), str(ex)[:120]), entry=ename, check="type", mode=mode, root=root)
                continue
            out.maxerr = max(out.maxerr, e if np.isfinite(e) else 0.0)
            if not e <= RTOL_GRAM:
                out.bad(sub, "untruncated %s(%s) on %s %r cyc=%s: value off by %.3e" % (ename, okw, kind, L, cyc, e), entry=ename, check="value", mode=mode, root=root)
            else:
                out.ok(sub, nontrivial=max(L) > 2, outcome="rg:%s:value" % entry)
        else:
            if lazy or not isinstance(res, qtn.TensorNetwork):
                out.ok(sub, nontrivial=False, outcome="rg:cap:skipped")
                continue
            if entry in ("contract_ctmrg", "contract_mps_sweep"):
                # bonds ACROSS two boundaries that have met are original
                # lattice bonds (twice on a periodic lattice): never compressed
                if nd == 2:
                    mb, nm = merged_bond_max(res, L=tuple(L), cyc=cyc_flags(cyc, 2), wrap_compressed=mode not in ("mps", "full-bond"))
                else:
                    mb, nm = merged_bond_max(res, L=tuple(L), cyc=cyc_flags(cyc, 3), wrap_compressed=True)
                lim = max(int(chi), D)
            else:
                # HOTRG compresses the bonds ACROSS the paired direction; the
                # bonds along it keep their original size D
                # (on periodic lattices two sites can be neighbours twice, so
                # there only single indices are bounded)
                mb, nm = (int(res.max_bond()) if cyc else total_bond_max(res)), res.num_tensors
                lim = max(int(chi), D ** (2 if cyc else 1))
            if mb > lim:
                out.bad(sub, "%s(max_bond=%s, %s) on %s %r cyc=%s hands over a bond of size %d" % (ename, chi, okw, kind, L, cyc, mb), entry=ename, check="cap", mode=mode, root=root)
            else:
                out.ok(sub, nontrivial=nm > 0, outcome="rg:%s:cap" % entry)
    return out


# --------------------------------------------------------------------------- #
#                                     3D                                      #
# --------------------------------------------------------------------------- #

OPT3D = {
    "-": {},
    "nocanon": dict(canonize=False),
    "eqT": dict(equalize_norms=True),
    "eq1": dict(equalize_norms=1.0),
    "strip": dict(strip_exponent=True),
    "nofinal": dict(final_contract=False),
    "inplace": dict(inplace=True),
    "sep0": dict(max_separation=0),
    "unf0": dict(max_unfinished=0),
    "unf2": dict(max_unfinished=2),
    "nointer": dict(canonize_interleave=False),  # mode='peps' only
    "early": dict(compress_late=False),  # mode='peps' only
    "lazy": dict(lazy=True),  # projector3d only
    "dicts": dict(compress_opts={}, final_contract_opts={}),
}


def cell_b3d(cell):
    _, shape, cyc, mode, seq, opt, chis = cell
    out = Out(cell)
    tn0, rf = build3d(shape, cyc)
    okw = dict(OPT3D[opt])
    kw = dict(mode=mode, sequence=list(seq) if isinstance(seq, tuple) else seq, cutoff=0.0)
    kw.update(copy.deepcopy(okw))
    steps = sim_steps(tuple(shape), cyc_flags(cyc, 3), seq, kw.get("max_separation", 1), kw.get("max_unfinished", 1))
    root = root_for_steps(mode, steps, full=True)
    for chi in chis:
        sub = "chi=%s" % chi
        k2 = copy.deepcopy(kw)
        if chi == "E":
            k2["max_bond"] = CAP3D
        else:
            k2["max_bond"] = int(chi)
            k2["final_contract"] = False
        fp0 = opt_fp(k2)
        try:
            res = tn0.copy().contract_boundary(**k2)
        except Exception as ex:
            if isinstance(ex, NotImplementedError) and mode == "peps" and cyc:
                out.rej(sub, "tn3d.contract_boundary:peps:cyclic:NotImplementedError")
            else:
                out.bad(sub, "tn3d.contract_boundary(%r) on %r cyc=%s raised %s: %s" % (sorted(k2.items(), key=str), shape, cyc, _exc_name(ex), str(ex)[:160]), entry="tn3d.contract_boundary", check="crash", exc=_exc_name(ex), mode=mode, root=root)
            continue
        check_pure(out, sub, "tn3d.contract_boundary", k2, fp0, mode)
        if chi == "E":
            try:
                e = rf.err(valof(res))
            except Exception as ex:
                out.bad(sub, "tn3d.contract_boundary result of type %s cannot be denoted (%s)" % (type(res).__name__, _exc_name(ex)), entry="tn3d.contract_boundary", check="type", mode=mode, root=root)
                continue
            out.maxerr = max(out.maxerr, e if np.isfinite(e) else 0.0)
            if not e <= tol_for(mode, any(st[1] == 1 for st in steps)):
                out.bad(sub, "untruncated tn3d.contract_boundary(mode=%r, sequence=%r, %s) on %r cyc=%s: value off by %.3e" % (mode, seq, okw, shape, cyc, e), entry="tn3d.contract_boundary", check="value", mode=mode, root=root)
            else:
                out.ok(sub, nontrivial=len(steps) > 0, outcome="b3d:value:steps=%d" % len(steps))
        else:
            if okw.get("lazy"):
                out.ok(sub, nontrivial=False, outcome="b3d:cap:lazy-skipped")
                continue
            mb, nm = merged_bond_max(res)
            if mb > int(chi):
                out.bad(sub, "tn3d.contract_boundary(mode=%r, sequence=%r, max_bond=%s, %s, final_contract=False) on %r cyc=%s hands over a boundary bond of size %d" % (mode, seq, chi, okw, shape, cyc, mb), entry="tn3d.contract_boundary", check="cap", mode=mode, root=root)
            else:
                out.ok(sub, nontrivial=nm > 0, outcome="b3d:cap")
    return out


def cell_from3d(cell):
    _, shape, mode, fw, rng, opt, how, chis = cell
    out = Out(cell)
    qtn = _qtn()
    tn0, rf = build3d(shape, 0)
    okw = dict(OPT3D[opt])
    ax = "xyz".index(fw[0])
    Ls = tuple(shape)
    ranges = [(0, l - 1) for l in Ls]
    if rng == "two":
        ranges[ax] = (0, 1) if fw.endswith("min") else (Ls[ax] - 2, Ls[ax] - 1)
    nsteps = ranges[ax][1] - ranges[ax][0]
    others = tuple(l for a, l in enumerate(Ls) if a != ax)
    steps = [(fw, s, others) for s in range(nsteps, 0, -1)]
    root = root_for_steps(mode, steps, full=(rng == "all"))
    if how == "plain":
        root = "3d-from-returns-none"
    entry = "tn3d.contract_boundary_from" + ("_" if how == "inplace" else "")
    for chi in chis:
        sub = "chi=%s" % chi
        kw = dict(mode=mode, cutoff=0.0, max_bond=CAP3D if chi == "E" else int(chi))
        kw.update(copy.deepcopy(okw))
        tn = tn0.copy()
        try:
            if how == "plain":
                res = tn.contract_boundary_from(ranges[0], ranges[1], ranges[2], fw, **kw)
            else:
                tn.contract_boundary_from_(ranges[0], ranges[1], ranges[2], fw, **kw)
                res = tn
        except Exception as ex:
            out.bad(sub, "%s(%r, %r, %r) on %r raised %s: %s" % (entry, ranges, fw, sorted(kw.items(), key=str), shape, _exc_name(ex), str(ex)[:160]), entry=entry, check="crash", exc=_exc_name(ex), mode=mode, root=root)
            continue
        if not isinstance(res, qtn.TensorNetwork):
            out.bad(sub, "%s(..., inplace=False) returned %s instead of the partially contracted network (the 2D method returns the network)" % (entry, type(res).__name__), entry=entry, check="type", mode=mode, root=root)
            continue
        if not okw.get("lazy"):
            want_n = int(np.prod(Ls)) - nsteps * int(np.prod(others))
            nmerged = sum(1 for t in res if n_site_tags(t) == nsteps + 1)
            if res.num_tensors != want_n or nmerged != int(np.prod(others)):
                out.bad(sub, "%s(%r, %r, mode=%r, %s) on %r: expected %d tensors with %d boundary tensors that absorbed %d planes, got %d / %d" % (entry, ranges, fw, mode, okw, shape, want_n, int(np.prod(others)), nsteps + 1, res.num_tensors, nmerged), entry=entry, check="structure", mode=mode, root=root)
                continue
        if chi == "E":
            e = rf.err(net_value(res))
            out.maxerr = max(out.maxerr, e if np.isfinite(e) else 0.0)
            if not e <= tol_for(mode, rng == "all"):
                out.bad(sub, "untruncated %s(%r, %r, mode=%r, %s) on %r: handed-over network contracts to a value off by %.3e" % (entry, ranges, fw, mode, okw, shape, e), entry=entry, check="value", mode=mode, root=root)
            else:
                out.ok(sub, nontrivial=nsteps > 0, outcome="from3d:value")
        else:
            if okw.get("lazy"):
                out.ok(sub, nontrivial=False, outcome="from3d:cap:lazy-skipped")
                continue
            mb, nm = merged_bond_max(res)
            if mb > int(chi):
                out.bad(sub, "%s(%r, %r, mode=%r, max_bond=%s, %s) on %r leaves a bond of size %d on the swept plane" % (entry, ranges, fw, mode, chi, okw, shape, mb), entry=entry, check="cap", mode=mode, root=root)
            else:
                out.ok(sub, nontrivial=nm > 0, outcome="from3d:cap")
    return out


OPTSW = {
    "-": {},
    "nocanon": dict(canonize=False),
    "nointer": dict(canonize_interleave=False),
    "strip": dict(strip_exponent=True),
    "inplace": dict(inplace=True),
    "mode:projector3d": dict(mode="projector3d"),
    "mode:projector": dict(mode="projector"),
    "mode:local-late": dict(mode="local-late"),
    "smudge0": dict(smudge=0.0),
    "iters": dict(max_iterations=50),
    "power": dict(power=0.5),
    "eq1": dict(equalize_norms=1.0),
    "dicts": "dicts",  # caller-owned peps_opts / mps_opts (with a nested dict)
}


def cell_sw3d(cell):
    _, shape, entry, fw, opt = cell
    out = Out(cell)
    tn0, rf = build3d(shape, 0)
    okw = OPTSW[opt] if OPTSW[opt] == "dicts" else dict(OPTSW[opt])
    ename = "tn3d." + entry
    if entry == "contract_peps_sweep":
        kw = dict(max_bond=CAP3D, cutoff=0.0, from_which=fw)
    else:
        # compress_all_simple has its own default cutoff: "no cutoff" must be explicit
        kw = dict(max_bond=CAP3D, peps_opts=dict(cutoff=0.0), mps_opts=dict(cutoff=0.0))
    if okw == "dicts":
        okw = {}
        kw["peps_opts"] = dict(kw.get("peps_opts", {}), compress_opts={}) if entry == "contract_peps_sweep" else dict(kw["peps_opts"])
        kw["mps_opts"] = dict(kw.get("mps_opts", {}))
    kw.update(copy.deepcopy(okw))
    fp0 = opt_fp(kw)
    try:
        res = getattr(tn0.copy(), entry)(**kw)
        e = rf.err(valof(res))
    except Exception as ex:
        out.bad("E", "%s(%r) on %r raised %s: %s" % (ename, sorted(kw.items(), key=str), shape, _exc_name(ex), str(ex)[:160]), entry=ename, check="crash", exc=_exc_name(ex), mode=okw.get("mode"))
        return out
    check_pure(out, "E", ename, kw, fp0, okw.get("mode"))
    out.maxerr = max(out.maxerr, e if np.isfinite(e) else 0.0)
    if not e <= RTOL_GRAM:
        out.bad("E", "untruncated %s(from_which=%r, %s) on %r: value off by %.3e" % (ename, fw, okw, shape, e), entry=ename, check="value", mode=okw.get("mode"))
    else:
        out.ok("E", outcome="sw3d:%s" % entry)
    return out


def cell_cell3d(cell):
    """3D plane / cell environments (used by the 3D local expectation route):
    every stored entry is the cell TOGETHER with its environment, so it must
    contract to the value of the whole."""
    _, shape, key, mode = cell
    out = Out(cell)
    tn0, rf = build3d(shape, 0)
    envs = {}
    key = tuple(tuple(k) for k in key)
    try:
        got = tn0.copy()._maybe_compute_cell_env(key=key, envs=envs, max_bond=CAP3D, cutoff=0.0, mode=mode)
    except Exception as ex:
        out.bad("call", "tn3d._maybe_compute_cell_env(key=%r, mode=%r) on %r raised %s: %s" % (key, mode, shape, _exc_name(ex), str(ex)[:160]), entry="tn3d._maybe_compute_cell_env", check="crash", exc=_exc_name(ex), mode=mode)
        return out
    if key not in envs:
        out.bad("keys", "tn3d._maybe_compute_cell_env(key=%r) did not store the requested key (stored %r)" % (key, sorted(envs)), entry="tn3d._maybe_compute_cell_env", check="keys", mode=mode)
        return out
    for k in sorted(envs) + ["<returned>"]:
        E = got if k == "<returned>" else envs[k]
        ts, ex = denote(E)
        sub = "key=%r" % (k,)
        if dangling(ts):
            out.bad(sub, "tn3d cell environment %r (requested %r, mode=%r) on %r has dangling indices" % (k, key, mode, shape), entry="tn3d._maybe_compute_cell_env", check="open", mode=mode)
            continue
        e = rf.err(ref_contract(ts) * 10.0**ex)
        out.maxerr = max(out.maxerr, e if np.isfinite(e) else 0.0)
        if not e <= tol_for(mode):
            out.bad(sub, "tn3d cell environment %r (requested %r, mode=%r) on %r contracts to a value off by %.3e" % (k, key, mode, shape, e), entry="tn3d._maybe_compute_cell_env", check="value", mode=mode)
        else:
            out.ok(sub, outcome="cell3d:ok")
    return out


# --------------------------------------------------------------------------- #
#               arbitrary geometry: contract_compressed / around              #
# --------------------------------------------------------------------------- #

OPTCC = {
    "-": {},
    "tgd0": dict(tree_gauge_distance=0),
    "tgd2": dict(tree_gauge_distance=2),
    "cd2": dict(canonize_distance=2),
    "cad1": dict(canonize_after_distance=1),
    "late": dict(compress_late=True),
    "early": dict(compress_late=False),
    "basic": dict(compress_mode="basic"),
    "vtree": dict(compress_mode="virtual-tree"),
    "fullbond": dict(compress_mode="full-bond"),
    "gauges": dict(gauges=True),
    "gauges_all": dict(gauges=True, gauge_boundary_only=False),
    "gbo": dict(gauge_boundary_only=False),
    "span0": dict(compress_span=False),
    "span1": dict(compress_span=True),
    "span2": dict(compress_span=2),
    "nomat": dict(compress_matrices=False),
    "minsize": dict(compress_min_size=16),
    "strip": dict(strip_exponent=True),
    "eqT": dict(equalize_norms=True),
    "eq1": dict(equalize_norms=1.0),
    "inplace": dict(inplace=True),
    "ptensor": dict(preserve_tensor=True),
    "late+basic": dict(compress_late=True, compress_mode="basic"),
    "late+gauges": dict(compress_late=True, gauges=True),
    "early+tgd2": dict(compress_late=False, tree_gauge_distance=2),
    "dicts": dict(compress_opts={}, canonize_opts={}, canonize_after_opts={}),
    "spandict": dict(span_opts={}, canonize_opts={}),  # contract_around* only
}


def _cb_recorder(seen):
    qtn = _qtn()

    def cb(tnx, tids):
        t1, t2 = tids
        if t1 in tnx.tensor_map and t2 in tnx.tensor_map:
            a, b = tnx.tensor_map[t1], tnx.tensor_map[t2]
            seen.append(int(qtn.bonds_size(a, b)) if a.bonds(b) else 0)

    return cb


def _ag_eval(out, sub, ename, call, rf, chi, seen, tol, desc, mode=None, root=None, value=True, kw=None):
    fp0 = opt_fp(kw) if kw is not None else None
    try:
        res = call()
    except Exception as ex:
        out.bad(sub, "%s %s raised %s: %s" % (ename, desc, _exc_name(ex), str(ex)[:200]), entry=ename, check="crash", exc=_exc_name(ex), mode=mode, root=root)
        return None
    if kw is not None:
        check_pure(out, sub, ename, kw, fp0, mode)
    if value:
        try:
            e = rf.err(valof(res, rf.out))
        except Exception as ex:
            out.bad(sub, "%s %s: result of type %s cannot be denoted over %r (%s: %s)" % (ename, desc, type(res).__name__, rf.out, _exc_name(ex), str(ex)[:120]), entry=ename, check="type", mode=mode, root=root)
            return None
        out.maxerr = max(out.maxerr, e if np.isfinite(e) else 0.0)
        if not e <= tol:
            out.bad(sub, "untruncated %s %s: result off by %.3e" % (ename, desc, e), entry=ename, check="value", mode=mode, root=root)
            return None
    if seen is not None and seen and max(seen) > chi:
        out.bad(sub, "%s %s: callback_post_compress saw a just-compressed bond of size %d > max_bond=%d" % (ename, desc, max(seen), chi), entry=ename, check="cap", mode=mode, root=root)
        return None
    return res


def cell_cc(cell):
    _, edges, phys, path, opt, chis = cell
    out = Out(cell)
    tn0, rf = buildag(edges, phys)
    okw = dict(OPTCC[opt])
    for chi in chis:
        sub = "chi=%s" % chi
        c = BIG if chi == "E" else int(chi)
        seen = []
        kw = dict(optimize=[tuple(p) for p in path], max_bond=c, cutoff=0.0, output_inds=rf.out, callback_post_compress=_cb_recorder(seen))
        kw.update(copy.deepcopy(okw))
        desc = "(path=%r, max_bond=%s, %s) on graph %r phys=%s" % (path, chi, okw, edges, phys)
        res = _ag_eval(out, sub, "contract_compressed", lambda: tn0.copy().contract_compressed(**kw), rf, c, seen, RTOL_GRAM if opt == "fullbond" else RTOL, desc, mode=okw.get("compress_mode"), value=(chi == "E"), kw=kw)
        if res is not None:
            out.ok(sub, nontrivial=(chi == "E") or bool(seen), outcome="cc:%s" % ("value" if chi == "E" else "cap:compressions=%d" % min(len(seen), 3)))
    return out


def cell_ar(cell):
    _, edges, phys, entry, site, opt, chis = cell
    out = Out(cell)
    tn0, rf = buildag(edges, phys)
    okw = dict(OPTCC[opt])
    for chi in chis:
        sub = "chi=%s" % chi
        c = BIG if chi == "E" else int(chi)
        seen = []
        kw = dict(max_bond=c, cutoff=0.0, callback_post_compress=_cb_recorder(seen))
        kw.update(copy.deepcopy(okw))
        if entry == "contract_around":
            call = lambda: tn0.copy().contract_around("I%d" % site, **kw)
        else:
            call = lambda: getattr(tn0.copy(), entry)(**kw)
        desc = "(%smax_bond=%s, %s) on graph %r phys=%s" % (("'I%d', " % site) if site is not None else "", chi, okw, edges, phys)
        res = _ag_eval(out, sub, entry, call, rf, c, seen, RTOL, desc, value=(chi == "E"), kw=kw)
        if res is not None:
            out.ok(sub, nontrivial=(chi == "E") or bool(seen), outcome="ar:%s:%s" % (entry, "value" if chi == "E" else "cap"))
    return out


# --------------------------------------------------------------------------- #
#              arbitrary geometry: compress_all* and tnag methods             #
# --------------------------------------------------------------------------- #

OPTCALL = {
    "compress_all": {
        "-": {},
        "nocanon": dict(canonize=False),
        "tgd0": dict(tree_gauge_distance=0),
        "tgd2": dict(tree_gauge_distance=2),
        "basic": dict(mode="basic"),
        "vtree": dict(mode="virtual-tree"),
        "cd1": dict(canonize_distance=1, canonize_after_distance=1, mode="basic"),
    },
    "compress_all_tree": {"-": {}},
    "compress_all_1d": {"-": {}, "nocanon": dict(canonize=False)},
    "compress_all_simple": {
        "-": {},
        "it1": dict(max_iterations=1),
        "it50": dict(max_iterations=50, tol=1e-10),
        "power": dict(power=0.5),
        "smudge0": dict(smudge=0.0),
    },
}


def cell_call(cell):
    _, edges, phys, entry, opt, chis = cell
    out = Out(cell)
    D = 3
    tn0, rf = buildag(edges, phys, D)
    okw = dict(OPTCALL[entry][opt])
    for chi in chis:
        sub = "chi=%s" % chi
        c = BIG if chi == "E" else int(chi)
        kw = dict(max_bond=c, cutoff=0.0)
        kw.update(copy.deepcopy(okw))
        desc = "(max_bond=%s, %s) on graph %r phys=%s (bonds of size %d)" % (chi, okw, edges, phys, D)
        exact = c >= D
        res = _ag_eval(out, sub, entry, lambda: getattr(tn0.copy(), entry)(**kw), rf, c, None, RTOL_GRAM if entry == "compress_all_simple" else RTOL, desc, value=exact, kw=kw)
        if res is None:
            continue
        mb = total_bond_max(res)
        if mb > min(c, D):
            out.bad(sub, "%s %s: a bond of size %d is left" % (entry, desc, mb), entry=entry, check="cap")
        else:
            out.ok(sub, nontrivial=True, outcome="call:%s:%s" % (entry, "value" if exact else "cap"))
    return out


OPTTNAG = {
    "local-early": {"-": {}, "nocanon": dict(canonize=False), "tgd1": dict(tree_gauge_distance=1), "basic": dict(mode="basic"), "eq1": dict(equalize_norms=1.0)},
    "local-late": {"-": {}, "nocanon": dict(canonize=False), "tgd1": dict(tree_gauge_distance=1), "basic": dict(mode="basic"), "eq1": dict(equalize_norms=1.0)},
    "projector": {"-": {}, "nocanon": dict(canonize=False), "layered": dict(canonize="layered"), "bp": dict(canonize="bp"), "lazy": dict(lazy=True), "eq1": dict(equalize_norms=1.0)},
    "su": {"-": {}, "nocanon": dict(canonize=False)},
    "superorthogonal": {"-": {}, "nocanon": dict(canonize=False), "eq1": dict(equalize_norms=1.0)},
    "l2bp": {"-": {}, "nocanon": dict(canonize=False), "parallel": dict(update="parallel"), "eq1": dict(equalize_norms=1.0)},
}
for _m, _o in OPTTNAG.items():
    _o["dicts"] = dict(compress_opts={}, **(dict(contract_opts={}, reduce_opts={}, canonize_opts={}) if _m == "projector" else {}))
NLAY = {"vec": 1, "vec-closed": 2, "op-vec": 2, "op-op": 3}


def build_layers(layers, edges):
    edges = tuple(tuple(e) for e in edges)
    k = ("lay", layers, edges)
    if k not in _ST:
        qtn = _qtn()
        n = nnodes(edges)

        def op_layer(seed, up, down):
            op = qtn.TN_from_edges_rand(edges, D=2, phys_dim=4, seed=seed, dtype="complex128", site_ind_id="q{}")
            for i in range(n):
                op["I%d" % i].unfuse_({"q%d" % i: (up % i, down % i)}, {"q%d" % i: (2, 2)})
            return op

        ket = qtn.TN_from_edges_rand(edges, D=2, phys_dim=2, seed=3, dtype="complex128", site_ind_id="k{}")
        if layers == "vec":
            parts = [ket]
        elif layers == "vec-closed":
            parts = [qtn.TN_from_edges_rand(edges, D=2, phys_dim=2, seed=5, dtype="complex128", site_ind_id="k{}"), ket]
        elif layers == "op-vec":
            parts = [op_layer(5, "b%d", "k%d"), ket]
        else:
            parts = [op_layer(9, "c%d", "b%d"), op_layer(5, "b%d", "k%d"), ket]
        tn = qtn.TensorNetwork([])
        for p in parts:
            tn &= qtn.TensorNetwork(p)
        _refill(tn, k)
        out = tuple(sorted(tn.outer_inds()))
        _ST[k] = (tn, Ref(tn, out))
    tn, rf = _ST[k]
    return tn.copy(), rf


def cell_tnag(cell):
    _, layers, edges, method, opt, chis = cell
    out = Out(cell)
    from quimb.tensor.tnag.compress import tensor_network_ag_compress

    tn0, rf = build_layers(layers, edges)
    okw = dict(OPTTNAG[method][opt])
    n = nnodes(edges)
    st = ["I%d" % i for i in range(n)]
    Dex = 2 ** NLAY[layers]
    root = "l2bp-closed-network" if (method == "l2bp" and layers == "vec-closed" and not is_tree(edges)) else None
    for chi in chis:
        sub = "chi=%s" % chi
        c = BIG if chi == "E" else (Dex if chi == "D" else int(chi))
        kw = dict(max_bond=c, cutoff=0.0, method=method, site_tags=st)
        kw.update(copy.deepcopy(okw))
        exact = c >= Dex
        desc = "(method=%r, max_bond=%s, %s) on %s-layer network %s over graph %r (exact bond %d)" % (method, c, okw, NLAY[layers], layers, edges, Dex)
        res = _ag_eval(out, sub, "tensor_network_ag_compress", lambda: tensor_network_ag_compress(tn0.copy(), **kw), rf, c, None, tol_for(method) if method != "su" and method != "superorthogonal" else RTOL_GRAM, desc, mode=method, root=root, value=exact, kw=kw)
        if res is None:
            continue
        if not okw.get("lazy"):
            if res.num_tensors != n:
                out.bad(sub, "tensor_network_ag_compress %s returned %d tensors for %d sites" % (desc, res.num_tensors, n), entry="tensor_network_ag_compress", check="keys", mode=method, root=root)
                continue
            mb = total_bond_max(res)
            if mb > min(c, Dex):
                out.bad(sub, "tensor_network_ag_compress %s leaves a bond of size %d" % (desc, mb), entry="tensor_network_ag_compress", check="cap", mode=method, root=root)
                continue
        out.ok(sub, nontrivial=True, outcome="tnag:%s:%s" % (method, "value" if exact else "cap"))
    return out


# --------------------------------------------------------------------------- #
#                 compress_between and its local gauge choices                #
# --------------------------------------------------------------------------- #

OPTCB = {
    "-": {},
    "left": dict(absorb="left"),
    "right": dict(absorb="right"),
    "cd1": dict(canonize_distance=1),
    "cd2": dict(canonize_distance=2),
    "cd1+cad1": dict(canonize_distance=1, canonize_after_distance=1),
    "cd1+left": dict(canonize_distance=1, absorb="left"),
    "vtree": dict(mode="virtual-tree", canonize_distance=1),
    "vtree2": dict(mode="virtual-tree", canonize_distance=2),
    "fullbond": dict(mode="full-bond"),
    "fullbond+right": dict(mode="full-bond", absorb="right"),
    "eq1": dict(equalize_norms=1.0),
    "reduced": dict(reduced=True),
}


def cell_cb(cell):
    """``compress_between`` on one edge of a graph: untruncated -> the network
    still denotes the same tensor; truncating -> that bond is within the cap
    and no other bond changed size."""
    _, edges, phys, edge, opt, chis = cell
    out = Out(cell)
    D = 3
    tn0, rf = buildag(edges, phys, D)
    okw = dict(OPTCB[opt])
    a, b = edge
    for chi in chis:
        sub = "chi=%s" % chi
        c = BIG if chi == "E" else int(chi)
        kw = dict(max_bond=c, cutoff=0.0)
        kw.update(copy.deepcopy(okw))
        tn = tn0.copy()
        desc = "('I%d', 'I%d', max_bond=%s, %s) on graph %r phys=%s (bonds of size %d)" % (a, b, chi, okw, edges, phys, D)
        res = _ag_eval(out, sub, "compress_between", lambda: (tn.compress_between("I%d" % a, "I%d" % b, **kw), tn)[1], rf, c, None, RTOL_GRAM if "fullbond" in opt else RTOL, desc, mode=okw.get("mode"), value=(c >= D), kw=kw)
        if res is None:
            continue
        got = pair_bond(res, "I%d" % a, "I%d" % b)
        others = max([0] + [pair_bond(res, "I%d" % x, "I%d" % y) or 0 for x, y in edges if (x, y) != (a, b)])
        if got is None or got > min(c, D) or others > D:
            out.bad(sub, "compress_between %s: compressed bond has size %r, largest other bond %d" % (desc, got, others), entry="compress_between", check="cap", mode=okw.get("mode"))
        else:
            out.ok(sub, outcome="cb:%s" % ("value" if c >= D else "cap"))
    return out


# --------------------------------------------------------------------------- #
#     contract_compressed with an optimizer object that carries its own chi   #
# --------------------------------------------------------------------------- #


def cell_cct(cell):
    """``optimize`` is a cotengra ContractionTreeCompressed whose default
    objective was optimised for ``treechi`` / ``treelate``; ``max_bond`` and
    ``compress_late`` are inherited from it only when NOT specified (documented):
    an explicit cap must win in both directions."""
    _, edges, phys, path, treechi, treelate, maxbond, late = cell
    out = Out(cell)
    import cotengra as ctg
    from cotengra.scoring import CompressedPeakObjective

    tn0, rf = buildag(edges, phys)
    D = 3
    if path == "preset":
        opt = "greedy-compressed"
    else:
        inputs, output, size_dict = tn0.get_inputs_output_size_dict(output_inds=rf.out)
        opt = ctg.ContractionTreeCompressed.from_path(inputs, output, size_dict, path=[tuple(p) for p in path])
        opt.set_default_objective(CompressedPeakObjective(chi=treechi, compress_late=treelate))
    if maxbond == "E":
        eff, mb = BIG, BIG
    elif maxbond == "auto":
        mb = "auto"
        eff = int(treechi) if (treechi != "auto" and path != "preset") else D * D
    else:
        eff, mb = int(maxbond), int(maxbond)
    seen = []
    kw = dict(optimize=opt, max_bond=mb, cutoff=0.0, output_inds=rf.out, callback_post_compress=_cb_recorder(seen))
    if late is not None:
        kw["compress_late"] = late
    desc = "(optimize=<tree of path %r optimised for chi=%r, compress_late=%r>, max_bond=%r, compress_late=%r) on graph %r phys=%s" % (path, treechi, treelate, maxbond, late, edges, phys)
    root = None
    res = _ag_eval(out, "run", "contract_compressed", lambda: tn0.copy().contract_compressed(**kw), rf, eff, seen, RTOL, desc, mode="tree-chi", root=root, value=(maxbond == "E"))
    if res is not None:
        out.ok("run", nontrivial=(maxbond == "E") or bool(seen), outcome="cct:%s" % ("value" if maxbond == "E" else "cap"))
    return out


def cells_cct(tier):
    q = tier == "quick"
    cells = []
    G = [g for g in graphs(4) if nnodes(g) == 4] + ([] if q else [g for g in graphs(5) if nnodes(g) == 5 and len(g) in (5, 6, 10)][:4])
    for phys in (None, 2):
        for g in G:
            paths = all_paths(nnodes(g))
            if nnodes(g) == 5:
                paths = paths[::9]
            elif q:
                paths = paths[::3]
            for path in paths:
                for treechi in ("auto", 2, 8):
                    for treelate in (False, True):
                        for maxbond in ("E", 2, "auto"):
                            for late in (None,) if (q or maxbond == "auto") else (None, True, False):
                                cells.append(("cct", g, phys, path, treechi, treelate, maxbond, late))
            for maxbond in ("E", 2):
                cells.append(("cct", g, phys, "preset", "auto", False, maxbond, None))
    return cells


# --------------------------------------------------------------------------- #
#       two-call histories that re-use the caller's option containers         #
# --------------------------------------------------------------------------- #

HIST = {
    # name: (structure, method, fixed kwargs, names of the shared dict options, evaluator)
    "tn2d.contract_hotrg": ("2d:flat:4:4", "contract_hotrg", {}, ("compress_opts", "contract_opts", "reduce_opts", "final_contract_opts"), "hotrg"),
    "tn2d.contract_hotrg:canon": ("2d:flat:4:4", "contract_hotrg", {"canonize": True}, ("compress_opts", "canonize_opts"), "hotrg"),
    "tn2d.coarse_grain_hotrg": ("2d:flat:4:4", "coarse_grain_hotrg", {"direction": "x"}, ("compress_opts", "contract_opts", "reduce_opts"), "hotrg"),
    "tn2d.contract_ctmrg": ("2d:flat:4:4", "contract_ctmrg", {}, ("compress_opts", "contract_opts", "reduce_opts", "final_contract_opts"), "merged"),
    "tn2d.contract_boundary:mps": ("2d:flat:4:4", "contract_boundary", {"mode": "mps"}, ("compress_opts", "canonize_opts", "final_contract_opts"), "merged"),
    "tn2d.contract_boundary:projector2d": ("2d:flat:4:4", "contract_boundary", {"mode": "projector2d"}, ("compress_opts", "contract_opts", "reduce_opts", "final_contract_opts"), "merged"),
    "tn2d.contract_boundary:zipup": ("2d:flat:4:4", "contract_boundary", {"mode": "zipup"}, ("final_contract_opts",), "merged"),
    "tn2d.contract_boundary:full-bond": ("2d:flat:4:4", "contract_boundary", {"mode": "full-bond"}, ("contract_boundary_opts", "final_contract_opts"), "merged"),
    "tn2d.compute_x_environments": ("2d:flat:4:3", "compute_x_environments", {}, ("compress_opts",), "envs"),
    "tn2d.compute_plaquette_environments": ("2d:flat:3:3", "compute_plaquette_environments", {}, ("compress_opts",), "plq"),
    "tn3d.contract_hotrg": ("3d:2:2:3", "contract_hotrg", {}, ("compress_opts", "contract_opts", "reduce_opts", "final_contract_opts"), "hotrg"),
    "tn3d.coarse_grain_hotrg": ("3d:2:2:3", "coarse_grain_hotrg", {"direction": "z"}, ("compress_opts", "contract_opts", "reduce_opts"), "hotrg"),
    "tn3d.contract_ctmrg": ("3d:2:2:3", "contract_ctmrg", {}, ("compress_opts", "contract_opts", "reduce_opts", "final_contract_opts"), "merged"),
    "tn3d.contract_boundary:peps": ("3d:3:2:2", "contract_boundary", {"mode": "peps"}, ("compress_opts", "canonize_opts", "final_contract_opts"), "merged"),
    "tn3d.contract_boundary:projector3d": ("3d:3:2:2", "contract_boundary", {"mode": "projector3d"}, ("compress_opts", "final_contract_opts"), "merged"),
    "tn3d.contract_peps_sweep": ("3d:2:2:3", "contract_peps_sweep", {}, ("peps_opts", "mps_opts"), "scalar"),
    "tn3d.contract_simple_sweep": ("3d:2:2:3", "contract_simple_sweep", {}, ("peps_opts", "mps_opts"), "scalar0"),
    "contract_compressed": ("ag", "contract_compressed", {}, ("compress_opts", "canonize_opts", "canonize_after_opts"), "callback"),
    "contract_around": ("ag", "contract_around", {}, ("span_opts", "canonize_opts", "compress_opts"), "callback"),
    "contract_around_center": ("ag", "contract_around_center", {}, ("span_opts", "canonize_opts", "compress_opts"), "callback"),
    "contract_around_corner": ("ag", "contract_around_corner", {}, ("span_opts", "canonize_opts", "compress_opts"), "callback"),
    "tnag:projector": ("lay", "projector", {}, ("compress_opts", "contract_opts", "reduce_opts", "canonize_opts"), "tnag"),
    "tnag:local-early": ("lay", "local-early", {}, ("compress_opts",), "tnag"),
    "tnag:local-late": ("lay", "local-late", {}, ("compress_opts",), "tnag"),
    "tnag:su": ("lay", "su", {}, ("compress_opts",), "tnag"),
    "tnag:l2bp": ("lay", "l2bp", {}, ("compress_opts",), "tnag"),
}
HIST_AG = ((0, 1), (0, 2), (0, 3), (1, 2), (2, 3))
HIST_PATH = ((0, 1), (0, 1), (0, 1))


def cell_hist(cell):
    """call the scheme twice with THE SAME option containers and a different
    cap: small then exact (the second result must be exact) or exact then
    small (the second boundary must obey the small cap).  After each call the
    containers must be what the caller put in."""
    _, name, dictkind, order = cell
    out = Out(cell)
    qtn = _qtn()
    struct, meth, fixed, dnames, ev = HIST[name]
    if struct.startswith("2d"):
        _, kind, Lx, Ly = struct.split(":")
        tn0, rf = build2d(kind, int(Lx), int(Ly), 0)
        capE, D = cap2d(kind, int(Lx), int(Ly), 0), layer_bond(kind)
        if "hotrg" in meth or "ctmrg" in meth:
            capE = CAPRG
    elif struct.startswith("3d"):
        tn0, rf = build3d(tuple(int(x) for x in struct.split(":")[1:]), 0)
        capE, D = CAP3D, 2
    elif struct == "ag":
        tn0, rf = buildag(HIST_AG, None)
        capE, D = BIG, 3
    else:
        tn0, rf = build_layers("op-vec", HIST_AG)
        capE, D = BIG, 4
    if dictkind == "empty":
        shared = {k: {} for k in dnames}
    else:
        # harmless content: spelled-out defaults / options that are inert at cutoff=0
        shared = {k: {} for k in dnames}
        if "compress_opts" in shared and ev in ("hotrg",) or name in ("tn2d.contract_ctmrg", "tn3d.contract_ctmrg", "tnag:projector", "tn2d.contract_boundary:projector2d"):
            shared["compress_opts"] = {"cutoff_mode": "rel"}
        if "peps_opts" in shared:
            shared["peps_opts"] = {"cutoff": 0.0, "compress_opts": {}} if meth == "contract_peps_sweep" else {"cutoff": 0.0}
            shared["mps_opts"] = {"cutoff": 0.0}
    if name == "tn2d.contract_boundary:full-bond":
        shared.pop("contract_boundary_opts")
        shared["contract_boundary_opts"] = {}
    if meth == "contract_simple_sweep":
        for k in ("peps_opts", "mps_opts"):
            shared[k].setdefault("cutoff", 0.0)
    if meth == "contract_peps_sweep" and dictkind == "empty":
        pass
    chis = (2, "E") if order == "small-first" else ("E", 2)
    if ev in ("scalar", "scalar0", "envs", "plq") and order != "small-first":
        chis = ("E", "E")
    for n, chi in enumerate(chis):
        sub = "call%d:chi=%s" % (n + 1, chi)
        c = capE if chi == "E" else int(chi)
        seen = []
        kw = dict(fixed)
        kw.update(shared)  # the SAME objects in both calls
        kw["max_bond"] = c
        if meth not in ("contract_simple_sweep",):
            kw["cutoff"] = 0.0
        tn = tn0.copy()
        ename = name.split(":")[0] if not name.startswith("tnag") else "tensor_network_ag_compress"
        if ev == "callback":
            kw["callback_post_compress"] = _cb_recorder(seen)
            if meth == "contract_compressed":
                kw["optimize"] = [tuple(p) for p in HIST_PATH]
            if meth == "contract_around":
                kw["tags"] = "I1"
        if ev == "tnag":
            from quimb.tensor.tnag.compress import tensor_network_ag_compress

            kw.update(method=meth, site_tags=["I%d" % i for i in range(nnodes(HIST_AG))])
            call = lambda: tensor_network_ag_compress(tn, **kw)
        else:
            if ev in ("hotrg", "merged") and chi != "E" and meth not in ("coarse_grain_hotrg",):
                kw["final_contract"] = False
            call = lambda: getattr(tn, meth)(**kw)
        fp0 = opt_fp(kw)
        try:
            res = call()
        except Exception as ex:
            out.bad(sub, "%s(%r) [call %d of a history sharing the option containers %r] raised %s: %s" % (ename, sorted((k, v) for k, v in kw.items() if not callable(v)), n + 1, dnames, _exc_name(ex), str(ex)[:160]), entry=ename, check="crash", exc=_exc_name(ex), mode=fixed.get("mode"), hist=order)
            break
        mutated = check_pure(out, sub, ename, kw, fp0, fixed.get("mode"))
        what = "%s, call %d of 2 sharing the caller's %r (%s), max_bond=%s" % (ename, n + 1, dnames, dictkind, chi)
        bad = None
        if chi == "E":
            try:
                if ev == "envs":
                    lo, hi = res["xmin", 1], res["xmax", 1]
                    ts = denote(lo)[0] + denote(hi)[0] + denote(tn0.select(tn0.x_tag(1)))[0]
                    e = rf.err(ref_contract(ts) * 10.0 ** (float(lo.exponent) + float(hi.exponent) + float(tn0.exponent)))
                elif ev == "plq":
                    E = res[(1, 1), (2, 2)]
                    ts = denote(E)[0] + denote(tn0.select_any([tn0.site_tag(i, j) for i in (1, 2) for j in (1, 2)]))[0]
                    e = rf.err(ref_contract(ts) * 10.0 ** (float(E.exponent) + float(tn0.exponent)))
                else:
                    e = rf.err(valof(res, rf.out))
            except Exception as ex:
                out.bad(sub, "%s: result cannot be denoted (%s: %s)" % (what, _exc_name(ex), str(ex)[:120]), entry=ename, check="type", mode=fixed.get("mode"), hist=order)
                break
            out.maxerr = max(out.maxerr, e if np.isfinite(e) else 0.0)
            if not e <= RTOL_GRAM:
                bad = ("value", "%s: untruncated result off by %.3e" % (what, e))
        else:
            if ev == "callback":
                m = max(seen or [0])
                lim = c
            elif ev == "hotrg":
                m, lim = total_bond_max(res), max(c, D)
            elif ev == "merged":
                m, lim = merged_bond_max(res)[0], max(c, D)
            elif ev == "tnag":
                m, lim = total_bond_max(res), c
            else:
                m, lim = 0, c
            if m > lim:
                bad = ("cap", "%s: a handed-over / just-compressed bond has size %d" % (what, m))
        if bad:
            out.bad(sub, bad[1], entry=ename, check=bad[0], mode=fixed.get("mode"), hist=order, root=("second-call" if n == 1 else None))
        else:
            out.ok(sub, outcome="hist:%s:%s" % (ev, "value" if chi == "E" else "cap"))
    return out


def cells_hist(tier):
    cells = []
    for name in HIST:
        for dictkind in ("empty", "content"):
            for order in ("small-first", "big-first"):
                cells.append(("hist", name, dictkind, order))
    return cells


# --------------------------------------------------------------------------- #
#                               dispatcher                                    #
# --------------------------------------------------------------------------- #

TABLES = {
    "b2d": cell_b2d,
    "from2d": cell_from2d,
    "ar2d": cell_ar2d,
    "env2d": cell_env2d,
    "rg": cell_rg,
    "b3d": cell_b3d,
    "from3d": cell_from3d,
    "sw3d": cell_sw3d,
    "cell3d": cell_cell3d,
    "cc": cell_cc,
    "ar": cell_ar,
    "cb": cell_cb,
    "cct": cell_cct,
    "hist": cell_hist,
    "call": cell_call,
    "tnag": cell_tnag,
}


def cell_fn(cell, common=None):
    cell = core.tuplify(cell)
    out = TABLES[cell[0]](cell)
    if out.maxerr > 0:
        b = int(np.floor(np.log10(out.maxerr))) + 1
        for r in out.res:
            if r["st"] == "ok" and r.get("out"):
                r["out"] = "%s|err<1e%d" % (r["out"], max(b, -16))
                break
    return out.res


# --------------------------------------------------------------------------- #
#                               enumeration                                   #
# --------------------------------------------------------------------------- #


def modes2d():
    m1, mag = _registries()
    return ("mps", "full-bond", "projector2d") + m1 + mag


def modes3d():
    _, mag = _registries()
    return ("peps", "projector3d", "l2bp3d") + mag


def slow_mode(m):
    """modes whose TRUNCATING runs are iterative / expensive: they get the
    exact-regime alphabet everywhere and the cap alphabet on a reduced set"""
    return m.startswith("fit") or m in ("projector", "l2bp", "local-early", "l2bp3d")


def all_seqs(dirs, kmax):
    return [None] + [s for k in range(1, kmax + 1) for s in itertools.permutations(dirs, k)]


SEQ6 = (None, "xmin", "xmax", "ymin", "ymax", ("xmin", "ymin", "xmax", "ymax"))
SEQ_ALIAS = ("b", "t", "l", "r", "bt", "lr", ("b", "r"), ("t", "l", "b", "r"))


def _opts_for2d(mode, names):
    return [o for o in names if not (o in OPT_MPS_ONLY and mode != "mps")]


def cells_b2d(tier):
    q = tier == "quick"
    M = modes2d()
    cells = []

    def chis(mode, opt="-", full=True):
        if opt not in OPT_CAP:
            return ("E",)
        if slow_mode(mode):
            return ("E",) if (q or not full) else ("E", 2)
        return ("E", 2) if q else ("E", 2, 3)

    # A1: every sequence x every mode, flat open lattices
    sizes = [(3, 3), (4, 4)] if q else [(a, b) for a in (2, 3, 4) for b in (2, 3, 4)] + [(5, 3), (3, 5), (5, 5)]
    seqs = all_seqs(DIRS2, 4) + list(SEQ_ALIAS)
    for Lx, Ly in sizes:
        for mode in M:
            for seq in seqs:
                cells.append(("b2d", "flat", Lx, Ly, 0, mode, seq, "-", chis(mode, full=(Lx, Ly) in ((4, 4), (5, 5)))))
    # A2: kinds x option deviations
    kinds = ["flat", "flatexp", "norm", "norm:KB"] if q else ["flat", "flat3", "flatexp", "norm", "norm:KB", "norm:BK"]
    for kind in kinds:
        base = kind.partition(":")[0]
        if q:
            szs = [(4, 3)] if base != "norm" else [(3, 3)]
            sq = (None, "ymax", ("xmin", "ymin", "xmax", "ymax")) if base != "norm" else (None, ("xmin", "ymin", "xmax", "ymax"))
        else:
            szs = [(3, 3), (4, 3), (3, 4), (4, 4)] if base != "norm" else [(2, 3), (3, 3), (4, 3)]
            sq = SEQ6
        for Lx, Ly in szs:
            for mode in M:
                names = list(OPT2D)
                if q and (base == "norm" or kind == "flatexp"):
                    names = ["-", "nocanon", "eq1", "strip", "sep0", "inplace", "dicts"]
                for opt in _opts_for2d(mode, names):
                    if opt == "-" and kind == "flat" and (Lx, Ly) in sizes:
                        continue  # already in A1
                    for seq in sq:
                        cells.append(("b2d", kind, Lx, Ly, 0, mode, seq, opt, chis(mode, opt, full=False)))
    # A3: cyclic lattices
    for cyc in (1, 2, 3):
        for Lx, Ly in ([(3, 3), (4, 3)] if q else [(3, 3), (4, 3), (3, 4), (4, 4), (2, 3)]):
            for mode in M:
                for opt in ("-",) if q else ("-", "nocanon", "sep0"):
                    for seq in (SEQ6[:3] if q else SEQ6):
                        cells.append(("b2d", "flat", Lx, Ly, cyc, mode, seq, opt, chis(mode, opt, full=False)))
    # A4: degenerate lattices (one line)
    if not q:
        for Lx, Ly in [(1, 3), (3, 1), (4, 1), (1, 1), (2, 1)]:
            for mode in M:
                for seq in (None, "xmin", "ymin"):
                    cells.append(("b2d", "flat", Lx, Ly, 0, mode, seq, "-", ("E",)))
    return cells


def _ranges(L):
    return [(a, b) for a in range(L) for b in range(a, L)]


def cells_from2d(tier):
    q = tier == "quick"
    M = modes2d()
    cells = []
    lat = [("flat", 3, 3, 0)] if q else [("flat", 4, 4, 0), ("flat", 3, 4, 0), ("flat3", 3, 3, 0), ("flat", 3, 3, 2), ("flat", 4, 3, 1)]
    for kind, Lx, Ly, cyc in lat:
        for mode in M:
            ch = ("E",) if (slow_mode(mode) and q) else ("E", 2) if (slow_mode(mode) or q) else ("E", 2, 3)
            for fw in DIRS2:
                for xr in _ranges(Lx):
                    for yr in _ranges(Ly):
                        sw = xr if fw[0] == "x" else yr
                        if sw[0] == sw[1]:
                            continue
                        cells.append(("from2d", kind, Lx, Ly, cyc, mode, fw, xr, yr, "-", "wrap", ch))
    # lattices periodic along the swept line (the line is a ring): every sweep
    # range, full other range
    for kind, Lx, Ly, cyc in ([("flat", 3, 3, 3)] if q else [("flat", 3, 3, 3), ("flat", 4, 3, 1), ("flat", 3, 4, 2), ("flat", 4, 4, 3), ("flat3", 3, 3, 3)]):
        for mode in M:
            if q and slow_mode(mode):
                continue
            ch = ("E", 2) if (slow_mode(mode) or q) else ("E", 2, 3)
            for fw in DIRS2:
                ax = "xy".index(fw[0])
                for sw in _ranges((Lx, Ly)[ax]):
                    if sw[0] == sw[1]:
                        continue
                    xr, yr = (sw, None) if ax == 0 else (None, sw)
                    cells.append(("from2d", kind, Lx, Ly, cyc, mode, fw, xr, yr, "-", "wrap_", ch))
    # the other spellings + option deviations + layered, on full / None ranges
    lat2 = [("flat", 4, 3, 0), ("norm:KB", 3, 3, 0)] if q else [("flat", 4, 4, 0), ("flatexp", 4, 3, 0), ("norm", 3, 3, 0), ("norm:KB", 3, 3, 0), ("norm:BK", 4, 3, 0), ("norm:KB", 3, 4, 0)]
    for kind, Lx, Ly, cyc in lat2:
        for mode in M:
            ch = ("E", 2) if (slow_mode(mode) or q) else ("E", 2, 3)
            opts = ["-", "nocanon", "rev", "eq1", "dicts"] + (["early", "absboth"] if mode == "mps" else []) + (["lazy"] if mode == "projector2d" else [])
            if mode == "full-bond":
                opts = ["-"]
            for fw in DIRS2:
                ax = "xy".index(fw[0])
                L = (Lx, Ly)[ax]
                part = (0, L - 2) if fw.endswith("min") else (1, L - 1)
                for sw in (part, (0, L - 1)):
                    if sw[0] >= sw[1]:
                        continue
                    for how in ("wrap", "wrap_", "gen"):
                        for opt in opts:
                            if opt != "-" and how != "wrap_":
                                continue
                            xr, yr = (sw, None) if ax == 0 else (None, sw)
                            if how == "gen" and mode != "mps":
                                xr, yr = (sw, (0, Ly - 1)) if ax == 0 else ((0, Lx - 1), sw)
                            cells.append(("from2d", kind, Lx, Ly, cyc, mode, fw, xr, yr, opt, how, ch))
    return cells


def cells_ar2d(tier):
    q = tier == "quick"
    cells = []
    M = ("mps", "full-bond", "projector2d", "dm", "zipup", "direct", "local-late", "su") if q else modes2d()
    for kind, Lx, Ly in ([("flat", 4, 4)] if q else [("flat", 5, 4), ("flat", 4, 4), ("norm:KB", 4, 3)]):
        sites = [(i, j) for i in range(Lx) for j in range(Ly)]
        arounds = [(s,) for s in sites] + [(a, b) for a in sites for b in sites if a < b and abs(a[0] - b[0]) + abs(a[1] - b[1]) == 1]
        arounds += [((1, 1), (2, 2)), ((0, 0), (Lx - 1, Ly - 1)), ((1, 0), (3, 0))]
        if q:
            arounds = arounds[::3]
        for around in arounds:
            for mode in M:
                ch = ("E",) if slow_mode(mode) else ("E", 2)
                cells.append(("ar2d", kind, Lx, Ly, mode, "contract_boundary", around, ch))
            if kind == "flat":
                cells.append(("ar2d", kind, Lx, Ly, "projector", "contract_ctmrg", around, ("E", 2)))
    return cells


def cells_env2d(tier):
    q = tier == "quick"
    M = modes2d()
    cells = []
    lat = [("flat", 3, 3, 0), ("flat", 4, 3, 0), ("flatexp", 3, 4, 0), ("norm", 3, 3, 0), ("norm:KB", 3, 3, 0)]
    if not q:
        lat += [("flat", 2, 2, 0), ("flat", 2, 3, 0), ("flat", 4, 4, 0), ("flat3", 3, 3, 0), ("flatexp", 4, 3, 0), ("norm", 2, 3, 0), ("norm:KB", 4, 3, 0), ("norm:BK", 3, 4, 0), ("flat", 3, 3, 3), ("flat", 4, 3, 1), ("flat", 3, 4, 2), ("flat", 1, 3, 0), ("flat", 3, 1, 0)]
    for kind, Lx, Ly, cyc in lat:
        for mode in M:
            opts = ["-", "dense", "nocanon", "eq1"] + ([] if q else ["eqT"])
            if q and slow_mode(mode):
                opts = ["-"]
            if mode in ("mps", "projector2d", "zipup", "projector") or not q:
                opts.append("dicts")
            if mode == "mps" or (not q and mode in ("zipup", "projector2d")):
                opts.append("dense+eq1")  # the dense branch does not depend on the mode
            for opt in opts:
                for entry in ("x", "y"):
                    cells.append(("env2d", kind, Lx, Ly, cyc, mode, entry, None, opt))
            # one-sided environments with every sub-range along the sweep and
            # full / partial range across it
            if kind in ("flat", "flatexp") and (not q or not slow_mode(mode)) and min(Lx, Ly) > 1:
                for fw in DIRS2:
                    ax = "xy".index(fw[0])
                    L = (Lx, Ly)
                    for sw in [r for r in _ranges(L[ax]) if r[1] - r[0] >= 1] + [None]:
                        for ot in ([None] if q else [None, (0, L[1 - ax] - 1), (1, L[1 - ax] - 1)]):
                            if ot is not None and ot[0] >= ot[1]:
                                continue
                            xr, yr = (sw, ot) if ax == 0 else (ot, sw)
                            cells.append(("env2d", kind, Lx, Ly, cyc, mode, "one", (fw, xr, yr), "-"))
    # plaquette environments
    plat = [("flat", 3, 3, 0), ("flatexp", 4, 3, 0), ("norm:KB", 3, 3, 0)] if q else [("flat", 2, 2, 0), ("flat", 2, 3, 0), ("flat", 3, 3, 0), ("flat", 4, 3, 0), ("flat", 3, 4, 0), ("flat", 4, 4, 0), ("flatexp", 4, 3, 0), ("flat3", 3, 3, 0), ("norm", 3, 3, 0), ("norm:KB", 3, 3, 0), ("norm:KB", 4, 3, 0)]
    for kind, Lx, Ly, cyc in plat:
        for mode in M:
            if q and slow_mode(mode):
                continue
            for bx, by in [(1, 1), (1, 2), (2, 1), (2, 2)] + ([] if q else [(3, 2), (2, 3), (3, 3)]):
                if bx > Lx or by > Ly:
                    continue
                for fc in (None, "x", "y"):
                    for sd in ((None,) if q else (None, True, False)):
                        for opt in ("-", "eq1") if (q or slow_mode(mode)) else ("-", "nocanon", "eq1", "eqT"):
                            if opt != "-" and (sd is not None or fc is None):
                                continue
                            cells.append(("env2d", kind, Lx, Ly, cyc, mode, "plq", (bx, by, fc, sd), opt))
    return cells


def cells_rg(tier):
    q = tier == "quick"
    cells = []
    # 2D
    lat = [("flat", (4, 4), 0), ("flat", (5, 3), 0), ("flat", (3, 3), 3), ("norm", (3, 3), 0)] if q else [("flat", L, c) for L in [(2, 2), (2, 3), (3, 3), (4, 4), (2, 4), (5, 3), (4, 5), (6, 2), (5, 5)] for c in (0, 1, 2, 3)] + [("flat3", (4, 3), 0), ("flatexp", (4, 4), 0), ("norm", (3, 3), 0), ("norm", (4, 3), 0)]
    hot = ["-", "canon", "gp", "lazy", "strip", "eqT", "eq1", "nofinal", "inplace", "sep0", "sep2", "unf0", "seq:yx", "seq:x", "seq:y", "dicts", "dicts+canon"]
    ctm = ["-", "canon", "lazy", "strip", "eq1", "nofinal", "inplace", "sep0", "sep2", "seq:xy", "seq:rev", "dicts"]
    for kind, L, cyc in lat:
        for opt in hot:
            cells.append(("rg", 2, kind, L, cyc, "contract_hotrg", opt, ("E", 2, 3)))
        for opt in ctm:
            cells.append(("rg", 2, kind, L, cyc, "contract_ctmrg", opt, ("E", 2, 3)))
        for d in "xy":
            for opt in ("-", "canon", "lazy", "eq1", "inplace", "dicts"):
                cells.append(("rg", 2, kind, L, cyc, "cg:" + d, opt, ("E", 2, 3)))
        for opt in ("dir:None", "dir:xmin", "dir:xmax", "dir:ymin", "dir:ymax"):
            cells.append(("rg", 2, kind, L, cyc, "contract_mps_sweep", opt, ("E", 2, 3)))
    # ctmrg's mode argument: every other boundary mode
    for mode in (("mps", "projector2d", "zipup") if q else [m for m in modes2d() if m != "projector"]):
        cells.append(("rg", 2, "flat", (4, 4), 0, "contract_ctmrg", "mode:" + mode, ("E",)))
    # 3D
    lat3 = [((2, 2, 3), 0), ((3, 3, 2), 0)] if q else [((2, 2, 2), 0), ((2, 2, 3), 0), ((3, 2, 2), 0), ((2, 3, 2), 0), ((3, 3, 2), 0), ((3, 3, 3), 0), ((4, 2, 2), 0), ((2, 2, 3), 4), ((3, 3, 2), 7), ((3, 3, 3), 1)]
    hot3 = ["-", "canon", "lazy", "dicts", "strip", "eq1", "nofinal", "inplace", "sep0", "seq:zyx", "seq:z", "dicts+canon"]
    ctm3 = ["-", "canon", "lazy", "dicts", "strip", "eq1", "nofinal", "inplace", "sep0", "seq:zrev"]
    for L, cyc in lat3:
        for opt in (hot3[:4] if q else hot3):
            cells.append(("rg", 3, "flat", L, cyc, "contract_hotrg", opt, ("E", 2)))
        for opt in (ctm3[:4] if q else ctm3):
            cells.append(("rg", 3, "flat", L, cyc, "contract_ctmrg", opt, ("E", 2)))
        for d in "xyz":
            for opt in ("-",) if q else ("-", "canon", "lazy", "eq1"):
                cells.append(("rg", 3, "flat", L, cyc, "cg:" + d, opt, ("E", 2)))
    for mode in (("projector3d",) if q else ("peps", "projector3d", "l2bp3d", "local-late")):
        cells.append(("rg", 3, "flat", (2, 2, 3), 0, "contract_ctmrg", "mode:" + mode, ("E",)))
    return cells


def cells_3d(tier):
    q = tier == "quick"
    M = modes3d()
    cells = []
    shapes = [(2, 2, 3), (3, 2, 2)] if q else [(2, 2, 2), (2, 2, 3), (2, 3, 2), (3, 2, 2), (3, 3, 2), (2, 3, 3), (3, 3, 3)]
    seqs = all_seqs(DIRS3, 1) + [("xmin", "xmax"), ("zmin", "ymax", "xmin"), ("zmax", "zmin"), ("ymin", "xmax", "zmin", "ymax", "xmin", "zmax")]
    if not q:
        seqs += [s for s in itertools.permutations(DIRS3, 2)]
        seqs = list(dict.fromkeys(seqs))
    for shape in shapes:
        big = int(np.prod(shape)) >= 18
        for mode in M:
            for seq in seqs:
                if big and slow_mode(mode) and isinstance(seq, tuple) and len(seq) == 2 and seq not in (("xmin", "xmax"), ("zmax", "zmin")):
                    continue
                ch = ("E",) if (slow_mode(mode) or (q and seq is not None and not isinstance(seq, str))) else ("E", 2)
                cells.append(("b3d", shape, 0, mode, seq, "-", ch))
            names = ["nocanon", "eq1", "strip", "sep0", "dicts"] if q else [o for o in OPT3D if o != "-"]
            for opt in names:
                if opt in ("nointer", "early") and mode != "peps":
                    continue
                if opt == "lazy" and mode != "projector3d":
                    continue
                for seq in ((None,) if q else (None, "zmin", ("xmin", "xmax"))):
                    cells.append(("b3d", shape, 0, mode, seq, opt, ("E", 2) if (opt in ("nocanon", "sep0", "early", "nointer") and not slow_mode(mode) and not big) else ("E",)))
    # cyclic
    for shape, cyc in ([((3, 2, 2), 1)] if q else [((3, 2, 2), 1), ((2, 3, 2), 2), ((2, 2, 3), 4), ((3, 3, 2), 7), ((3, 3, 3), 1)]):
        for mode in M:
            for seq in (None, "xmin", "zmax"):
                cells.append(("b3d", shape, cyc, mode, seq, "-", ("E",)))
    # partial sweeps
    for shape in ([(3, 2, 2), (2, 2, 3)] if q else [(3, 2, 2), (2, 3, 3), (3, 3, 3), (2, 2, 4)]):
        for mode in M:
            for fw in DIRS3:
                ax = "xyz".index(fw[0])
                if shape[ax] < 3:
                    continue
                for rng in ("two", "all"):
                    for how in ("inplace", "plain"):
                        opts = ("-",) if (q or how == "plain") else ("-", "nocanon", "eq1")
                        for opt in opts:
                            ch = ("E",) if how == "plain" else (("E", 2) if (slow_mode(mode) or q) else ("E", 2, 3))
                            if how == "plain" and rng == "all":
                                continue
                            cells.append(("from3d", shape, mode, fw, rng, opt, how, ch))
    # sweeps
    for shape in ([(2, 2, 3)] if q else [(2, 2, 2), (2, 2, 3), (3, 2, 2), (2, 3, 2), (3, 3, 2), (2, 2, 4), (3, 3, 3)]):
        for fw in (None,) + DIRS3:
            for opt in ("-", "nocanon", "dicts") if q else ("-", "nocanon", "nointer", "strip", "inplace", "mode:projector3d", "mode:projector", "mode:local-late", "dicts"):
                cells.append(("sw3d", shape, "contract_peps_sweep", fw, opt))
        for opt in ("-", "dicts") if q else ("-", "smudge0", "iters", "power", "eq1", "dicts"):
            cells.append(("sw3d", shape, "contract_simple_sweep", None, opt))
    # cell environments
    for shape in ([(2, 2, 3)] if q else [(2, 2, 2), (2, 2, 3), (3, 2, 2), (3, 3, 2)]):
        keys = []
        for i, j, k in itertools.product(*(range(s) for s in shape)):
            keys.append((("x", i, 1), ("y", j, 1), ("z", k, 1)))
        for i, j, k in itertools.product(*(range(s - 1) for s in shape)):
            keys.append((("x", i, 2), ("y", j, 1), ("z", k, 1)))
            keys.append((("x", i, 1), ("y", j, 2), ("z", k, 2)))
        if q:
            keys = keys[::4]
        for key in keys:
            for mode in (("peps",) if q else ("peps", "projector3d", "local-late")):
                cells.append(("cell3d", shape, key, mode))
    return cells


def graphs(nmax):
    from ..alphabet import connected_graphs

    out = []
    for n in range(2, nmax + 1):
        out += [tuple(tuple(e) for e in g) for g in connected_graphs(n)]
    return out


def cells_ag(tier):
    q = tier == "quick"
    cells = []
    G4 = graphs(4)
    G5 = [g for g in graphs(5) if nnodes(g) == 5]
    ring5 = ((0, 1), (0, 4), (1, 2), (2, 3), (3, 4))
    for phys in (None, 2):
        for g in G4 + ([g for g in G5 if len(g) in (4, 5)][:3] if q else G5):
            n = nnodes(g)
            paths = all_paths(n)
            names = [o for o in OPTCC if o != "spandict"]
            if n == 5:
                names = ["-", "late", "basic", "gauges", "tgd0", "dicts"] if q else [o for o in names if o not in ("ptensor", "inplace", "span1", "cad1")]
            elif q:
                names = [o for o in names if "+" not in o]
            for path in paths:
                for opt in names:
                    if opt == "ptensor" and phys:
                        continue
                    cells.append(("cc", g, phys, path, opt, ("E", 2)))
        # contract_around*
        for g in G4 + ([] if q else G5) + [((0, 1), (1, 2), (3, 4), (4, 5), (0, 3), (1, 4), (2, 5))]:
            n = nnodes(g)
            names = ["-", "spandict", "tgd0", "tgd2", "early", "gauges", "eq1", "span1", "nomat", "gbo", "basic", "vtree"]
            if q:
                names = names[:7]
            for opt in names:
                for site in range(n):
                    cells.append(("ar", g, phys, "contract_around", site, opt, ("E", 2)))
                for entry in ("contract_around_center", "contract_around_corner"):
                    cells.append(("ar", g, phys, entry, None, opt, ("E", 2)))
        # compress_all family
        for g in G4 + ([] if q else G5):
            for entry, opts in OPTCALL.items():
                if entry == "compress_all_tree" and not is_tree(g):
                    continue
                if entry == "compress_all_1d" and not is_chain(g):
                    continue
                for opt in opts:
                    cells.append(("call", g, phys, entry, opt, ("E", 3, 2)))
    # tnag methods
    for layers in NLAY:
        for g in (G4 if q else G4 + [ring5, ((0, 1), (0, 2), (0, 3), (0, 4)), ((0, 1), (1, 2), (2, 3), (3, 4), (0, 4), (1, 3))]):
            if nnodes(g) < 3:
                continue
            if NLAY[layers] == 3 and q and len(g) > 4:
                continue
            for method, opts in OPTTNAG.items():
                for opt in opts:
                    if q and opt not in ("-", "nocanon", "lazy", "dicts"):
                        continue
                    cells.append(("tnag", layers, g, method, opt, ("E", "D", 2) if q else ("E", "D", 2, 3)))
    return cells


def cells_cb(tier):
    q = tier == "quick"
    cells = []
    G = graphs(4) + ([] if q else [g for g in graphs(5) if nnodes(g) == 5])
    for phys in (None, 2):
        for g in G:
            for edge in g:
                for opt in OPTCB:
                    cells.append(("cb", g, phys, edge, opt, ("E", 3, 2)))
    return cells


CELLFNS = {
    "b2d": cells_b2d,
    "from2d": cells_from2d,
    "ar2d": cells_ar2d,
    "env2d": cells_env2d,
    "rg": cells_rg,
    "3d": cells_3d,
    "ag": cells_ag,
    "cb": cells_cb,
    "cct": cells_cct,
    "hist": cells_hist,
}


# --------------------------------------------------------------------------- #
#                                 run / replay                                #
# --------------------------------------------------------------------------- #


def run(ctx):
    tier = ctx.tier
    only = set(ctx.opts["tables"].split(",")) if ctx.opts.get("tables") else None
    m1, mag = _registries()
    ctx.rule = (
        "a cell is (table, structure, entry point, mode, direction/sequence/range/path/region, one option deviation, caps); every list is a complete "
        "enumeration (all ordered direction subsets, all sub-ranges, all contraction paths of all connected graphs, all stored environment keys); each "
        "evaluation calls the real scheme with cutoff=0 and (a) a cap above every bond: the returned scalar / (mantissa, exponent) / tensor / network must "
        "denote the same value as the input network (numpy pairwise einsum over the labelled arrays x 10**exponent), or (b) a cap of 2 or 3: every bond "
        "between boundary tensors handed over / every bond seen by callback_post_compress is <= the cap; environments are combined with the sites they "
        "exclude and must be closed and contract to the value of the whole; distinct = (cell, cap); non-trivial = at least one boundary step / "
        "compression / non-empty environment happened; data are generic complex, so a skipped row, a wrong key or a dropped exponent changes the number"
    )
    ctx.bounds = {
        "2D": "flat D=2 up to 5x5 (quick 4x4), D=3 up to 4x4, double-layer PEPS norm up to 4x3 (with and without layer_tags, both orders), network with exponent, cyclic x / y / both, one-line lattices",
        "2D_modes": list(modes2d()),
        "3D": "TN3D D=2 up to 3x3x3 (quick 2x2x3 / 3x2x2), cyclic per axis (up to 3x3x3) and in all three (3x3x2; the numpy reference cannot contract a fully periodic 3x3x3 in reasonable time)",
        "3D_modes": list(modes3d()),
        "graphs": "every connected graph on 2..5 nodes (quick: all on <= 4 nodes + 3 on 5), bonds of size 3, closed and with one dangling index per node; all 3 / 18 / 180 contraction paths",
        "caps": "exact regime: 2D max_bond=(layer bond)**(lines absorbed) (squared on cyclic lattices; exactly large enough), 3D %d, HOTRG/CTMRG %d, graphs %d; truncating regime chi in {2, 3}; cutoff=0.0 always" % (CAP3D, CAPRG, BIG),
        "options": {"contract_boundary": sorted(OPT2D), "contract_compressed": sorted(OPTCC), "3D": sorted(OPT3D), "rg": sorted(OPTRG)},
    }
    ctx.assumptions += [
        "tolerance: relative 1e-8 for QR/SVD based schemes, 1e-7 for schemes going through Gram matrices / eigh (projector*, dm, full-bond, fit-projector, bp, simple update, HOTRG/CTMRG), 1e-5 for the latter when they compress a boundary without dangling indices (sweep reaching the last line: rank deficient Gram matrices; largest error seen 6e-7); the denominator is max(|exact|, 1e-4 * value of the network of absolute values) so cancellation in the exact value cannot cause a false alarm",
        "mode-specific options are only given to the mode that documents them (compress_late / compress_opts absorb / canonize_interleave: mps resp. peps; lazy: projector2d / projector3d)",
        "mode='full-bond' with equalize_norms / strip_exponent and 3D mode='peps' on cyclic lattices are documented NotImplementedError rejections",
        "compress_all_tree only on trees, compress_all_1d only on chains (documented domains); contract_simple_sweep is given cutoff=0 through peps_opts/mps_opts",
        "iterative / expensive modes (fit*, projector, l2bp, local-early) get the full exact-regime alphabet but the truncating (cap) alphabet only on the largest lattice of each table",
        "randomised 1D compressors (src*, fit, fit-oversample) get an explicit seed=7",
        "canonize_distance=-1 (undocumented special value) and compress_mode='local-fit' (iterative ALS, LinAlgError below the exact bond) are not enumerated",
        "sim_steps() is a harness-side model of the interleaved sequence loop used only to label cells (non-triviality, known-finding triggers), never as an oracle",
    ]
    total = {}
    for name, fn in CELLFNS.items():
        if only and name not in only:
            continue
        t0 = ctx.elapsed()
        cells = fn(tier)
        n_ok, n_rej, n_bad = table.run(ctx, "cell_fn", cells, name=name, chunk=int(ctx.opts.get("chunk", 8)))
        total[name] = len(cells)
        ctx.notes["wall_%s_s" % name] = round(ctx.elapsed() - t0, 1)
        ctx.subproducts.append("%s: %d cells complete (%d evaluations ok, %d documented rejections, %d violating)" % (name, len(cells), n_ok, n_rej, n_bad))
    ctx.notes["cells_per_table"] = total


def replay(case):
    return table.replay(sys.modules[__name__], case)

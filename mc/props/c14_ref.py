"""Numpy-only references for C14 (belief propagation on acyclic networks).

No quimb imports here.  A network is a list of ``(array, labels)``; every
quantity is one explicit einsum over all labels (mc.ref.tn_value), which is
cheap below the C14 bounds (<= 8 tensors, <= 10 labels of size <= 3).
"""

from __future__ import annotations

import itertools

import numpy as np

from .. import ref as R

# --------------------------------------------------------------------------- #
#                         unlabelled trees (no networkx)                      #
# --------------------------------------------------------------------------- #


def _ahu(adj, root, parent=-1):
    return "(" + "".join(sorted(_ahu(adj, c, root) for c in adj[root] if c != parent)) + ")"


def _canon_tree(n, edges):
    adj = {i: [] for i in range(n)}
    for a, b in edges:
        adj[a].append(b)
        adj[b].append(a)
    return min(_ahu(adj, r) for r in range(n))


def _prufer_to_edges(seq, n):
    deg = [1] * n
    for s in seq:
        deg[s] += 1
    edges = []
    for s in seq:
        for j in range(n):
            if deg[j] == 1:
                edges.append((min(j, s), max(j, s)))
                deg[j] -= 1
                deg[s] -= 1
                break
    u, v = [j for j in range(n) if deg[j] == 1]
    edges.append((u, v))
    return sorted(edges)


def unlabelled_trees(n):
    """Every tree on n nodes up to isomorphism, one labelled representative
    each (the first in Pruefer order), as sorted edge lists.  Counts: 1, 1, 1,
    2, 3, 6 for n = 1..6."""
    if n == 1:
        return [[]]
    if n == 2:
        return [[(0, 1)]]
    seen = {}
    for seq in itertools.product(range(n), repeat=n - 2):
        e = _prufer_to_edges(seq, n)
        c = _canon_tree(n, e)
        if c not in seen:
            seen[c] = e
    return [seen[c] for c in sorted(seen)]


# --------------------------------------------------------------------------- #
#                                1-norm quantities                            #
# --------------------------------------------------------------------------- #


def all_labels(arrs):
    out = []
    for _, labels in arrs:
        for l in labels:
            if l not in out:
                out.append(l)
    return out


def value(arrs, exponent=0.0):
    """Sum over every label (dangling ones included) times 10**exponent."""
    return complex(R.tn_value(arrs, (), exponent))


def abs_value(arrs):
    return float(np.real(R.tn_value([(np.abs(a), l) for a, l in arrs], ())))


def normalized(x):
    x = np.asarray(x)
    return x / np.sum(x)


def index_marginal(arrs, ix):
    return normalized(R.tn_value(arrs, (ix,)))


def tensor_marginal(arrs, labels):
    return normalized(R.tn_value(arrs, tuple(labels)))


def label_map(arrs):
    m = {}
    for t, (_, labels) in enumerate(arrs):
        for l in labels:
            m.setdefault(l, []).append(t)
    return m


def is_acyclic(arrs):
    """The bipartite incidence graph (tensors + labels) is a forest."""
    lm = label_map(arrs)
    nodes = len(arrs) + len(lm)
    edges = sum(len(v) for v in lm.values())
    # count components by union-find
    par = list(range(nodes))

    def find(x):
        while par[x] != x:
            par[x] = par[par[x]]
            x = par[x]
        return x

    for k, (l, ts) in enumerate(lm.items()):
        for t in ts:
            a, b = find(t), find(len(arrs) + k)
            if a == b:
                return False
            par[a] = b
    comps = len({find(x) for x in range(nodes)})
    return edges == nodes - comps


def exact_messages_into(arrs, ix):
    """Exact (unnormalised) tensor->label messages for label ix: for every
    tensor t holding ix, the contraction of the part of the network that hangs
    behind t when ix is cut (acyclic networks only)."""
    lm = label_map(arrs)
    out = {}
    for t in lm[ix]:
        # collect the component of t in the network with label ix removed
        comp = {t}
        stack = [t]
        while stack:
            u = stack.pop()
            for l in arrs[u][1]:
                if l == ix:
                    continue
                for v in lm[l]:
                    if v not in comp:
                        comp.add(v)
                        stack.append(v)
        out[t] = R.tn_value([arrs[u] for u in sorted(comp)], (ix,))
    return out


def message_margin(arrs):
    """Smallest |entry| / largest |entry| over all exact messages into labels
    that are not plain bonds (hyper labels and dangling labels): the hyper
    flavours divide by these (plus a 1e-12 smudge)."""
    lm = label_map(arrs)
    worst = 1.0
    for ix, ts in lm.items():
        if len(ts) == 2:
            continue
        for m in exact_messages_into(arrs, ix).values():
            a = np.abs(m)
            mx = float(a.max())
            if mx == 0.0:
                return 0.0
            worst = min(worst, float(a.min()) / mx)
    return worst


# --------------------------------------------------------------------------- #
#                                2-norm quantities                            #
# --------------------------------------------------------------------------- #


def dense(arrs, outs, exponent=0.0):
    return np.asarray(R.tn_value(arrs, tuple(outs), exponent))


def norm2(psi):
    return float(np.sum(np.abs(psi) ** 2))


def phys_marginal(psi, axis):
    p = np.abs(psi) ** 2
    p = p.sum(axis=tuple(j for j in range(psi.ndim) if j != axis))
    return p / p.sum()


def rdm(psi, where):
    """Normalised reduced density matrix of the pure state psi (one axis per
    physical label) on the axes ``where`` in the ORDER given: rows = ket."""
    n = psi.ndim
    where = list(where)
    rows = list(range(n))
    cols = [n + i if i in where else i for i in range(n)]
    out = [rows[i] for i in where] + [cols[i] for i in where]
    r = np.einsum(psi, rows, psi.conj(), cols, out)
    d = int(np.prod([psi.shape[i] for i in where]))
    r = r.reshape(d, d)
    return r / np.trace(r)


# --------------------------------------------------------------------------- #
#                                region counting                              #
# --------------------------------------------------------------------------- #


def intersection_closure(fam):
    regs = {frozenset(r) for r in fam}
    changed = True
    while changed:
        changed = False
        for a, b in itertools.combinations(list(regs), 2):
            c = a & b
            if c and c not in regs:
                regs.add(c)
                changed = True
    return regs


def region_counts(fam):
    """Inclusion-exclusion (Moebius) counting numbers on the closure of the
    family under non-empty intersection: c(r) = 1 - sum of c(a) over every
    a in the closure strictly containing r."""
    cnt = {}
    for r in sorted(intersection_closure(fam), key=lambda s: (-len(s), sorted(s))):
        cnt[r] = 1 - sum(c for a, c in cnt.items() if r < a)
    return cnt


def node_totals(counts):
    tot = {}
    for r, c in counts.items():
        for x in r:
            tot[x] = tot.get(x, 0) + c
    return tot


def region_structure(fam):
    """Structural facts of a generating family used for root-cause
    signatures (never the observed counts)."""
    fam = [frozenset(r) for r in fam]
    core = frozenset.intersection(*fam) if fam else frozenset()
    pair = {a & b for a, b in itertools.combinations(fam, 2) if a & b}
    closure = intersection_closure(fam)
    nested = bool(closure - set(fam) - pair)
    core_only = bool(core) and core not in fam and any((a & b) == core for a, b in itertools.combinations(fam, 2))
    return {"core": bool(core), "core_only_pair": core_only, "nested": nested}

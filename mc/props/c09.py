"""C09 - MPS/MPO arithmetic and 1D compression = dense linear algebra.

TableExplorer (DESIGN.md section 3, C09).  Every table is a complete,
deterministic enumeration of a stated finite space evaluated on the REAL quimb
routines; the oracle is plain numpy: the harness builds the site arrays itself
(``alphabet.fill``), contracts them with ``_ref_chain`` (tensordot chain, no
quimb) and compares with what quimb computes from the same arrays.

Tables (one ``table.run`` each, own counters in the evidence):

  build     constructors and round trips: ``MatrixProductState`` /
            ``MatrixProductOperator`` for EVERY ``shape`` string, ``sites=``/
            ``L=`` subsets, ``from_dense`` (MPS), ``from_fill_fn`` (requested
            shapes + denotation, ``sites`` subsets, cycled ``phys_dim``),
            ``from_product`` and every named generator of tensor_builder
            4166-4837 against hand-written dense vectors / matrices
  arith     + - * / neg (and in-place forms), add_MPS/add_MPO (with and
            without compression), tensor_network_ag_sum, MPO.apply on MPS and
            MPO (contract on/off, compress), tensor_network_apply_op_vec /
            op_op for every which_A x which_B, align, overlaps, norm,
            normalize (every insert site, with bra), expec_TN_1D (2/3/4
            layers, compress flag), trace, partial_transpose (every subset),
            flip, permute_arrays (every shape string), .H
  ptr       partial_trace_to_mpo for EVERY keep subset x rescale_sites,
            slices, bipartite_schmidt_state for every cut x get
  submpo    MatrixProductOperator.from_dense on EVERY ordered site subset x
            L given / inferred, sub-MPO trace / apply (lower, upper) on MPS and
            MPO, fill_empty_sites (mode x phys_dim x fill_array) against
            ``ref.embed``
  compress  every key of ``_TN1D_COMPRESS_METHODS`` x sweep_reverse x
            canonize x input kind (inflated / zero padded MPS, MPO.MPS stack,
            sum, three layers, MPO.MPO stack, single site) x settings
            (max_bond=None cutoff=0 | cutoff only | roomy cap | exact cap |
            every cap k < rank): lossless settings reproduce the input, the
            cap is never exceeded, the promised canonical centre is verified
            by isometry, ``direct`` obeys the root-sum-square bound computed
            from the Schmidt spectra of the dense input
  copts     method x {normalize, equalize_norms, inplace, permute_arrays,
            site_tags} on one shape
  fitopts   fit / fit-zipup / fit-projector x max_iterations {1,2,3} and early
            stopping tol x sweep_sequence {R,L,RL,LR} x bsz x sweep_reverse x
            normalize: cap, canonical centre at the end named by the LAST sweep
            performed, unit norm with normalize=True
  sweeps    left_compress / right_compress / compress(form) for every form on
            MPS and MPO, open (lossless / cap / canonical centre / error bound)
            and periodic (lossless / cap)
  gate      gate_with_mpo, mps_gate_with_mpo_* and gate_with_submpo /
            gate_nonlocal for every method x site subset x transpose x
            sweep_reverse; the ``info['cur_orthog']`` record they hand back is
            verified by an isometry scan and by running schmidt_values /
            bipartite_schmidt_state through the same record (all methods but
            'fit': open finding C08-submpo-fit-record)

Harness-side seams (no repository change): cotengra is told that our pool
workers are worker processes so that its 'auto' path optimiser does not spawn
a process pool of its own inside them (see ``_qtn``); an exception escaping a
cell (e.g. while building inputs with the constructors) is reported as a
violation of that cell (``_guarded``), not as a harness error.

Conventions established on the real code (not defects):
  * ``tn.H`` conjugates only (no upper/lower swap): dense(A.H) = conj(A).
  * ``apply_op_op(which_A, which_B)``: (lower, upper) = A B, (lower, lower) =
    B A^T, (upper, upper) = A^T B, (upper, lower) = B A - the result always
    carries B's upper/lower labels.
  * cyclic networks need L >= 3 (L = 2 has a double bond, L = 1 a self loop;
    quimb's own comment marks the latter as unsettled) - excluded.
  * ``normalize`` returns the old squared norm <psi|psi>.
  * ``src``, ``srcmps``, ``fit*`` and the ``*-oversample`` / ``*-first``
    methods need ``max_bond``: their ``ValueError`` (``srcmps``: a
    ``TypeError`` from ``range(None)``) for ``max_bond=None`` is a documented
    rejection.  ``sdc`` is deterministic and takes no ``seed``.
  * the fit methods run their default 10 sweeps (``tol=0``): the last sweep
    of the default ``sweep_sequence='RL'`` is 'L', so the centre ends at
    ``site_tags[0]`` (``site_tags[-1]`` with ``sweep_reverse``).
  * ``MPO_identity(1)`` raises a deliberate ``ValueError`` (rejection).
"""

from __future__ import annotations

import itertools
import sys

import numpy as np

from .. import core, table, ref
from ..alphabet import fill

RTOL = 1e-9
LOSSLESS_TOL = 1e-7  # relative 2-norm error allowed for "nothing to truncate"
FIT_TOL = 1e-6
ISO_TOL = 1e-8
SINGLE = ("float32", "complex64")

_Q = {}


def _qtn():
    """Import quimb lazily (workers).  cotengra's 'auto' presets create a
    process pool for their hyper-optimiser as soon as a contraction has more
    than a handful of tensors (4-layer expectation values at L >= 4); inside
    our pool workers that means grand-children that are never shut down (the
    worker then blocks in multiprocessing's exit handler and the runner hangs
    at exit).  cotengra has a switch for exactly this situation ("worker
    subprocesses should not auto-create pools"): mark the process as a
    worker.  Only the path search is affected, not what is contracted."""
    if "qtn" not in _Q:
        import quimb.tensor as qtn

        try:
            import cotengra.parallel as _cp

            _cp._IS_WORKER = True
        except Exception:  # pragma: no cover - best effort
            pass
        _Q["qtn"] = qtn
    return _Q["qtn"]


# --------------------------------------------------------------------------- #
#                         numpy reference (no quimb)                          #
# --------------------------------------------------------------------------- #


def _tl(x):
    if isinstance(x, (list, tuple)):
        return [_tl(v) for v in x]
    return x


def _tt(x):
    if isinstance(x, (list, tuple)):
        return tuple(_tt(v) for v in x)
    return x


def _prod(xs):
    p = 1
    for x in xs:
        p *= int(x)
    return p


def _phys(physk, L):
    if physk == "u2":
        return (2,) * L
    if physk == "u3":
        return (3,) * L
    if physk == "s":  # site dependent
        return (2, 3, 2, 3, 2, 3)[:L]
    if physk == "s2":
        return (3, 2, 2, 3, 2, 2)[:L]
    raise KeyError(physk)


def _bond_dims(bk, L, cyclic):
    nb = L if cyclic else L - 1
    if isinstance(bk, int):
        return [bk] * nb
    if bk == "var":  # site dependent bond dimensions
        return [(2, 3, 1, 3, 2, 2)[i] for i in range(nb)]
    raise KeyError(bk)


def _site_shapes(L, bonds, cyclic):
    """[(Dl or None, Dr or None)] per site."""
    out = []
    for i in range(L):
        dl = dr = None
        if cyclic:
            dl = bonds[(i - 1) % L]
            dr = bonds[i]
        else:
            if i > 0:
                dl = bonds[i - 1]
            if i < L - 1:
                dr = bonds[i]
        out.append((dl, dr))
    return out


def _rt(dtype):
    return 5e-4 if str(dtype) in SINGLE else RTOL


def _mps_arrays(L, phys, bk, cyclic, dtype, key):
    """site arrays in canonical 'lrp' layout (ends drop the missing bond)."""
    bonds = _bond_dims(bk, L, cyclic)
    arrs = []
    for i, (dl, dr) in enumerate(_site_shapes(L, bonds, cyclic)):
        shp = [d for d in (dl, dr) if d is not None] + [phys[i]]
        arrs.append(fill("generic", shp, dtype, key=("c09", "mps") + tuple(key) + (i,)))
    return arrs


def _mpo_arrays(L, phys, bk, cyclic, dtype, key):
    """site arrays in canonical 'lrud' layout."""
    bonds = _bond_dims(bk, L, cyclic)
    arrs = []
    for i, (dl, dr) in enumerate(_site_shapes(L, bonds, cyclic)):
        shp = [d for d in (dl, dr) if d is not None] + [phys[i], phys[i]]
        arrs.append(fill("generic", shp, dtype, key=("c09", "mpo") + tuple(key) + (i,)))
    return arrs


def _ref_chain(arrs, cyclic):
    """Contract a chain of site arrays (layout l, r, phys...) with plain
    tensordot; returns the tensor over all physical axes in site order."""
    L = len(arrs)
    ts = []
    for i, a in enumerate(arrs):
        a = np.asarray(a)
        if not cyclic:
            if L == 1:
                a = a.reshape((1, 1) + a.shape)
            elif i == 0:
                a = a.reshape((1,) + a.shape)
            elif i == L - 1:
                a = a.reshape((a.shape[0], 1) + a.shape[1:])
        ts.append(a)
    cur = ts[0]
    for t in ts[1:]:
        cur = np.tensordot(cur, t, axes=([1], [0]))
        ridx = cur.ndim - t.ndim + 1
        cur = np.moveaxis(cur, ridx, 1)
    return np.trace(cur, axis1=0, axis2=1)


def _ref_vec(arrs, cyclic):
    return _ref_chain(arrs, cyclic).reshape(-1)


def _ref_op(arrs, cyclic):
    t = _ref_chain(arrs, cyclic)  # axes u0 d0 u1 d1 ...
    L = len(arrs)
    perm = list(range(0, 2 * L, 2)) + list(range(1, 2 * L, 2))
    t = t.transpose(perm)
    D = _prod(t.shape[:L])
    return t.reshape(D, D)


def _relayout(a, has_l, has_r, canon, shape):
    """array in canonical axis order ``canon`` (e.g. 'lrp') restricted to the
    bonds that exist -> axis order given by ``shape`` restricted likewise."""
    have = [c for c in canon if not ((c == "l" and not has_l) or (c == "r" and not has_r))]
    want = [c for c in shape if c in have]
    return np.transpose(a, [have.index(c) for c in want])


def _inflate(arrs, R, dtype, key, nphys=1):
    """open-boundary chain with every bond r_i re-expressed in dimension R via
    random isometries V_i (R x r_i, V^H V = 1): same denotation, exact rank
    r_i stored in bond R, no zero blocks."""
    L = len(arrs)
    out = []
    Vs = {}
    for i in range(L - 1):
        r = np.asarray(arrs[i]).shape[1 if i > 0 else 0]
        Vs[i] = fill("isometry", (R, r), dtype, key=("c09", "infl") + tuple(key) + (i,))
    for i, a in enumerate(arrs):
        a = np.asarray(a)
        if i > 0:
            a = np.tensordot(Vs[i - 1].conj(), a, axes=([1], [0]))
        if i < L - 1:
            ax = 1 if i > 0 else 0
            a = np.moveaxis(np.tensordot(a, Vs[i], axes=([ax], [1])), -1, ax)
        out.append(a)
    return out


def _zeropad(arrs, R):
    L = len(arrs)
    out = []
    for i, a in enumerate(arrs):
        a = np.asarray(a)
        pads = [(0, 0)] * a.ndim
        ax = 0
        if i > 0:
            pads[ax] = (0, R - a.shape[ax])
            ax += 1
        if i < L - 1:
            pads[ax] = (0, R - a.shape[ax])
        out.append(np.pad(a, pads))
    return out


def _schmidt(v, dims):
    """singular value lists for every cut of a vector over ``dims``."""
    out = []
    v = np.asarray(v).reshape(-1)
    for c in range(1, len(dims)):
        m = v.reshape(_prod(dims[:c]), -1)
        out.append(np.linalg.svd(m, compute_uv=False))
    return out


def _op_as_vec(M, phys):
    """operator (rows u0..uL-1, cols d0..dL-1) -> vector over sites with
    combined (u_i, d_i) physical index."""
    L = len(phys)
    t = np.asarray(M).reshape(tuple(phys) + tuple(phys))
    perm = []
    for i in range(L):
        perm += [i, L + i]
    return t.transpose(perm).reshape(-1)


# --------------------------------------------------------------------------- #
#                               result helpers                                #
# --------------------------------------------------------------------------- #


class _Res(list):
    def __init__(self, cell):
        super().__init__()
        self.cell = cell

    def ok(self, sub, nontrivial=True, outcome=None):
        self.append(table.ok(key=(self.cell, sub), nontrivial=nontrivial, outcome=outcome, sub=sub))

    def rej(self, sub, what):
        self.append(table.rejected(what, sub=sub))

    def bad(self, sub, msg, **sig):
        self.append(table.bad(core.problem("%s [cell=%r sub=%r]" % (msg, self.cell, sub), **sig), sub=sub))


def _exc_name(ex):
    return type(ex).__name__


def _dv(x):
    return np.asarray(x.to_dense()).reshape(-1)


def _dm(x):
    return np.asarray(x.to_dense())


def _value(R, sub, entry, fn, exp, rtol=RTOL, nontrivial=True, outcome=None, scale=0.0, **sig):
    """run fn(), compare with exp (numpy); record one result.  ``scale`` is
    the magnitude of the operands when the expected result is (close to) zero
    by cancellation."""
    try:
        got = fn()
    except Exception as ex:  # "must work" policy: any exception is a violation
        R.bad(sub, "%s raised %s: %s" % (entry, _exc_name(ex), str(ex)[:200]), entry=entry, check="crash", exc=_exc_name(ex), **sig)
        return False
    got = np.asarray(got)
    exp = np.asarray(exp)
    if got.shape != exp.shape and got.size == exp.size:
        got = got.reshape(exp.shape)
    if not ref.close(got, exp, rtol=rtol, atol=1e-13 + rtol * float(scale)):
        R.bad(sub, "%s: result differs from the dense reference (rel err %.3g, shapes %s vs %s)" % (entry, ref.relerr(got, exp), got.shape, exp.shape), entry=entry, check="value", **sig)
        return False
    R.ok(sub, nontrivial=nontrivial, outcome=outcome)
    return True


# --------------------------------------------------------------------------- #
#                                table: build                                 #
# --------------------------------------------------------------------------- #


def _perms(s):
    return ["".join(p) for p in itertools.permutations(s)]


def _basis(bits, d=2):
    v = np.zeros(d ** len(bits))
    idx = 0
    for b in bits:
        idx = idx * d + int(b)
    v[idx] = 1.0
    return v


def cell_build(cell, common):
    cell = _tt(cell)
    qtn = _qtn()
    R = _Res(cell)
    kind = cell[0]

    if kind in ("mps_ctor", "mpo_ctor"):
        _, L, physk, cyclic, bk, dtype = cell
        phys = _phys(physk, L)
        isop = kind == "mpo_ctor"
        canon = "lrud" if isop else "lrp"
        arrs = (_mpo_arrays if isop else _mps_arrays)(L, phys, bk, cyclic, dtype, ("ctor",))
        exp = _ref_op(arrs, cyclic) if isop else _ref_vec(arrs, cyclic)
        cls = qtn.MatrixProductOperator if isop else qtn.MatrixProductState
        entry = cls.__name__
        for shp in _perms(canon):
            given = [_relayout(a, cyclic or (i > 0 and L > 1), cyclic or (i < L - 1 and L > 1), canon, shp) for i, a in enumerate(arrs)]

            def f():
                tn = cls(given, shape=shp)
                if tn.L != L or bool(tn.cyclic) != bool(cyclic) or tn.num_tensors != L:
                    raise AssertionError("L/cyclic/num_tensors = %r/%r/%r" % (tn.L, tn.cyclic, tn.num_tensors))
                return _dm(tn) if isop else _dv(tn)

            _value(R, "shape=" + shp, entry, f, exp, _rt(dtype), nontrivial=(L > 1))
        return R

    if kind in ("mps_sites", "mpo_sites"):
        # constructor on an ascending subset of sites of a longer chain
        _, Lt, sites, passL, dtype = cell
        isop = kind == "mpo_sites"
        n = len(sites)
        phys = (2,) * n
        arrs = (_mpo_arrays if isop else _mps_arrays)(n, phys, 2, False, dtype, ("sites",))
        exp = _ref_op(arrs, False) if isop else _ref_vec(arrs, False)
        cls = qtn.MatrixProductOperator if isop else qtn.MatrixProductState
        entry = cls.__name__
        wantL = Lt if passL else max(sites) + 1
        try:
            kw = {"sites": list(sites)}
            if passL:
                kw["L"] = Lt
            tn = cls(arrs, **kw)
            got = _dm(tn) if isop else _dv(tn)
            present = tuple(tn.gen_sites_present())
        except Exception as ex:
            R.bad("ctor", "%s(sites=%r) raised %s: %s" % (entry, sites, _exc_name(ex), str(ex)[:200]), entry=entry, check="crash", exc=_exc_name(ex), root="sites-subset")
            return R
        if tn.L != wantL or present != tuple(sites):
            R.bad("L", "%s(arrays, sites=%r, L=%r): .L = %r (documented: %r), sites present %r" % (entry, sites, Lt if passL else None, tn.L, wantL, present), entry=entry, check="L", root="sites-subset")
        else:
            R.ok("L")
        if not ref.close(got.reshape(exp.shape) if got.size == exp.size else got, exp, rtol=_rt(dtype)):
            R.bad("value", "%s(sites=%r): dense differs" % (entry, sites), entry=entry, check="value", root="sites-subset")
        else:
            R.ok("value")
        return R

    if kind == "mps_from_dense":
        _, L, physk, dtype, datak, dimsk = cell
        phys = _phys(physk, L)
        D = _prod(phys)
        if datak == "generic":
            v = fill("generic", (D,), dtype, key=("c09", "fd", L, physk))
        elif datak == "rank1":
            v = fill("rank1", phys, dtype, key=("c09", "fd1", L, physk)).reshape(-1)
        else:  # mps of bond 2
            v = _ref_vec(_mps_arrays(L, phys, 2, False, dtype, ("fd2",)), False)
        shp = {"flat": (D,), "ket": (D, 1), "tensor": tuple(phys)}[dimsk]
        dims = phys[0] if (physk.startswith("u") and dimsk == "flat") else list(phys)
        if str(dtype) not in SINGLE and not _default_cutoff_safe(_schmidt(v, phys)):
            # (single precision: anything the default cutoff drops is far below the 5e-4 tolerance)
            R.rej("roundtrip", "harness:singular-value-near-default-cutoff")
            return R

        def f():
            m = qtn.MatrixProductState.from_dense(v.reshape(shp), dims)
            if m.L != L or m.num_tensors != L:
                raise AssertionError("L = %r" % (m.L,))
            for c in range(L - 1):
                cap = min(_prod(phys[: c + 1]), _prod(phys[c + 1 :]))
                if m.bond_size(c, c + 1) > cap:
                    raise AssertionError("bond %d larger than the exact rank bound" % c)
                if datak == "rank1" and m.bond_size(c, c + 1) != 1:
                    raise AssertionError("product state got bond %d" % m.bond_size(c, c + 1))
            return _dv(m)

        _value(R, "roundtrip", "MatrixProductState.from_dense", f, v, max(_rt(dtype), 1e-8), nontrivial=(L > 1))
        return R

    if kind in ("mps_fill_fn", "mpo_fill_fn"):
        _, L, sites, bond, physspec, cyclic, dtype = cell
        isop = kind == "mpo_fill_fn"
        canon = "lrud" if isop else "lrp"
        cls = qtn.MatrixProductOperator if isop else qtn.MatrixProductState
        entry = cls.__name__ + ".from_fill_fn"
        present = list(range(L)) if sites is None else list(sites)
        n = len(present)
        if isinstance(physspec, int):
            pd = [physspec] * n
        else:
            pd = [physspec[i % len(physspec)] for i in range(n)]
        root = "sites-subset" if (sites is not None and n < L) else "all-sites"
        for shp in _perms(canon):
            rec = []

            def ff(shape, _rec=rec, _shp=shp):
                shape = tuple(int(s) for s in shape)
                _rec.append(shape)
                return fill("generic", shape, dtype, key=("c09", "ff", _shp, len(_rec)))

            sub = "shape=" + shp
            try:
                kw = dict(L=L, bond_dim=bond, phys_dim=physspec if isinstance(physspec, int) else list(physspec), cyclic=cyclic, shape=shp)
                if sites is not None:
                    kw["sites"] = list(sites)
                tn = cls.from_fill_fn(ff, **kw)
            except Exception as ex:
                R.bad(sub, "%s raised %s: %s" % (entry, _exc_name(ex), str(ex)[:200]), entry=entry, check="crash", exc=_exc_name(ex), root=root)
                continue
            # expected request per present site
            want = []
            for i in range(n):
                has_l = cyclic or i > 0
                has_r = cyclic or i < n - 1
                s = []
                for c in shp:
                    if c == "l" and has_l:
                        s.append(bond)
                    elif c == "r" and has_r:
                        s.append(bond)
                    elif c in "pud":
                        s.append(pd[i])
                want.append(tuple(s))
            if rec != want:
                R.bad(sub, "%s asked fill_fn for shapes %r, documented layout gives %r" % (entry, rec, want), entry=entry, check="requested-shapes", root=root)
                continue
            # denotation from the arrays we handed out
            arrs = []
            for i in range(n):
                a = fill("generic", want[i], dtype, key=("c09", "ff", shp, i + 1))
                has_l = cyclic or i > 0
                has_r = cyclic or i < n - 1
                have = [c for c in shp if not ((c == "l" and not has_l) or (c == "r" and not has_r))]
                tgt = [c for c in canon if c in have]
                arrs.append(np.transpose(a, [have.index(c) for c in tgt]))
            exp = _ref_op(arrs, cyclic) if isop else _ref_vec(arrs, cyclic)
            try:
                if tn.L != L or tuple(tn.gen_sites_present()) != tuple(present) or bool(tn.cyclic) != bool(cyclic):
                    raise AssertionError("L=%r present=%r cyclic=%r" % (tn.L, tuple(tn.gen_sites_present()), tn.cyclic))
                nouter = len(tn.outer_inds())
                if nouter != (2 if isop else 1) * n:
                    raise AssertionError("%d outer indices for %d sites" % (nouter, n))
                got = _dm(tn) if isop else _dv(tn)
            except Exception as ex:
                R.bad(sub, "%s: structure of the result is wrong: %s: %s" % (entry, _exc_name(ex), str(ex)[:200]), entry=entry, check="structure", root=root)
                continue
            if got.size == exp.size:
                got = got.reshape(exp.shape)
            if not ref.close(got, exp, rtol=_rt(dtype)):
                R.bad(sub, "%s: dense differs from the chain of the filled arrays (rel err %.3g)" % (entry, ref.relerr(got, exp)), entry=entry, check="value", root=root)
            else:
                R.ok(sub, nontrivial=n > 1)
        return R

    if kind == "from_product":
        _, L, physk, cyclic, dtype = cell
        phys = _phys(physk, L)
        vs = [fill("generic", (p,), dtype, key=("c09", "prod", i)) for i, p in enumerate(phys)]
        exp = ref.kron(*[v.reshape(-1, 1) for v in vs]).reshape(-1)

        def f():
            m = qtn.MatrixProductState.from_product(vs, cyclic=cyclic)
            if m.L != L or bool(m.cyclic) != bool(cyclic) or (L > 1 and m.max_bond() != 1):
                raise AssertionError("L/cyclic/max_bond")
            return _dv(m)

        _value(R, "from_product", "MatrixProductState.from_product", f, exp, _rt(dtype))

        def g():
            m = qtn.MPS_product_state(vs, cyclic=cyclic)
            if m.L != L or bool(m.cyclic) != bool(cyclic):
                raise AssertionError("L/cyclic")
            return _dv(m)

        _value(R, "MPS_product_state", "MPS_product_state", g, exp, _rt(dtype))
        ops = [fill("generic", (p, p), dtype, key=("c09", "prodop", i)) for i, p in enumerate(phys)]

        def h():
            m = qtn.MPO_product_operator(ops, cyclic=cyclic)
            if m.L != L or bool(m.cyclic) != bool(cyclic) or (L > 1 and m.max_bond() != 1):
                raise AssertionError("L/cyclic/max_bond")
            return _dm(m)

        _value(R, "MPO_product_operator", "MPO_product_operator", h, ref.kron(*ops), _rt(dtype))
        return R

    if kind == "gen":
        return _cell_gen(cell, R)

    raise KeyError(kind)


def _cell_gen(cell, R):
    qtn = _qtn()
    _, name, L, dtype, cyclic = cell
    rt = max(_rt(dtype), 1e-9)

    def chk(m, exp, isop=False, want_cyclic=None, wantL=None):
        wantL = L if wantL is None else wantL
        if m.L != wantL:
            raise AssertionError("L = %r, expected %r" % (m.L, wantL))
        if str(m.dtype) != str(np.dtype(dtype)):
            raise AssertionError("dtype %s" % m.dtype)
        if want_cyclic is not None and bool(m.cyclic) != bool(want_cyclic):
            raise AssertionError("cyclic flag %r" % m.cyclic)
        return _dm(m) if isop else _dv(m)

    if name == "ghz":
        exp = (_basis([0] * L) + _basis([1] * L)) / 2**0.5
        _value(R, "ghz", "MPS_ghz_state", lambda: chk(qtn.MPS_ghz_state(L, dtype=dtype), exp), exp, rt)
    elif name == "w":
        exp = sum(_basis([1 if j == i else 0 for j in range(L)]) for i in range(L)) / L**0.5
        _value(R, "w", "MPS_w_state", lambda: chk(qtn.MPS_w_state(L, dtype=dtype), exp), exp, rt, root="L=1" if L == 1 else "L>1")
    elif name == "neel":
        for df in (False, True):
            exp = _basis([(i + df) % 2 for i in range(L)])
            _value(R, "down_first=%d" % df, "MPS_neel_state", lambda: chk(qtn.MPS_neel_state(L, down_first=df, dtype=dtype), exp), exp, rt)
    elif name == "computational":
        vm = {"0": [1, 0], "1": [0, 1], "+": [2**-0.5, 2**-0.5], "-": [2**-0.5, -(2**-0.5)]}
        strings = list(itertools.product("01+-", repeat=L)) if L <= 3 else [tuple("01+-"[(i + s) % 4] for i in range(L)) for s in range(4)]
        for bits in strings:
            exp = ref.kron(*[np.array(vm[b]).reshape(2, 1) for b in bits]).reshape(-1)
            for form in ("str", "list"):
                if form == "list" and any(b in "+-" for b in bits):
                    continue
                arg = "".join(bits) if form == "str" else [int(b) for b in bits]
                _value(R, "%s:%s" % (form, "".join(bits)), "MPS_computational_state", lambda: chk(qtn.MPS_computational_state(arg, dtype=dtype, cyclic=cyclic), exp, want_cyclic=cyclic), exp, rt)
    elif name == "rand_computational":
        def f():
            m = qtn.MPS_rand_computational_state(L, dtype=dtype, seed=5)
            v = np.abs(chk(m, None))
            m2 = qtn.MPS_rand_computational_state(L, dtype=dtype, seed=5)
            if not np.array_equal(np.abs(_dv(m2)), v):
                raise AssertionError("same seed, different state")
            return np.array([float(v.max()), float(v.sum()), float(v.size)])

        _value(R, "rand_computational", "MPS_rand_computational_state", f, np.array([1.0, 1.0, 2.0**L]), rt)
    elif name == "zero":
        for bd in (1, 2, 3):
            for pd in (2, 3):
                def f():
                    m = qtn.MPS_zero_state(L, bond_dim=bd, phys_dim=pd, cyclic=cyclic, dtype=dtype)
                    if L > 1 and m.max_bond() != bd:
                        raise AssertionError("bond")
                    return chk(m, None, want_cyclic=cyclic)

                _value(R, "bd=%d,pd=%d" % (bd, pd), "MPS_zero_state", f, np.zeros(pd**L), rt, nontrivial=False)
    elif name == "copy":
        for pd in (2, 3):
            exp = sum(_basis([k] * L, pd) for k in range(pd))
            _value(R, "pd=%d" % pd, "MPS_COPY", lambda: chk(qtn.MPS_COPY(L, phys_dim=pd, dtype=dtype), exp), exp, rt)
    elif name == "sampler":
        def f():
            import quimb

            quimb.seed_rand(7)
            m = qtn.MPS_sampler(L, dtype=dtype)
            v = _dv(m)
            return np.array([float(np.vdot(v, v).real), float(np.max(np.abs(np.abs(v) - 1.0)))])

        _value(R, "sampler", "MPS_sampler", f, np.array([2.0**L, 0.0]), 1e-6)
    elif name == "rand_state":
        for bd in (1, 2, 3):
            for pd in (2, 3):
                for nrm in (True, False, "left", "right"):
                    if cyclic and nrm in ("left", "right"):
                        continue

                    def f():
                        m = qtn.MPS_rand_state(L, bd, phys_dim=pd, cyclic=cyclic, dtype=dtype, normalize=nrm, seed=11)
                        v = chk(m, None, want_cyclic=cyclic)
                        if v.size != pd**L or (L > 1 and m.max_bond() > bd):
                            raise AssertionError("size/bond")
                        m2 = qtn.MPS_rand_state(L, bd, phys_dim=pd, cyclic=cyclic, dtype=dtype, normalize=nrm, seed=11)
                        if not np.array_equal(_dv(m2), v):
                            raise AssertionError("same seed, different state")
                        return np.array(float(np.linalg.norm(v))) if nrm else np.array(1.0)

                    _value(R, "bd=%d,pd=%d,norm=%s" % (bd, pd, nrm), "MPS_rand_state", f, np.array(1.0), max(rt, 1e-8))
    elif name == "identity":
        for pd in (2, 3):
            sub = "pd=%d" % pd
            try:
                m = qtn.MPO_identity(L, phys_dim=pd, dtype=dtype, cyclic=cyclic)
            except ValueError as ex:
                if L == 1 and not isinstance(ex, np.linalg.LinAlgError):
                    R.rej(sub, "MPO_identity:L=1:ValueError")
                    continue
                R.bad(sub, "MPO_identity raised %s" % ex, entry="MPO_identity", check="crash", exc="ValueError")
                continue
            except Exception as ex:
                R.bad(sub, "MPO_identity raised %s: %s" % (_exc_name(ex), ex), entry="MPO_identity", check="crash", exc=_exc_name(ex))
                continue
            _value(R, sub, "MPO_identity", lambda: chk(m, None, True, cyclic), np.eye(pd**L), rt)
            src = qtn.MPO_rand(L, 2, phys_dim=pd, cyclic=cyclic, dtype=dtype, seed=2)
            _value(R, sub + ",like", "MPO_identity_like", lambda: chk(qtn.MPO_identity_like(src), None, True, cyclic), np.eye(pd**L), rt)
            _value(R, sub + ",identity()", "MPO.identity", lambda: chk(src.identity(), None, True, cyclic), np.eye(pd**L), rt)
    elif name == "identity_sites":
        # L here is the total length; all ascending subsets with >= 2 sites
        for k in range(2, L + 1):
            for sites in itertools.combinations(range(L), k):
                sub = "sites=%s" % (sites,)
                try:
                    m = qtn.MPO_identity(L, sites=sites, dtype=dtype, cyclic=False)
                    got = _dm(m)
                    present = tuple(m.gen_sites_present())
                except Exception as ex:
                    R.bad(sub, "MPO_identity(sites=) raised %s: %s" % (_exc_name(ex), ex), entry="MPO_identity", check="crash", exc=_exc_name(ex), root="sites-given")
                    continue
                if present != sites or not ref.close(got, np.eye(2**k), rtol=rt):
                    R.bad(sub, "MPO_identity(%d, sites=%r): present %r / dense wrong" % (L, sites, present), entry="MPO_identity", check="value", root="sites-given")
                elif m.L != L:
                    R.bad(sub, "MPO_identity(%d, sites=%r).L = %d" % (L, sites, m.L), entry="MPO_identity", check="L", root="sites-given")
                else:
                    R.ok(sub)
    elif name == "zeros":
        for pd in (2, 3):
            _value(R, "pd=%d" % pd, "MPO_zeros", lambda: chk(qtn.MPO_zeros(L, phys_dim=pd, dtype=dtype, cyclic=cyclic), None, True, cyclic), np.zeros((pd**L, pd**L)), rt, nontrivial=False)
            src = qtn.MPO_rand(L, 2, phys_dim=pd, cyclic=cyclic, dtype=dtype, seed=2)
            _value(R, "pd=%d,like" % pd, "MPO_zeros_like", lambda: chk(qtn.MPO_zeros_like(src), None, True, cyclic), np.zeros((pd**L, pd**L)), rt, nontrivial=False)
    elif name == "mpo_rand":
        for bd in (1, 2):
            for pd in (2, 3):
                for herm in (False, True):
                    for nrm in (True, False):
                        def f():
                            if herm and bd == 1:
                                m = qtn.MPO_rand_herm(L, bd, phys_dim=pd, cyclic=cyclic, dtype=dtype, normalize=nrm, seed=4)
                            else:
                                m = qtn.MPO_rand(L, bd, phys_dim=pd, cyclic=cyclic, herm=herm, dtype=dtype, normalize=nrm, seed=4)
                            M = chk(m, None, True, cyclic)
                            if M.shape != (pd**L, pd**L) or (L > 1 and m.max_bond() > bd):
                                raise AssertionError("shape/bond")
                            if herm and not ref.close(M, M.conj().T, rtol=max(rt, 1e-8)):
                                raise AssertionError("herm=True but dense is not Hermitian (rel %.3g)" % ref.relerr(M, M.conj().T))
                            return np.array(float(np.linalg.norm(M))) if nrm else np.array(1.0)

                        _value(R, "bd=%d,pd=%d,herm=%d,norm=%d" % (bd, pd, herm, nrm), "MPO_rand", f, np.array(1.0), max(rt, 1e-8))
    elif name == "rand_like":
        # MPO.rand_state: a random vector matching the operator
        for pdk in ("u2", "s"):
            phys = _phys(pdk, L)
            A = qtn.MatrixProductOperator(_mpo_arrays(L, phys, 2, cyclic, dtype, ("rl",)))

            def f():
                p = A.rand_state(2, seed=9)
                if p.L != L or tuple(p.phys_dim(i) for i in range(L)) != tuple(phys) or bool(p.cyclic) != bool(cyclic):
                    raise AssertionError("structure of rand_state: phys dims %r" % (tuple(p.phys_dim(i) for i in range(L)),))
                return np.array(float(np.linalg.norm(_dv(A.apply(p))) > 0.0))

            _value(R, "phys=" + pdk, "MPO.rand_state", f, np.array(1.0), rt)
    else:
        raise KeyError(name)
    return R


def _cells_build(tier):
    quick = tier == "quick"
    Ls = (1, 2, 3, 4) if quick else (1, 2, 3, 4, 5)
    dts = ("float64", "complex128") if quick else ("float64", "complex128", "float32", "complex64")
    physks = ("u2", "s") if quick else ("u2", "u3", "s")
    cells = []
    for L in Ls:
        for cyc in (False, True):
            if cyc and L < 3:
                continue
            for physk in physks:
                for bk in (1, 2, 3, "var"):
                    for dt in dts:
                        if dt in SINGLE and (bk != 2 or physk != "u2"):
                            continue
                        cells.append(("mps_ctor", L, physk, cyc, bk, dt))
                        cells.append(("mpo_ctor", L, physk, cyc, bk, dt))
                for dt in dts:
                    cells.append(("from_product", L, physk, cyc, dt))
    for Lt in (2, 3, 4) if quick else (2, 3, 4, 5):
        # (a single present site of a longer chain is left out: the constructors
        # decide "no bonds" from L == 1, so its array layout is not documented)
        for k in range(2, Lt + 1):
            for sites in itertools.combinations(range(Lt), k):
                for passL in (True, False):
                    for dt in ("float64", "complex128"):
                        cells.append(("mps_sites", Lt, sites, passL, dt))
                        cells.append(("mpo_sites", Lt, sites, passL, dt))
    for L in Ls:
        for physk in physks:
            for dt in dts:
                for datak in ("generic", "rank1", "mps2"):
                    for dimsk in ("flat", "ket", "tensor"):
                        cells.append(("mps_from_dense", L, physk, dt, datak, dimsk))
    for L in (1, 2, 3, 4) if quick else (1, 2, 3, 4, 5):
        subsets = [None]
        for k in range(1, L):
            subsets += list(itertools.combinations(range(L), k))
        for sites in subsets:
            for cyc in (False, True):
                n = L if sites is None else len(sites)
                if cyc and (n < 3 or sites is not None):
                    continue
                for bond in (1, 2, 3):
                    for physspec in (2, 3, (2, 3)):
                        if sites is not None and (bond != 2 or physspec == 3):
                            continue
                        for dt in ("float64", "complex128"):
                            cells.append(("mps_fill_fn", L, sites, bond, physspec, cyc, dt))
                            cells.append(("mpo_fill_fn", L, sites, bond, physspec, cyc, dt))
    for name in ("ghz", "w", "neel", "copy", "sampler", "rand_computational"):
        for L in Ls:
            for dt in dts:
                if name == "sampler" and not dt.startswith("complex"):
                    continue
                cells.append(("gen", name, L, dt, False))
    for name in ("computational", "zero", "rand_state", "identity", "zeros", "mpo_rand", "rand_like"):
        for L in Ls:
            for cyc in (False, True):
                if cyc and L < 3:
                    continue
                for dt in dts:
                    cells.append(("gen", name, L, dt, cyc))
    for L in (2, 3, 4) if quick else (2, 3, 4, 5):
        cells.append(("gen", "identity_sites", L, "float64", False))
    return cells


# --------------------------------------------------------------------------- #
#                                table: arith                                 #
# --------------------------------------------------------------------------- #


def cell_arith(cell, common):
    cell = _tt(cell)
    qtn = _qtn()
    R = _Res(cell)
    _, L, physk, cyclic, dtype, ba, bb = cell
    phys = _phys(physk, L)
    rt = _rt(dtype)
    cplx = str(dtype).startswith("complex")
    aa = _mps_arrays(L, phys, ba, cyclic, dtype, ("a",))
    ab = _mps_arrays(L, phys, bb, cyclic, dtype, ("b",))
    aA = _mpo_arrays(L, phys, ba, cyclic, dtype, ("A",))
    aB = _mpo_arrays(L, phys, bb, cyclic, dtype, ("B",))
    va, vb = _ref_vec(aa, cyclic), _ref_vec(ab, cyclic)
    MA, MB = _ref_op(aA, cyclic), _ref_op(aB, cyclic)

    def mk():
        return (
            qtn.MatrixProductState(aa),
            qtn.MatrixProductState(ab),
            qtn.MatrixProductOperator(aA),
            qtn.MatrixProductOperator(aB),
        )

    a, b, A, B = mk()
    z = np.array(0.3 - 0.2j if cplx else 0.3, dtype=dtype).item()
    sg = dict(cyclic=bool(cyclic))
    nt = L > 1

    def V(sub, entry, fn, exp, rtol=rt, **kw):
        return _value(R, sub, entry, fn, exp, rtol, nontrivial=nt, **dict(sg, **kw))

    # ---- densification of the inputs themselves (round trip) ------------ #
    V("to_dense:mps", "to_dense", lambda: _dv(a), va)
    V("to_dense:mpo", "to_dense", lambda: _dm(A), MA)
    V("H:mps", "H", lambda: _dv(a.H), va.conj())
    V("H:mpo", "H", lambda: _dm(A.H), MA.conj())

    # ---- sums, differences, scalar multiples ---------------------------- #
    V("add:mps", "__add__", lambda: _dv(a + b), va + vb)
    V("sub:mps", "__sub__", lambda: _dv(a - b), va - vb)
    V("add_MPS", "add_MPS", lambda: _dv(a.add_MPS(b)), va + vb)
    V("ag_sum:mps", "tensor_network_ag_sum", lambda: _dv(qtn.tensor_network_ag_sum(a, b)), va + vb)
    V("ag_sum:mps:negate", "tensor_network_ag_sum", lambda: _dv(qtn.tensor_network_ag_sum(a, b, negate=True)), va - vb)
    V("add:mps:self", "__add__", lambda: _dv(a + a), 2 * va)
    V("sub:mps:self", "__sub__", lambda: _dv(a - a), 0 * va, scale=float(np.max(np.abs(va))))
    V("add:mpo", "__add__", lambda: _dm(A + B), MA + MB)
    V("sub:mpo", "__sub__", lambda: _dm(A - B), MA - MB)
    V("add_MPO", "add_MPO", lambda: _dm(A.add_MPO(B)), MA + MB)
    V("ag_sum:mpo:negate", "tensor_network_ag_sum", lambda: _dm(qtn.tensor_network_ag_sum(A, B, negate=True)), MA - MB)

    def inplace(obj, op, other):
        x = obj.copy()
        if op == "+=":
            x += other
        elif op == "-=":
            x -= other
        elif op == "*=":
            x *= other
        elif op == "/=":
            x /= other
        elif op == "add_":
            x.add_MPS_(other) if hasattr(x, "add_MPS_") else x.add_MPO_(other)
        return x

    V("iadd:mps", "__iadd__", lambda: _dv(inplace(a, "+=", b)), va + vb)
    V("isub:mps", "__isub__", lambda: _dv(inplace(a, "-=", b)), va - vb)
    V("add_MPS_", "add_MPS", lambda: _dv(inplace(a, "add_", b)), va + vb)
    V("iadd:mpo", "__iadd__", lambda: _dm(inplace(A, "+=", B)), MA + MB)
    V("isub:mpo", "__isub__", lambda: _dm(inplace(A, "-=", B)), MA - MB)
    V("add_MPO_", "add_MPO", lambda: _dm(inplace(A, "add_", B)), MA + MB)
    V("mul:mps", "__mul__", lambda: _dv(a * z), va * z)
    V("rmul:mps", "__rmul__", lambda: _dv(z * a), va * z)
    V("div:mps", "__truediv__", lambda: _dv(a / z), va / z)
    V("neg:mps", "__neg__", lambda: _dv(-a), -va)
    V("imul:mps", "__imul__", lambda: _dv(inplace(a, "*=", z)), va * z)
    V("idiv:mps", "__itruediv__", lambda: _dv(inplace(a, "/=", z)), va / z)
    V("mul:mpo", "__mul__", lambda: _dm(A * z), MA * z)
    V("rmul:mpo", "__rmul__", lambda: _dm(z * A), MA * z)
    V("div:mpo", "__truediv__", lambda: _dm(A / z), MA / z)
    V("neg:mpo", "__neg__", lambda: _dm(-A), -MA)
    V("imul:mpo", "__imul__", lambda: _dm(inplace(A, "*=", z)), MA * z)
    V("idiv:mpo", "__itruediv__", lambda: _dm(inplace(A, "/=", z)), MA / z)
    V("lincomb:mps", "__add__", lambda: _dv(z * a - b / 2 + a), z * va - vb / 2 + va)
    if not cyclic and L > 1:
        # sum followed by lossless compression (open chains: canonical sweep)
        V("add_MPS:compress", "add_MPS", lambda: _dv(a.add_MPS(b, compress=True, cutoff=0.0)), va + vb, max(rt, 1e-8), root="compress=True")
        V("add_MPO:compress", "add_MPO", lambda: _dm(A.add_MPO(B, compress=True, cutoff=0.0)), MA + MB, max(rt, 1e-8), root="compress=True")

    # ---- operator on state / operator ----------------------------------- #
    for contract in (True, False):
        c = "contract=%d" % contract
        V("apply:vec:" + c, "apply", lambda: _dv(A.apply(a, contract=contract)), MA @ va)
        V("apply:op:" + c, "apply", lambda: _dm(A.apply(B, contract=contract)), MA @ MB)
        for wA, mat in (("lower", MA), ("upper", MA.T)):
            V("op_vec:%s:%s" % (wA, c), "tensor_network_apply_op_vec", lambda: _dv(qtn.tensor_network_apply_op_vec(A, a, which_A=wA, contract=contract)), mat @ va, which=wA)
        for wA, wB, mat in (
            ("lower", "upper", MA @ MB),
            ("lower", "lower", MB @ MA.T),
            ("upper", "upper", MA.T @ MB),
            ("upper", "lower", MB @ MA),
        ):
            V("op_op:%s:%s:%s" % (wA, wB, c), "tensor_network_apply_op_op", lambda: _dm(qtn.tensor_network_apply_op_op(A, B, which_A=wA, which_B=wB, contract=contract)), mat, which=wA + "/" + wB)
    V("dot:vec", "dot", lambda: _dv(A.dot(a)), MA @ va)

    def apply_inplace():
        A2 = A.copy()
        out = A2.apply_(a)
        return _dv(out)

    V("apply_:vec", "apply", apply_inplace, MA @ va)
    V("apply:vec:inputs-intact", "apply", lambda: (A.apply(a), np.concatenate([_dv(a), _dm(A).reshape(-1)]))[1], np.concatenate([va, MA.reshape(-1)]))
    if not cyclic and L > 1:
        V("apply:vec:compress", "apply", lambda: _dv(A.apply(a, compress=True, cutoff=0.0)), MA @ va, max(rt, 1e-8), root="compress=True")
        V("apply:op:compress", "apply", lambda: _dm(A.apply(B, compress=True, cutoff=0.0)), MA @ MB, max(rt, 1e-8), root="compress=True")
    V("apply:chain", "apply", lambda: _dv(A.apply(B.apply(a))), MA @ (MB @ va))

    # ---- overlaps, norms, expectation values, traces -------------------- #
    V("overlap:H@", "__matmul__", lambda: a.H @ b, np.vdot(va, vb))
    V("overlap:self", "__matmul__", lambda: a.H @ a, np.vdot(va, va))
    V("overlap:mpo", "__matmul__", lambda: A.H @ B, np.vdot(MA, MB))
    V("norm:mps", "norm", lambda: a.norm(), np.linalg.norm(va))
    V("norm:mpo", "norm", lambda: A.norm(), np.linalg.norm(MA))
    # compress=True goes through scipy's interpolative rsvd of a LinearOperator,
    # which (scipy 1.18) raises for complex NON-SQUARE operators - third party;
    # uniform bond dimensions make the replaced section square
    comps = (None, False) + ((True,) if (cyclic and isinstance(ba, int) and isinstance(bb, int)) else ())
    for comp in comps:
        c = "compress=%s" % comp
        tol = rt if comp is not True else max(rt, 1e-8)
        V("expec:2:" + c, "expec_TN_1D", lambda: qtn.expec_TN_1D(a.H, b, compress=comp), np.vdot(va, vb), tol)
        V("expec:3:" + c, "expec_TN_1D", lambda: qtn.expec_TN_1D(a.H, A, b, compress=comp), np.vdot(va, MA @ vb), tol)
        V("expec:4:" + c, "expec_TN_1D", lambda: qtn.expec_TN_1D(a.H, A, B, b, compress=comp), np.vdot(va, MA @ (MB @ vb)), tol)
    V("align:3", "tensor_network_align", lambda: (lambda ts: (ts[0] | ts[1] | ts[2]) ^ all)(qtn.tensor_network_align(a.H, A, b)), np.vdot(va, MA @ vb))
    V("align:method", "align", lambda: (lambda ts: (ts[0] | ts[1] | ts[2] | ts[3]) ^ all)(a.H.align(A, B, b)), np.vdot(va, MA @ (MB @ vb)))
    V("trace", "trace", lambda: A.trace(), np.trace(MA))
    V("trace:product", "trace", lambda: A.apply(B).trace(), np.trace(MA @ MB))

    n2 = np.vdot(va, va).real
    for ins in [None] + list(range(L)):
        def fn():
            x = a.copy()
            old = x.normalize() if ins is None else x.normalize(insert=ins)
            return np.concatenate([_dv(x), [old]])

        V("normalize:insert=%s" % ins, "normalize", fn, np.concatenate([va / n2**0.5, [n2]]), max(rt, 1e-9))

    def fn_bra():
        x = a.copy()
        bra = x.H
        x.normalize(bra=bra)
        return np.concatenate([_dv(x), _dv(bra)])

    V("normalize:bra", "normalize", fn_bra, np.concatenate([va, va.conj()]) / n2**0.5, max(rt, 1e-9))

    # ---- transposes / flips / array order ------------------------------- #
    for k in range(0, L + 1):
        for sysa in itertools.combinations(range(L), k):
            V("partial_transpose:%s" % (sysa,), "partial_transpose", lambda: _dm(A.partial_transpose(list(sysa))), ref.partial_transpose(MA, phys, sysa))
    V("partial_transpose:int", "partial_transpose", lambda: _dm(A.partial_transpose(L - 1)), ref.partial_transpose(MA, phys, [L - 1]))

    def ptin():
        x = A.copy()
        x.partial_transpose_([0])
        return _dm(x)

    V("partial_transpose_", "partial_transpose", ptin, ref.partial_transpose(MA, phys, [0]))

    def flip(inplace):
        def f():
            if inplace:
                x = a.copy()
                x.flip(inplace=True)  # (TensorNetwork.flip_ is a different, index-flipping method)
            else:
                x = a.flip()
            if tuple(x.phys_dim(i) for i in range(L)) != tuple(phys[::-1]):
                raise AssertionError("phys dims after flip %r" % (tuple(x.phys_dim(i) for i in range(L)),))
            return _dv(x)

        return f

    vflip = va.reshape(phys).transpose(list(range(L))[::-1]).reshape(-1)
    V("flip", "flip", flip(False), vflip)
    V("flip:inplace", "flip", flip(True), vflip)

    for shp in _perms("lrp"):
        def f():
            x = a.copy()
            x.permute_arrays(shp)
            arrs = [x[i].data for i in range(L)]
            y = qtn.MatrixProductState(arrs, shape=shp)  # arrays really are in that order
            return np.concatenate([_dv(x), _dv(y)])

        V("permute_arrays:mps:" + shp, "permute_arrays", f, np.concatenate([va, va]))
    for shp in _perms("lrud"):
        def f():
            x = A.copy()
            x.permute_arrays(shp)
            arrs = [x[i].data for i in range(L)]
            y = qtn.MatrixProductOperator(arrs, shape=shp)
            return np.concatenate([_dm(x).reshape(-1), _dm(y).reshape(-1)])

        V("permute_arrays:mpo:" + shp, "permute_arrays", f, np.concatenate([MA.reshape(-1), MA.reshape(-1)]))
    return R


def _cells_arith(tier):
    quick = tier == "quick"
    cells = []
    Ls = (1, 2, 3, 4) if quick else (1, 2, 3, 4, 5)
    for L in Ls:
        for cyc in (False, True):
            if cyc and L < 3:
                continue
            for physk in ("u2", "s") if quick else ("u2", "u3", "s", "s2"):
                if physk == "u3" and L > 4:
                    continue
                for dt in ("float64", "complex128") if quick else ("float64", "complex128", "float32", "complex64"):
                    for ba, bb in ((1, 1), (2, 3), (3, 1), ("var", 2)):
                        if dt in SINGLE and (ba, bb) != (2, 3):
                            continue
                        cells.append(("arith", L, physk, cyc, dt, ba, bb))
    if not quick:
        for cyc in (False, True):
            for dt in ("float64", "complex128"):
                cells.append(("arith", 6, "u2", cyc, dt, 2, 3))
    return cells


# --------------------------------------------------------------------------- #
#                                 table: ptr                                  #
# --------------------------------------------------------------------------- #


def cell_ptr(cell, common):
    cell = _tt(cell)
    qtn = _qtn()
    R = _Res(cell)
    _, L, physk, cyclic, dtype, bk = cell
    phys = _phys(physk, L)
    rt = max(_rt(dtype), 1e-9)
    aa = _mps_arrays(L, phys, bk, cyclic, dtype, ("ptr",))
    va = _ref_vec(aa, cyclic)
    a = qtn.MatrixProductState(aa)
    cplx = str(dtype).startswith("complex")

    keeps = []
    for k in range(1, L + 1):
        for keep in itertools.combinations(range(L), k):
            keeps.append(("list", keep, list(keep)))
    if L >= 2:
        keeps.append(("unsorted", tuple(range(L - 1)), list(range(L - 1))[::-1]))
        keeps.append(("slice", tuple(range(1, L)), slice(1, L)))
        keeps.append(("slice", tuple(range(0, L - 1)), slice(0, L - 1)))
    for form, keep, arg in keeps:
        for resc in (True, False):
            sub = "ptr:%s:%s:rescale=%d" % (form, keep, resc)
            exp = ref.ptrace(va, phys, keep)
            try:
                rho = a.partial_trace_to_mpo(arg, rescale_sites=resc)
                got = _dm(rho)
                rl = rho.L
                present = tuple(rho.gen_sites_present())
            except Exception as ex:
                R.bad(sub, "partial_trace_to_mpo raised %s: %s" % (_exc_name(ex), str(ex)[:200]), entry="partial_trace_to_mpo", check="crash", exc=_exc_name(ex), cyclic=bool(cyclic))
                continue
            wantL = len(keep) if resc else L
            wantp = tuple(range(len(keep))) if resc else keep
            if rl != wantL or present != wantp:
                R.bad(sub, "partial_trace_to_mpo: L=%r sites present %r (expected %r, %r)" % (rl, present, wantL, wantp), entry="partial_trace_to_mpo", check="structure", cyclic=bool(cyclic))
                continue
            if ref.close(got, exp, rtol=rt, atol=1e-13):
                R.ok(sub, nontrivial=len(keep) < L, outcome="ptr:ok")
            elif ref.close(got, exp.T, rtol=rt, atol=1e-13):
                # the structural fact (computed, not parsed from text): the result is
                # exactly the transpose of the reduced density operator
                R.bad(sub, "partial_trace_to_mpo(%r): dense MPO equals rho^T (= rho^*), not rho (rel err to rho %.3g)" % (arg, ref.relerr(got, exp)), entry="partial_trace_to_mpo", check="value", root="transposed")
            else:
                R.bad(sub, "partial_trace_to_mpo(%r): dense MPO differs from the reference reduced density operator (rel err %.3g; also not its transpose)" % (arg, ref.relerr(got, exp)), entry="partial_trace_to_mpo", check="value", root="wrong", cyclic=bool(cyclic))

    # bipartite_schmidt_state: reduced state in the Schmidt basis
    for sz in range(1, L):
        s_ref = np.linalg.svd(va.reshape(_prod(phys[:sz]), -1), compute_uv=False)
        for get in ("ket", "rho", "ket-dense", "rho-dense"):
            sub = "schmidt:%d:%s" % (sz, get)
            try:
                r = a.copy().bipartite_schmidt_state(sz, get=get)
            except NotImplementedError:
                if cyclic:
                    R.rej(sub, "bipartite_schmidt_state:cyclic:NotImplementedError")
                else:
                    R.bad(sub, "bipartite_schmidt_state raised NotImplementedError on an open MPS", entry="bipartite_schmidt_state", check="crash", exc="NotImplementedError")
                continue
            except Exception as ex:
                R.bad(sub, "bipartite_schmidt_state raised %s: %s" % (_exc_name(ex), str(ex)[:200]), entry="bipartite_schmidt_state", check="crash", exc=_exc_name(ex), cyclic=bool(cyclic))
                continue
            try:
                if get == "ket":
                    if tuple(r.inds) != ("kA", "kB"):
                        raise AssertionError("inds %r" % (r.inds,))
                    m = np.asarray(r.data)
                elif get == "ket-dense":
                    x = np.asarray(r).reshape(-1)
                    chi = int(round(x.size**0.5))
                    m = x.reshape(chi, chi)
                elif get == "rho-dense":
                    x = np.asarray(r)
                    chi = int(round(x.shape[0] ** 0.5))
                    # rho = |k><k| with k = vec(diag(s)): its partial trace over B is diag(s^2)
                    m = ref.ptrace(x, [chi, chi], [0])
                    m = np.sqrt(np.abs(m))
                else:  # 'rho' tensor network
                    x = r.to_dense(["kA", "kB"], ["bA", "bB"])
                    chi = int(round(x.shape[0] ** 0.5))
                    m = np.sqrt(np.abs(ref.ptrace(np.asarray(x), [chi, chi], [0])))
                off = m - np.diag(np.diag(m))
                sg = np.sort(np.abs(np.diag(m)))[::-1]
                n = max(len(sg), len(s_ref))
                sg = np.pad(sg, (0, n - len(sg)))
                sr = np.pad(s_ref, (0, n - len(s_ref)))
                if np.max(np.abs(off)) > 1e-9 * max(1.0, sr[0]) or not ref.close(sg, sr, rtol=1e-8, atol=1e-9 * sr[0]):
                    raise AssertionError("Schmidt coefficients %r vs dense SVD %r" % (sg[:4], sr[:4]))
            except Exception as ex:
                R.bad(sub, "bipartite_schmidt_state(%d, %r): %s" % (sz, get, str(ex)[:200]), entry="bipartite_schmidt_state", check="value", get=get)
                continue
            R.ok(sub, outcome="schmidt:ok")
    return R


def _cells_ptr(tier):
    quick = tier == "quick"
    cells = []
    for L in (1, 2, 3, 4) if quick else (1, 2, 3, 4, 5):
        for cyc in (False, True):
            if cyc and L < 3:
                continue
            for physk in ("u2", "s") if quick else ("u2", "u3", "s"):
                if physk == "u3" and L > 4:
                    continue
                for dt in ("float64", "complex128"):
                    for bk in (1, 2, "var") if quick else (1, 2, 3, "var"):
                        cells.append(("ptr", L, physk, cyc, dt, bk))
    return cells


# --------------------------------------------------------------------------- #
#                                table: submpo                                #
# --------------------------------------------------------------------------- #


def cell_submpo(cell, common):
    cell = _tt(cell)
    qtn = _qtn()
    R = _Res(cell)
    _, Lt, physk, dtype, sites, passL = cell
    phys = _phys(physk, Lt)
    rt = max(_rt(dtype), 1e-9)
    dims = [phys[s] for s in sites]
    d = _prod(dims)
    M = fill("generic", (d, d), dtype, key=("c09", "sub", sites))
    ss = sorted(sites)
    kw = dict(sites=list(sites))
    if passL:
        kw["L"] = Lt
    wantL = Lt if passL else max(sites) + 1
    sorted_M = ref.permute(M, dims, [list(sites).index(s) for s in ss])
    # quimb's default split cutoff (1e-10, relative sum of squares) makes the
    # default call exact only when no operator-Schmidt value sits near it: the
    # default call is checked when that holds with a 1e4 margin, everything
    # downstream uses the same call with cutoff=0.0 (documented split option)
    if _default_cutoff_safe(_schmidt(_op_as_vec(sorted_M, [phys[s] for s in ss]), [phys[s] ** 2 for s in ss])):
        _value(R, "from_dense:default-cutoff", "MatrixProductOperator.from_dense", lambda: _dm(qtn.MatrixProductOperator.from_dense(M, dims, **kw)), sorted_M, rt, nontrivial=len(sites) > 1)
    else:
        R.rej("from_dense:default-cutoff", "harness:singular-value-near-default-cutoff")
    kw["cutoff"] = 0.0
    try:
        mpo = qtn.MatrixProductOperator.from_dense(M, dims, **kw)
        present = tuple(mpo.gen_sites_present())
        got = _dm(mpo)
    except Exception as ex:
        R.bad("from_dense", "MatrixProductOperator.from_dense(sites=%r) raised %s: %s" % (sites, _exc_name(ex), str(ex)[:200]), entry="MatrixProductOperator.from_dense", check="crash", exc=_exc_name(ex))
        return R
    if mpo.L != wantL or present != tuple(ss):
        R.bad("from_dense", "from_dense(sites=%r, L=%r): L=%r present=%r" % (sites, Lt if passL else None, mpo.L, present), entry="MatrixProductOperator.from_dense", check="structure")
    elif not ref.close(got, sorted_M, rtol=rt):
        R.bad("from_dense", "from_dense(sites=%r): dense on the present sites differs (rel err %.3g)" % (sites, ref.relerr(got, sorted_M)), entry="MatrixProductOperator.from_dense", check="value")
    else:
        R.ok("from_dense", nontrivial=len(sites) > 1, outcome="from_dense:ok")
    sdims = [phys[s] for s in ss]
    nt = len(sites) < wantL
    _value(R, "trace", "trace", lambda: mpo.trace(), np.trace(M), rt, nontrivial=nt)
    for k in range(0, len(ss) + 1):
        for sysa in itertools.combinations(range(len(ss)), k):
            _value(R, "partial_transpose:%s" % (sysa,), "partial_transpose", lambda: _dm(mpo.partial_transpose([ss[i] for i in sysa])), ref.partial_transpose(sorted_M, sdims, sysa), rt, nontrivial=nt, root="sub-mpo")
    # application to full-length objects
    La = wantL
    pa = phys[:La]
    aa = _mps_arrays(La, pa, 2, False, dtype, ("suba",))
    va = _ref_vec(aa, False)
    a = qtn.MatrixProductState(aa)
    _value(R, "apply:vec", "apply", lambda: _dv(mpo.apply(a)), ref.apply_op(M, va, pa, sites), rt, nontrivial=nt, root="sub-mpo")
    _value(R, "apply:vec:lazy", "apply", lambda: _dv(mpo.apply(a, contract=False)), ref.apply_op(M, va, pa, sites), rt, nontrivial=nt, root="sub-mpo")
    _value(R, "op_vec:upper", "tensor_network_apply_op_vec", lambda: _dv(qtn.tensor_network_apply_op_vec(mpo, a, which_A="upper", contract=True)), ref.apply_op(M.T, va, pa, sites), rt, nontrivial=nt, root="sub-mpo")
    aB = _mpo_arrays(La, pa, 2, False, dtype, ("subB",))
    MB = _ref_op(aB, False)
    B = qtn.MatrixProductOperator(aB)
    E = ref.embed(M, pa, sites)
    _value(R, "apply:op", "apply", lambda: _dm(mpo.apply(B)), E @ MB, rt, nontrivial=nt, root="sub-mpo:op_op" if nt else "full-mpo:op_op")
    # fill_empty_sites
    uniform = len(set(pa)) == 1
    for mode in ("full", "minimal"):
        fs = list(range(wantL)) if mode == "full" else list(range(ss[0], ss[-1] + 1))
        fd = [phys[s] for s in fs]
        for pdk in ("default", "phys_dim", "fill_array"):
            sub = "fill_empty_sites:%s:%s" % (mode, pdk)
            if not uniform and pdk != "fill_array" and len(fs) > len(ss):
                # identities of ONE dimension are inserted: documented domain is a
                # uniform physical dimension unless nothing has to be inserted
                continue
            if not uniform and pdk == "fill_array" and len(set(phys[s] for s in fs if s not in ss)) > 1:
                continue
            fkw = {}
            fill_op = None
            if pdk == "phys_dim":
                fkw["phys_dim"] = pa[0]
            elif pdk == "fill_array":
                missing = [s for s in fs if s not in ss]
                dd = phys[missing[0]] if missing else pa[0]
                fill_op = fill("generic", (dd, dd), dtype, key=("c09", "fillarr"))
                fkw["fill_array"] = fill_op
            ops = []
            where = [fs.index(s) for s in sites]
            expd = ref.embed(M, fd, where)
            if fill_op is not None:
                # non-identity filler: operator is M (x) fill_op on every inserted site
                F = np.eye(1)
                for s in fs:
                    F = np.kron(F, fill_op if s not in ss else np.eye(phys[s]))
                expd = expd @ F
            for inpl in (False, True):
                def f():
                    src = mpo.copy()
                    out = src.fill_empty_sites_(mode, **fkw) if inpl else src.fill_empty_sites(mode, **fkw)
                    if tuple(out.gen_sites_present()) != tuple(fs):
                        raise AssertionError("sites present %r, expected %r" % (tuple(out.gen_sites_present()), tuple(fs)))
                    for i, j in zip(fs[:-1], fs[1:]):
                        if len(out[i].bonds(out[j])) != 1:
                            raise AssertionError("sites %d,%d share %d bonds" % (i, j, len(out[i].bonds(out[j]))))
                    for i in fs:
                        for j in fs:
                            if j > i + 1 and out[i].bonds(out[j]):
                                raise AssertionError("long range bond %d-%d left" % (i, j))
                    return _dm(out)

                _value(R, sub + (":inplace" if inpl else ""), "fill_empty_sites", f, expd, rt, nontrivial=len(fs) > len(ss), root={"default": "default", "phys_dim": "phys_dim-given", "fill_array": "fill_array-given"}[pdk])
    return R


def _cells_submpo(tier):
    quick = tier == "quick"
    cells = []
    for Lt in (1, 2, 3, 4) if quick else (1, 2, 3, 4, 5):
        for physk in ("u2", "s"):
            for dt in ("float64", "complex128"):
                for k in range(1, min(Lt, 3 if quick else 4) + 1):
                    for sites in itertools.permutations(range(Lt), k):
                        if _prod(_phys(physk, Lt)[s] for s in sites) > 36:
                            continue
                        for passL in (True, False):
                            cells.append(("submpo", Lt, physk, dt, sites, passL))
    return cells


# --------------------------------------------------------------------------- #
#                               table: compress                               #
# --------------------------------------------------------------------------- #


def _methods():
    from quimb.tensor.tn1d.compress import _TN1D_COMPRESS_METHODS

    return list(_TN1D_COMPRESS_METHODS)


def _needs_max_bond(method):
    # documented: "`max_bond` must be given for the `...` method." / "Need to
    # specify at least one of `max_bond` or `tn_fit`"
    return method.startswith(("src", "fit")) or method == "sdc-oversample"


def _method_kw(method):
    kw = {}
    if method.startswith(("src", "fit")):
        kw["seed"] = 7
    return kw


def _lossless_tol(method):
    return FIT_TOL if method.startswith("fit") else LOSSLESS_TOL


def _compress_input(ik, L, physk, dtype):
    """-> (quimb network, dense reference as a vector over sites, per-site
    dims, isop, stored) where ``stored`` is the largest total bond dimension
    the network stores across a cut.  The dense reference is numpy only."""
    qtn = _qtn()
    phys = _phys(physk, L)
    key = ("cin", ik)
    if ik in ("inflated", "zeropad"):
        aa = _mps_arrays(L, phys, 2, False, dtype, key)
        v = _ref_vec(aa, False)
        big = _inflate(aa, 5, dtype, key) if ik == "inflated" else _zeropad(aa, 4)
        return qtn.MatrixProductState(big), v, list(phys), False, (5 if ik == "inflated" else 4)
    if ik == "stack2":
        aa = _mps_arrays(L, phys, 2, False, dtype, key)
        aA = _mpo_arrays(L, phys, 2, False, dtype, key)
        tn = qtn.MatrixProductOperator(aA).apply(qtn.MatrixProductState(aa), contract=False)
        return tn, _ref_op(aA, False) @ _ref_vec(aa, False), list(phys), False, 4
    if ik == "sum":
        aa = _mps_arrays(L, phys, 2, False, dtype, key + ("a",))
        ab = _mps_arrays(L, phys, 2, False, dtype, key + ("b",))
        tn = qtn.MatrixProductState(aa) + qtn.MatrixProductState(ab)
        return tn, _ref_vec(aa, False) + _ref_vec(ab, False), list(phys), False, 4
    if ik == "stack3":
        aa = _mps_arrays(L, phys, 2, False, dtype, key)
        aA = _mpo_arrays(L, phys, 2, False, dtype, key + ("A",))
        aB = _mpo_arrays(L, phys, 2, False, dtype, key + ("B",))
        inner = qtn.MatrixProductOperator(aB).apply(qtn.MatrixProductState(aa), contract=False)
        tn = qtn.tensor_network_apply_op_vec(qtn.MatrixProductOperator(aA), inner, contract=False)
        return tn, _ref_op(aA, False) @ (_ref_op(aB, False) @ _ref_vec(aa, False)), list(phys), False, 8
    if ik == "mpo2":
        aA = _mpo_arrays(L, phys, 2, False, dtype, key + ("A",))
        aB = _mpo_arrays(L, phys, 2, False, dtype, key + ("B",))
        tn = qtn.MatrixProductOperator(aA).apply(qtn.MatrixProductOperator(aB), contract=False)
        M = _ref_op(aA, False) @ _ref_op(aB, False)
        return tn, _op_as_vec(M, phys), [p * p for p in phys], True, 4
    if ik == "mposum":
        aA = _mpo_arrays(L, phys, 2, False, dtype, key + ("A",))
        aB = _mpo_arrays(L, phys, 2, False, dtype, key + ("B",))
        tn = qtn.MatrixProductOperator(aA) + qtn.MatrixProductOperator(aB)
        M = _ref_op(aA, False) + _ref_op(aB, False)
        return tn, _op_as_vec(M, phys), [p * p for p in phys], True, 4
    raise KeyError(ik)


def _out_vec(out, isop, phys):
    if isop:
        return _op_as_vec(_dm(out), phys)
    return _dv(out)


def _rank_profile(spectra):
    """-> (ranks per cut, ambiguous?) with a wide forbidden band so that the
    truncation decisions of every method have a >= 1e4 margin."""
    ranks = []
    amb = False
    for s in spectra:
        s0 = s[0] if len(s) else 0.0
        if s0 == 0.0:
            ranks.append(0)
            continue
        rel = s / s0
        if np.any((rel > 1e-12) & (rel < 1e-4)):
            amb = True
        ranks.append(int(np.sum(rel >= 1e-4)))
    return ranks, amb


def _default_cutoff_safe(spectra, lo=1e-20, hi=1e-6):
    """from_dense / gate_nonlocal split with quimb's default cutoff=1e-10 in
    'rsum2' mode (relative sum of squares): the round trip is only exact when
    no squared relative singular value lies near that threshold.  True when
    every s^2/sum(s^2) is either >= hi (kept with a 1e4 margin) or <= lo
    (numerically zero)."""
    for sv in spectra:
        sv = np.asarray(sv, dtype=float)
        tot = float(np.sum(sv**2))
        if tot == 0.0:
            continue
        rel = sv**2 / tot
        if np.any((rel > lo) & (rel < hi)):
            return False
    return True


def _canon_defect(tn, sites, centre):
    """max isometry defect over all sites but ``centre`` (index into
    ``sites``), each checked towards the centre."""
    worst = 0.0
    for pos, i in enumerate(sites):
        if pos == centre:
            continue
        j = sites[pos + 1] if pos < centre else sites[pos - 1]
        t = tn[i]
        tj = tn[j]
        bs = tuple(t.bonds(tj))
        if len(bs) != 1:
            raise AssertionError("sites %r,%r share %d bonds" % (i, j, len(bs)))
        (b,) = bs
        rest = [ix for ix in t.inds if ix != b]
        m = np.asarray(t.to_dense(rest, [b])) if rest else np.asarray(t.data).reshape(1, -1)
        worst = max(worst, ref.isometry_defect(m))
    return worst


def _globally_exact(method, canonize=True):
    """methods that are exact (in exact arithmetic) whenever the GLOBAL Schmidt
    rank fits under max_bond, even if the stored bonds are larger: the
    canonical direct sweep, the density matrix method, the (exact-recovery)
    sketching methods and the variational fits.  The zip-up family and a
    direct sweep without canonisation truncate in a non-canonical gauge
    (documented as less accurate): for them 'nothing needs truncating' only
    means max_bond >= the stored bond dimension."""
    if method == "direct":
        return bool(canonize)
    return method == "dm" or method.startswith(("sdc", "src", "fit"))


def _record_defect(tn, L, cmin, cmax):
    """numpy scan of a recorded orthogonality centre range (cmin, cmax): every
    site left of it must be a left isometry, every site right of it a right
    isometry (each towards its neighbour on the centre side)."""
    worst = 0.0
    for i in range(L):
        if cmin <= i <= cmax:
            continue
        j = i + 1 if i < cmin else i - 1
        t = tn[i]
        bs = tuple(t.bonds(tn[j]))
        if len(bs) != 1:
            raise AssertionError("sites %d,%d share %d bonds" % (i, j, len(bs)))
        (b,) = bs
        rest = [ix for ix in t.inds if ix != b]
        m = np.asarray(t.to_dense(rest, [b])) if rest else np.asarray(t.data).reshape(1, -1)
        worst = max(worst, ref.isometry_defect(m))
    return worst


def _check_record(R, sub, out, info, vo, phys, sig):
    """the ``info['cur_orthog']`` record handed back by a gating call: (1) it
    must hold on the tensors (fresh isometry scan), (2) quantities computed
    AFTERWARDS through the same record (schmidt_values, bipartite_schmidt_state)
    must equal the dense ones.  Returns True when everything held."""
    L = len(phys)
    entry = sig["entry"]
    rec = info.get("cur_orthog", None)
    try:
        cmin, cmax = (rec, rec) if isinstance(rec, int) else tuple(rec)
        cmin, cmax = int(cmin), int(cmax)
        if not (0 <= cmin <= cmax <= L - 1):
            raise ValueError(rec)
    except Exception:
        R.bad(sub, "%s: info['cur_orthog'] = %r is not a site / (min, max) range after the call" % (entry, rec), check="record", **sig)
        return False
    try:
        rd = _record_defect(out, L, cmin, cmax)
    except Exception as ex:
        R.bad(sub, "%s: cannot scan the recorded canonical form (%s: %s)" % (entry, _exc_name(ex), str(ex)[:200]), check="structure", **sig)
        return False
    if rd > ISO_TOL:
        R.bad(sub, "%s: info['cur_orthog'] = %r is recorded, but a site outside that range is not an isometry towards it (defect %.3g)" % (entry, rec, rd), check="record", **sig)
        return False
    tot = float(np.vdot(vo, vo).real)
    for cut in range(1, L):
        s_ref = np.linalg.svd(np.asarray(vo).reshape(_prod(phys[:cut]), -1), compute_uv=False)
        for fn in ("schmidt_values", "bipartite_schmidt_state"):
            work, winfo = out.copy(), dict(info)
            try:
                if fn == "schmidt_values":
                    got = np.sort(np.abs(np.asarray(work.schmidt_values(cut, info=winfo)).reshape(-1)))[::-1]
                    want = s_ref**2
                    atol = 1e-9 * tot
                else:
                    kd = np.asarray(work.bipartite_schmidt_state(cut, get="ket-dense", info=winfo)).reshape(-1)
                    chi = int(round(kd.size**0.5))
                    m = kd.reshape(chi, chi)
                    if np.max(np.abs(m - np.diag(np.diag(m)))) > 1e-9 * tot**0.5:
                        raise AssertionError("Schmidt state is not diagonal")
                    got = np.sort(np.abs(np.diag(m)))[::-1]
                    want = s_ref
                    atol = 1e-9 * tot**0.5
            except Exception as ex:
                R.bad(sub, "%s then %s(%d, info=<same record %r>) raised %s: %s" % (entry, fn, cut, rec, _exc_name(ex), str(ex)[:160]), check="record-followup", followup=fn, **sig)
                return False
            n = max(len(got), len(want))
            got = np.pad(got, (0, n - len(got)))
            want = np.pad(want, (0, n - len(want)))
            if not np.all(np.abs(got - want) <= atol + 1e-8 * np.abs(want)):
                R.bad(sub, "%s then %s(%d, info=<same record %r>): %r differs from the dense Schmidt spectrum %r" % (entry, fn, cut, rec, got[:4].tolist(), want[:4].tolist()), check="record-followup", followup=fn, **sig)
                return False
    return True


def _settings(ranks, tier, stored=None):
    """(name, max_bond, cutoff, kind): kind 'lossless' = nothing needs
    truncating for any method, 'rank' = the global rank fits (lossless for the
    globally exact methods), 'cap' = max_bond below the rank."""
    rmax = max(ranks) if ranks else 1
    out = [("none0", None, 0.0, "lossless"), ("cut", None, 1e-12, "lossless")]
    if stored is not None and ranks:
        out.append(("stored", stored, 1e-12, "lossless"))
    out += [("roomy", rmax + 1, 1e-12, "rank"), ("exactcap", max(rmax, 1), 0.0, "rank")]
    if rmax > 1:
        caps = sorted({1, rmax - 1}) if tier == "quick" else list(range(1, rmax))
        for k in caps:
            out.append(("cap%d" % k, k, 0.0, "cap"))
    return out


def _tail_bound(spectra, k):
    tot = 0.0
    for s in spectra:
        tot += float(np.sum(np.asarray(s[k:], dtype=float) ** 2))
    return tot**0.5


def _judge_compressed(R, sub, out, vin, isop, phys, method, mb, kind, spectra, nsites, rev, sig, check_canon=True, centre=None, bound=False):
    """shared oracle for one compressed result."""
    entry = sig["entry"]
    try:
        vo = _out_vec(out, isop, phys)
        mxb = out.max_bond() if nsites > 1 else None
        if out.num_tensors != nsites:
            raise AssertionError("%d tensors for %d sites" % (out.num_tensors, nsites))
    except Exception as ex:
        R.bad(sub, "%s: result has the wrong structure (%s: %s)" % (entry, _exc_name(ex), str(ex)[:200]), check="structure", **sig)
        return
    nin = float(np.linalg.norm(vin))
    if vo.shape != vin.shape or not np.all(np.isfinite(vo)):
        R.bad(sub, "%s: result is not finite / has the wrong size" % entry, check="nonfinite", **sig)
        return
    err = float(np.linalg.norm(vo - vin)) / nin
    if mb is not None and mxb is not None and mxb > mb:
        R.bad(sub, "%s: max_bond()=%d exceeds the requested max_bond=%d" % (entry, mxb, mb), check="cap", **sig)
        return
    if kind == "lossless" and err > _lossless_tol(method):
        R.bad(sub, "%s: nothing needed truncating (max_bond=%r) but the result differs from the input by %.3g (relative 2-norm)" % (entry, mb, err), check="lossless", **sig)
        return
    if check_canon and nsites > 1:
        c = (nsites - 1 if rev else 0) if centre is None else centre
        try:
            cd = _canon_defect(out, list(range(nsites)), c)
        except Exception as ex:
            R.bad(sub, "%s: cannot verify canonical form (%s: %s)" % (entry, _exc_name(ex), str(ex)[:200]), check="structure", **sig)
            return
        if cd > ISO_TOL:
            R.bad(sub, "%s: promised canonical centre at site %d but another site is not an isometry towards it (defect %.3g)" % (entry, c, cd), check="canon", **sig)
            return
    disc = 0.0
    if kind == "cap":
        disc = _tail_bound(spectra, mb)
        if bound and err * nin > disc * (1 + 1e-7) + 1e-11 * nin:
            R.bad(sub, "%s: error %.6g exceeds the root-sum-square of the discarded Schmidt values %.6g" % (entry, err * nin, disc), check="bound", **sig)
            return
    R.ok(sub, nontrivial=(kind == "lossless") or disc > 1e-9 * nin or (not spectra and err > 1e-9), outcome="%s:%s:%s" % (sig.get("method", sig.get("form", "")), kind, "exact" if err < 1e-7 else "truncated"))


def cell_compress(cell, common):
    cell = _tt(cell)
    qtn = _qtn()
    R = _Res(cell)
    _, method, ik, L, physk, dtype, tier = cell
    phys = _phys(physk, L)
    tn, vin, dims, isop, stored = _compress_input(ik, L, physk, dtype)
    spectra = _schmidt(vin, dims)
    ranks, amb = _rank_profile(spectra)
    root = "single-site" if L == 1 else ("zero-padded" if ik == "zeropad" else "general")
    if amb:
        R.rej("all", "harness:ambiguous-rank-profile")
        return R
    for rev in (False, True):
        for canz in (True, False):
            for sname, mb, co, kind in _settings(ranks, tier, stored):
                sub = "rev=%d,canonize=%d,%s" % (rev, canz, sname)
                sig = dict(entry="tensor_network_1d_compress", method=method, root=root)
                if kind == "rank":
                    kind = "lossless" if _globally_exact(method, canz) else "cap"
                try:
                    out = qtn.tensor_network_1d_compress(tn, max_bond=mb, cutoff=co, method=method, sweep_reverse=rev, canonize=canz, **_method_kw(method))
                except np.linalg.LinAlgError as ex:
                    R.bad(sub, "compress raised LinAlgError: %s" % str(ex)[:200], check="crash", exc="LinAlgError", **sig)
                    continue
                except (ValueError, TypeError) as ex:
                    if mb is None and _needs_max_bond(method) and (isinstance(ex, ValueError) or (method == "srcmps" and L > 1)):
                        R.rej(sub, "compress:%s:max_bond=None:%s" % (method, _exc_name(ex)))
                        continue
                    R.bad(sub, "compress(method=%r, max_bond=%r, cutoff=%r) raised %s: %s" % (method, mb, co, _exc_name(ex), str(ex)[:200]), check="crash", exc=_exc_name(ex), **sig)
                    continue
                except Exception as ex:
                    R.bad(sub, "compress(method=%r, max_bond=%r, cutoff=%r) raised %s: %s" % (method, mb, co, _exc_name(ex), str(ex)[:200]), check="crash", exc=_exc_name(ex), **sig)
                    continue
                _judge_compressed(R, sub, out, vin, isop, phys, method, mb, kind, spectra, L, rev, sig, bound=(method == "direct" and canz))
    return R


def _cells_compress(tier, methods):
    quick = tier == "quick"
    cells = []
    iks = ("inflated", "zeropad", "stack2", "sum", "mpo2") if quick else ("inflated", "zeropad", "stack2", "sum", "stack3", "mpo2", "mposum")
    for method in methods:
        for ik in iks:
            for L in (1, 2, 3, 4) if quick else (1, 2, 3, 4, 5):
                if L == 1 and ik not in ("inflated", "stack2"):
                    continue
                if ik in ("mpo2", "mposum") and L > (3 if quick else 4):
                    continue
                for physk in ("u2", "s"):
                    if quick and physk == "s" and L not in (2, 3):
                        continue
                    if L == 1 and physk != "u2":
                        continue
                    for dt in ("float64", "complex128"):
                        cells.append(("compress", method, ik, L, physk, dt, tier))
        if not quick:
            for ik in ("inflated", "stack2", "sum"):
                cells.append(("compress", method, ik, 6, "u2", "complex128", tier))
    return cells


# --------------------------------------------------------------------------- #
#                        table: copts (method x option)                       #
# --------------------------------------------------------------------------- #

_COPTS = ("normalize", "equalize_norms=True", "equalize_norms=1.0", "inplace", "permute_arrays=False", "permute_arrays=prl", "site_tags")


def cell_copts(cell, common):
    cell = _tt(cell)
    qtn = _qtn()
    R = _Res(cell)
    _, method, opt, ik, dtype = cell
    L, physk = 4, "u2"
    phys = _phys(physk, L)
    tn0, vin, dims, isop, stored = _compress_input(ik, L, physk, dtype)
    spectra = _schmidt(vin, dims)
    ranks, amb = _rank_profile(spectra)
    if amb:
        R.rej("all", "harness:ambiguous-rank-profile")
        return R
    rmax = stored  # nothing needs truncating for any method
    nin = float(np.linalg.norm(vin))
    for rev in (False, True):
        sub = "rev=%d" % rev
        sig = dict(entry="tensor_network_1d_compress", method=method, option=opt.split("=")[0])
        tn = tn0.copy()
        kw = dict(_method_kw(method))
        if opt == "normalize":
            kw["normalize"] = True
        elif opt.startswith("equalize_norms"):
            kw["equalize_norms"] = True if opt.endswith("True") else 1.0
        elif opt == "inplace":
            kw["inplace"] = True
        elif opt.startswith("permute_arrays"):
            kw["permute_arrays"] = False if opt.endswith("False") else "prl"
        elif opt == "site_tags":
            kw["site_tags"] = [tn.site_tag(i) for i in range(L)]
        try:
            out = qtn.tensor_network_1d_compress(tn, max_bond=rmax, cutoff=1e-12, method=method, sweep_reverse=rev, **kw)
            vo = _out_vec(out, isop, phys)
            if opt == "inplace" and out is not tn:
                raise AssertionError("inplace=True returned a different object")
            if opt == "inplace" and tn.num_tensors != L:
                raise AssertionError("inplace=True: input network still has %d tensors" % tn.num_tensors)
            if opt == "permute_arrays=prl" and not isop:
                y = qtn.MatrixProductState([out[i].data for i in range(L)], shape="prl")
                if not ref.close(_dv(y), vo, rtol=1e-9):
                    raise AssertionError("arrays are not stored in 'prl' order")
            if opt.startswith("equalize_norms") and not np.isfinite(float(np.real(out.exponent))):
                raise AssertionError("exponent not finite")
        except Exception as ex:
            R.bad(sub, "compress(method=%r, %s) raised %s: %s" % (method, opt, _exc_name(ex), str(ex)[:200]), check="crash", exc=_exc_name(ex), **sig)
            continue
        exp = vin / nin if opt == "normalize" else vin
        err = float(np.linalg.norm(vo - exp)) / float(np.linalg.norm(exp))
        if not np.isfinite(err) or err > _lossless_tol(method):
            R.bad(sub, "compress(method=%r, %s): lossless setting but result differs from %s by %.3g" % (method, opt, "input/|input|" if opt == "normalize" else "the input (exponent included)", err), check="lossless", **sig)
            continue
        if out.max_bond() > rmax:
            R.bad(sub, "compress(method=%r, %s): max_bond %d > %d" % (method, opt, out.max_bond(), rmax), check="cap", **sig)
            continue
        R.ok(sub, outcome="copts:%s" % opt)
    return R


def _cells_copts(tier, methods):
    cells = []
    for method in methods:
        for opt in _COPTS:
            for ik in ("stack2",) if tier == "quick" else ("stack2", "sum", "inflated"):
                for dt in ("complex128",) if tier == "quick" else ("float64", "complex128"):
                    cells.append(("copts", method, opt, ik, dt))
    return cells


# --------------------------------------------------------------------------- #
#        table: fitopts (variational fits x sweep schedule x normalize)       #
# --------------------------------------------------------------------------- #


def _fit_methods(methods):
    # 'fit-oversample' fixes its own schedule (one 'R' sweep + a direct sweep)
    return [m for m in methods if m.startswith("fit") and m != "fit-oversample"]


_FIT_SCHEDULES = tuple((n, 0.0) for n in (1, 2, 3)) + ((7, 1e-1), (7, 1e-4))


def cell_fitopts(cell, common):
    """fit / fit-zipup / fit-projector for every sweep schedule: whatever
    number of sweeps was performed and whichever way the last one went, the
    bond cap holds, the result is canonical about an END site - the one the
    docstring names when the number of sweeps is known (tol=0) - and
    normalize=True returns a unit vector.  (Few sweeps need not have
    converged: closeness to the input is not asserted here.)"""
    cell = _tt(cell)
    qtn = _qtn()
    R = _Res(cell)
    _, method, ik, L, physk, dtype = cell
    phys = _phys(physk, L)
    tn, vin, dims, isop, stored = _compress_input(ik, L, physk, dtype)
    ranks, amb = _rank_profile(_schmidt(vin, dims))
    if amb:
        R.rej("all", "harness:ambiguous-rank-profile")
        return R
    rmax = max(ranks)
    for mb in sorted({rmax, max(1, rmax - 1)}):
        for bsz in (1, 2):
            for seq in ("R", "L", "RL", "LR"):
                for nit, tol in _FIT_SCHEDULES:
                    for rev in (False, True):
                        for nrm in (False, True):
                            sub = "mb=%d,bsz=%d,seq=%s,its=%d,tol=%g,rev=%d,normalize=%d" % (mb, bsz, seq, nit, tol, rev, nrm)
                            sig = dict(entry="tensor_network_1d_compress", method=method, option="sweep-schedule", normalize=bool(nrm))
                            try:
                                out = qtn.tensor_network_1d_compress(tn, max_bond=mb, cutoff=0.0, method=method, sweep_reverse=rev, normalize=nrm, max_iterations=nit, tol=tol, sweep_sequence=seq, bsz=bsz, seed=7)
                                vo = _out_vec(out, isop, phys)
                                mxb = out.max_bond()
                                if out.num_tensors != L:
                                    raise AssertionError("%d tensors for %d sites" % (out.num_tensors, L))
                            except Exception as ex:
                                R.bad(sub, "compress(method=%r, %s) raised %s: %s" % (method, sub, _exc_name(ex), str(ex)[:200]), check="crash", exc=_exc_name(ex), **sig)
                                continue
                            if not np.all(np.isfinite(vo)):
                                R.bad(sub, "compress(method=%r, %s): non-finite result" % (method, sub), check="nonfinite", **sig)
                                continue
                            if mxb > mb:
                                R.bad(sub, "compress(method=%r, %s): max_bond()=%d exceeds %d" % (method, sub, mxb, mb), check="cap", **sig)
                                continue
                            # promised centre: last sweep 'L' (right to left) ends at
                            # site_tags[0], 'R' at site_tags[-1]; swapped by sweep_reverse
                            try:
                                d0 = _canon_defect(out, list(range(L)), 0)
                                d1 = _canon_defect(out, list(range(L)), L - 1)
                            except Exception as ex:
                                R.bad(sub, "compress(method=%r, %s): cannot verify canonical form (%s: %s)" % (method, sub, _exc_name(ex), str(ex)[:200]), check="structure", **sig)
                                continue
                            if tol == 0.0:
                                last = seq[(nit - 1) % len(seq)]
                                at0 = (last == "L") != bool(rev)
                                dd, c = (d0, 0) if at0 else (d1, L - 1)
                                if dd > ISO_TOL:
                                    R.bad(sub, "compress(method=%r, %s): %d sweeps ending with %r promise the canonical centre at site %d, but another site is not an isometry towards it (defect %.3g; towards the other end %.3g)" % (method, sub, nit, last, c, dd, d1 if at0 else d0), check="canon", **sig)
                                    continue
                            elif min(d0, d1) > ISO_TOL:
                                R.bad(sub, "compress(method=%r, %s): result is canonical about neither end (defects %.3g, %.3g)" % (method, sub, d0, d1), check="canon", **sig)
                                continue
                            nv = float(np.linalg.norm(vo))
                            if nrm and abs(nv - 1.0) > 1e-9:
                                R.bad(sub, "compress(method=%r, %s): normalize=True returned a vector of norm %.9g" % (method, sub, nv), check="normalize", **sig)
                                continue
                            R.ok(sub, outcome="fitopts:%s:its=%d:tol=%g" % (seq, nit, tol))
    return R


def _cells_fitopts(tier, methods):
    quick = tier == "quick"
    cells = []
    for method in _fit_methods(methods):
        for ik in ("sum", "stack2") if quick else ("sum", "stack2", "inflated", "mpo2"):
            for L in (3, 4) if quick else (2, 3, 4, 5):
                if ik == "mpo2" and L > 3:
                    continue
                for physk in ("u2",) if quick else ("u2", "s"):
                    for dt in ("complex128",) if quick else ("float64", "complex128"):
                        cells.append(("fitopts", method, ik, L, physk, dt))
    return cells


# --------------------------------------------------------------------------- #
#                  table: sweeps (left/right_compress, compress)              #
# --------------------------------------------------------------------------- #


def _cell_sweeps_cyclic(cell, R):
    """periodic chains have no canonical form: only 'lossless reproduces' and
    'cap is never exceeded' are asserted for the sweeps on them."""
    qtn = _qtn()
    _, ik, L, physk, dtype, tier = cell
    phys = _phys(physk, L)
    isop = ik == "cycmposum"
    mk = _mpo_arrays if isop else _mps_arrays
    cls = qtn.MatrixProductOperator if isop else qtn.MatrixProductState
    aa, ab = mk(L, phys, 2, True, dtype, ("cyc", "a")), mk(L, phys, 2, True, dtype, ("cyc", "b"))
    if isop:
        vin = _op_as_vec(_ref_op(aa, True) + _ref_op(ab, True), phys)
    else:
        vin = _ref_vec(aa, True) + _ref_vec(ab, True)
    tn0 = cls(aa) + cls(ab)
    forms = ["left_compress", "right_compress", "compress:None", "compress:left", "compress:right", "compress:flat"] + ["compress:%d" % i for i in range(L)]
    for form in forms:
        for sname, mb, co, kind in (("none0", None, 0.0, "lossless"), ("cut", None, 1e-12, "lossless"), ("stored", 4, 1e-12, "lossless"), ("cap2", 2, 0.0, "cap"), ("cap1", 1, 0.0, "cap")):
            sub = "%s,%s" % (form, sname)
            tn = tn0.copy()
            sig = dict(entry=form.split(":")[0], form=form, kind=("mpo" if isop else "mps") + ":cyclic")
            kw = {"cutoff": co}
            if mb is not None:
                kw["max_bond"] = mb
            try:
                if form == "left_compress":
                    tn.left_compress(**kw)
                elif form == "right_compress":
                    tn.right_compress(**kw)
                else:
                    f = form.split(":")[1]
                    tn.compress(*(() if f == "None" else ((f,) if f in ("left", "right", "flat") else (int(f),))), **kw)
            except Exception as ex:
                R.bad(sub, "%s(%r) on a cyclic chain raised %s: %s" % (form, kw, _exc_name(ex), str(ex)[:200]), check="crash", exc=_exc_name(ex), **sig)
                continue
            _judge_compressed(R, sub, tn, vin, isop, phys, "direct", mb, kind, [], L, False, sig, check_canon=False, bound=False)
    return R


def cell_sweeps(cell, common):
    cell = _tt(cell)
    R = _Res(cell)
    _, ik, L, physk, dtype, tier = cell
    if ik.startswith("cyc"):
        return _cell_sweeps_cyclic(cell, R)
    phys = _phys(physk, L)
    tn0, vin, dims, isop, stored = _compress_input(ik, L, physk, dtype)
    spectra = _schmidt(vin, dims)
    ranks, amb = _rank_profile(spectra)
    if amb:
        R.rej("all", "harness:ambiguous-rank-profile")
        return R
    forms = ["left_compress", "right_compress", "compress:None", "compress:left", "compress:right", "compress:flat"] + ["compress:%d" % i for i in range(L)]
    for form in forms:
        for sname, mb, co, kind in _settings(ranks, tier, stored):
            sub = "%s,%s" % (form, sname)
            tn = tn0.copy()
            entry = form.split(":")[0]
            sig = dict(entry=entry, form=form, kind="mpo" if isop else "mps")
            kw = {"cutoff": co}
            if mb is not None:
                kw["max_bond"] = mb
            try:
                if form == "left_compress":
                    tn.left_compress(**kw)
                    centre, canon, bound = L - 1, True, False
                elif form == "right_compress":
                    tn.right_compress(**kw)
                    centre, canon, bound = 0, True, False
                else:
                    f = form.split(":")[1]
                    if f == "None":
                        tn.compress(**kw)
                        centre, canon, bound = 0, True, True
                    elif f in ("left", "right", "flat"):
                        tn.compress(f, **kw)
                        centre, canon, bound = (L - 1 if f == "left" else 0), f != "flat", f != "flat"
                    else:
                        tn.compress(int(f), **kw)
                        centre, canon, bound = int(f), True, True
            except Exception as ex:
                R.bad(sub, "%s(%r) raised %s: %s" % (form, kw, _exc_name(ex), str(ex)[:200]), check="crash", exc=_exc_name(ex), **sig)
                continue
            if kind == "rank":
                # exact only for the sweeps that canonise first
                kind = "lossless" if bound else "cap"
            _judge_compressed(R, sub, tn, vin, isop, phys, "direct", mb, kind, spectra, L, False, sig, check_canon=canon, centre=centre, bound=bound)
    return R


def _cells_sweeps(tier):
    quick = tier == "quick"
    cells = []
    for ik in ("inflated", "sum", "mposum") if quick else ("inflated", "zeropad", "sum", "mposum"):
        for L in (2, 3, 4) if quick else (2, 3, 4, 5):
            if ik == "mposum" and L > (3 if quick else 4):
                continue
            for physk in ("u2", "s"):
                for dt in ("float64", "complex128"):
                    cells.append(("sweeps", ik, L, physk, dt, tier))
    for ik in ("cycsum", "cycmposum"):
        for L in (3, 4) if quick else (3, 4, 5):
            if ik == "cycmposum" and L > (3 if quick else 4):
                continue
            for physk in ("u2", "s"):
                for dt in ("float64", "complex128"):
                    cells.append(("sweeps", ik, L, physk, dt, tier))
    return cells


# --------------------------------------------------------------------------- #
#                 table: gate (MPO on MPS with compression)                   #
# --------------------------------------------------------------------------- #

_GATE_FNS = ("lazy", "direct", "dm", "zipup", "zipup_first", "fit", "projector")


def cell_gate(cell, common):
    cell = _tt(cell)
    qtn = _qtn()
    R = _Res(cell)
    kind = cell[0]
    if kind == "gate_full":
        _, how, method, L, physk, dtype = cell
        phys = _phys(physk, L)
        aa = _mps_arrays(L, phys, 2, False, dtype, ("ga",))
        aA = _mpo_arrays(L, phys, 2, False, dtype, ("gA",))
        va, MA = _ref_vec(aa, False), _ref_op(aA, False)
        for transpose in (False, True):
            if how == "fn" and transpose:
                continue
            vin = (MA.T if transpose else MA) @ va
            spectra = _schmidt(vin, phys)
            ranks, amb = _rank_profile(spectra)
            if amb:
                R.rej("all", "harness:ambiguous-rank-profile")
                continue
            rmax = max(ranks) if ranks else 1
            exact = _globally_exact(method.replace("_", "-"))
            rk = "lossless" if exact else "cap"
            settings = [("stored", 4, 1e-12, "lossless"), ("roomy", rmax + 1, 1e-12, rk), ("exactcap", rmax, 0.0, rk)]
            if rmax > 1:
                settings.append(("cap1", 1, 0.0, "cap"))
                if rmax > 2:
                    settings.append(("cap%d" % (rmax - 1), rmax - 1, 0.0, "cap"))
            for sname, mb, co, skind in settings:
                for rev in (False, True):
                    if how == "fn" and rev:
                        continue
                    sub = "T=%d,%s,rev=%d" % (transpose, sname, rev)
                    a = qtn.MatrixProductState(aa)
                    A = qtn.MatrixProductOperator(aA)
                    a0 = _dv(a)
                    try:
                        if how == "method":
                            entry = "gate_with_mpo"
                            kw = dict(_method_kw(method))
                            out = a.gate_with_mpo(A, method=method, transpose=transpose, max_bond=mb, cutoff=co, sweep_reverse=rev, **kw)
                        else:
                            from quimb.tensor.tn1d import compress as qc

                            entry = "mps_gate_with_mpo_" + method
                            f = getattr(qc, entry)
                            if method == "lazy":
                                out = f(a, A)
                            elif method == "fit":
                                out = f(a, A, max_bond=mb, cutoff=co, seed=7)
                            else:
                                out = f(a, A, max_bond=mb, cutoff=co)
                    except Exception as ex:
                        R.bad(sub, "%s raised %s: %s" % (entry, _exc_name(ex), str(ex)[:200]), entry=entry, method=method, check="crash", exc=_exc_name(ex))
                        continue
                    sig = dict(entry=entry, method=method)
                    if not ref.close(_dv(a), a0, rtol=0, atol=0):
                        R.bad(sub, "%s modified the input MPS although inplace=False" % entry, check="input-modified", **sig)
                        continue
                    if how == "fn" and method == "lazy":
                        _value(R, sub, entry, lambda: _dv(out), vin, 1e-9, method=method)
                        break
                    canon = not (how == "fn" and method in ("projector",))
                    lossless_only = how == "fn" and method == "projector"
                    if lossless_only and skind != "lossless":
                        # local projectors: only the bond cap is promised
                        if out.max_bond() > mb:
                            R.bad(sub, "%s: max_bond %d > %d" % (entry, out.max_bond(), mb), check="cap", **sig)
                        else:
                            R.ok(sub, outcome="projector:cap")
                        continue
                    _judge_compressed(R, sub, out, vin, False, phys, "fit" if method in ("fit", "projector") else method, mb, skind, spectra, L, rev, sig, check_canon=canon, bound=(method == "direct"))
        return R

    if kind == "gate_sub":
        _, entry, method, L, physk, dtype, where = cell
        phys = _phys(physk, L)
        aa = _mps_arrays(L, phys, 2, False, dtype, ("gs",))
        va = _ref_vec(aa, False)
        dimsw = [phys[s] for s in where]
        d = _prod(dimsw)
        G = fill("generic", (d, d), dtype, key=("c09", "G", where))
        si, sf = min(where), max(where)
        region = "single" if si == sf else ("whole" if (si == 0 and sf == L - 1) else "proper")
        ssw = sorted(where)
        sG = ref.permute(G, dimsw, [list(where).index(x) for x in ssw])
        if entry == "gate_nonlocal" and not _default_cutoff_safe(_schmidt(_op_as_vec(sG, [phys[x] for x in ssw]), [phys[x] ** 2 for x in ssw])):
            # gate_nonlocal splits G with the default cutoff (see cell_submpo)
            R.rej("all", "harness:singular-value-near-default-cutoff")
            return R
        for transpose in (False, True):
            vin = ref.apply_op(G.T if transpose else G, va, phys, where)
            if _rank_profile(_schmidt(vin, phys))[1]:
                R.rej("T=%d" % transpose, "harness:ambiguous-rank-profile")
                continue
            for sname, mb, co, skind in (("roomy", 16, 1e-12, "lossless"), ("cap2", 2, 0.0, "cap")):
                if method == "lazy" and sname != "roomy":
                    continue
                for rev in (False, True):
                    if method == "lazy" and rev:
                        continue
                    sub = "T=%d,%s,rev=%d" % (transpose, sname, rev)
                    sig = dict(entry=entry, method=method, region=region)
                    a = qtn.MatrixProductState(aa)
                    kw = dict(_method_kw(method))
                    info = {}
                    if method != "lazy":
                        kw.update(max_bond=mb, cutoff=co, sweep_reverse=rev, info=info)
                    try:
                        if entry == "gate_nonlocal":
                            out = a.gate_nonlocal(G, where, method=method, transpose=transpose, **kw)
                        else:
                            sub_mpo = qtn.MatrixProductOperator.from_dense(G, dimsw, sites=where, L=L, cutoff=0.0)
                            out = a.gate_with_submpo(sub_mpo, method=method, transpose=transpose, **kw)
                        vo = _dv(out)
                        mxb = out.max_bond()
                    except Exception as ex:
                        R.bad(sub, "%s(where=%r, method=%r, sweep_reverse=%r) raised %s: %s" % (entry, where, method, rev, _exc_name(ex), str(ex)[:200]), check="crash", exc=_exc_name(ex), **sig)
                        continue
                    err = float(np.linalg.norm(vo - vin) / np.linalg.norm(vin))
                    if not np.isfinite(err):
                        R.bad(sub, "%s: non-finite result" % entry, check="nonfinite", **sig)
                        continue
                    if skind == "lossless" and err > _lossless_tol(method):
                        R.bad(sub, "%s(where=%r, method=%r, sweep_reverse=%r): nothing needed truncating but the state differs from G|psi> by %.3g" % (entry, where, method, rev, err), check="lossless", **sig)
                        continue
                    if skind == "cap" and mxb > mb:
                        R.bad(sub, "%s(where=%r, method=%r, sweep_reverse=%r): max_bond %d > %d" % (entry, where, method, rev, mxb, mb), check="cap", **sig)
                        continue
                    # the record handed back through `info` (not for 'lazy': nothing is
                    # canonised; not for 'fit': open finding C08-submpo-fit-record)
                    if method not in ("lazy", "fit"):
                        if not _check_record(R, sub, out, info, vo, phys, dict(sig, rev=bool(rev))):
                            continue
                    R.ok(sub, nontrivial=len(where) > 1, outcome="%s:%s" % (skind, "exact" if err < 1e-7 else "truncated"))
        return R
    raise KeyError(kind)


def _cells_gate(tier, methods):
    quick = tier == "quick"
    cells = []
    for L in (2, 3, 4) if quick else (2, 3, 4, 5):  # (single site: compress table)
        for physk in ("u2", "s"):
            if quick and physk == "s" and L != 3:
                continue
            for dt in ("float64", "complex128"):
                if quick and dt == "float64" and L != 3:
                    continue
                for method in methods:
                    cells.append(("gate_full", "method", method, L, physk, dt))
                for fn in _GATE_FNS:
                    cells.append(("gate_full", "fn", fn, L, physk, dt))
    for L in (3, 4) if quick else (3, 4, 5):
        wheres = []
        for k in (1, 2, 3):
            for w in itertools.permutations(range(L), k):
                if k == 3 and (quick and w != tuple(sorted(w))):
                    continue
                wheres.append(w)
        for where in wheres:
            for method in list(methods) + ["lazy"]:
                for entry in ("gate_nonlocal", "gate_with_submpo"):
                    if entry == "gate_with_submpo" and where != tuple(sorted(where)) and quick:
                        continue
                    for physk, dt in (("u2", "complex128"),) if quick else (("u2", "complex128"), ("s", "float64")):
                        cells.append(("gate_sub", entry, method, L, physk, dt, where))
    return cells


# --------------------------------------------------------------------------- #
#                                    run                                      #
# --------------------------------------------------------------------------- #


def _cost(cell):
    k = cell[0]
    L = max([x for x in cell if isinstance(x, int) and not isinstance(x, bool)] or [1])
    return {"arith": 50, "compress": 30, "sweeps": 20, "gate_full": 10, "submpo": 8}.get(k, 1) * (L + 1)


def _guarded(fn, tname):
    """An exception that escapes a cell (e.g. while BUILDING the inputs with
    the constructors / apply / + that other cells check) is reported as a
    violation of that cell instead of aborting the run as a harness error."""

    def wrapped(cell, common):
        try:
            return fn(cell, common)
        except Exception as ex:
            import traceback

            tb = traceback.extract_tb(ex.__traceback__)
            where = next((f.name for f in reversed(tb) if "/quimb/" in f.filename), tb[-1].name if tb else "?")
            return [table.bad(core.problem("cell %r could not be evaluated: %s: %s (innermost quimb frame: %s)" % (cell, _exc_name(ex), str(ex)[:200], where), entry="cell-setup", table=tname, exc=_exc_name(ex), frame=where), sub="cell-setup")]

    wrapped.__name__ = fn.__name__
    return wrapped


cell_build = _guarded(cell_build, "build")
cell_arith = _guarded(cell_arith, "arith")
cell_ptr = _guarded(cell_ptr, "ptr")
cell_submpo = _guarded(cell_submpo, "submpo")
cell_compress = _guarded(cell_compress, "compress")
cell_copts = _guarded(cell_copts, "copts")
cell_sweeps = _guarded(cell_sweeps, "sweeps")
cell_fitopts = _guarded(cell_fitopts, "fitopts")
cell_gate = _guarded(cell_gate, "gate")


def run(ctx):
    only = ctx.opts.get("only")
    import quimb  # noqa: F401  (registry is read at run time)

    methods = _methods()
    TABLES = [
        ("build", "cell_build", lambda t: _cells_build(t)),
        ("arith", "cell_arith", lambda t: _cells_arith(t)),
        ("ptr", "cell_ptr", lambda t: _cells_ptr(t)),
        ("submpo", "cell_submpo", lambda t: _cells_submpo(t)),
        ("compress", "cell_compress", lambda t: _cells_compress(t, methods)),
        ("copts", "cell_copts", lambda t: _cells_copts(t, methods)),
        ("fitopts", "cell_fitopts", lambda t: _cells_fitopts(t, methods)),
        ("sweeps", "cell_sweeps", lambda t: _cells_sweeps(t)),
        ("gate", "cell_gate", lambda t: _cells_gate(t, methods)),
    ]
    quick = ctx.tier == "quick"
    ctx.rule = (
        "every cell of the tables build / arith / ptr / submpo / compress / copts / fitopts / sweeps / gate is evaluated on the real quimb routine "
        "and compared with a numpy-only reference computed from the same site arrays; a case is (table, entry point + options, length, "
        "physical dims, boundary, bond dims, dtype, site subset / shape string / method x sweep_reverse x canonize x input kind x setting); "
        "it is non-trivial when the chain has >= 2 sites (arithmetic), the kept / acted set is a proper subset, a lossless compression "
        "had a stored bond larger than the rank or several tensors per site, or a capped compression really discarded Schmidt weight"
    )
    ctx.bounds = {
        "L": "1..4 (quick) / 1..5 (thorough, + L=6 for arith and compress on qubits); cyclic only for L >= 3",
        "phys_dims": "uniform 2, site dependent (2,3,2,3,..)" + ("" if quick else ", uniform 3, (3,2,2,3,..)"),
        "bond_dims": "1, 2, 3 and site dependent (2,3,1,3,..); pairs (1,1),(2,3),(3,1),(var,2) for binary operations",
        "dtypes": "float64, complex128" + ("" if quick else " (+ float32, complex64 for build/arith)"),
        "shape_strings": "all 6 permutations of 'lrp', all 24 of 'lrud'",
        "site_subsets": "constructors: every ascending subset with >= 2 sites; from_dense: every ORDERED subset of size <= %d; partial trace / partial transpose: every subset" % (3 if quick else 4),
        "compress_methods": methods,
        "compress_inputs": "inflated (rank 2 in bond 5, random isometries), zeropad (rank 2 padded to 4 with zeros), stack2 (MPO.MPS), sum, mpo2 (MPO.MPO)" + ("" if quick else ", stack3, mposum"),
        "compress_settings": "(None,0) | (None,1e-12) | (rank+1,1e-12) | (rank,0) | caps k<rank: " + ("{1, rank-1}" if quick else "all"),
        "sweep_reverse x canonize": "2 x 2 for every method",
        "gate_where": "all ordered subsets of size 1..2 and %s of size 3, L in %s" % ("ascending" if quick else "all ordered", "3..4" if quick else "3..5"),
    }
    ctx.assumptions += [
        "cyclic chains only for L >= 3 (L = 2 has a double bond, L = 1 a self loop that quimb itself marks as unsettled)",
        "expec_TN_1D(compress=True) only with uniform bond dimensions: scipy 1.18's interpolative rsvd raises on complex non-square LinearOperators (third party)",
        "fill_empty_sites with the default / phys_dim identities only on chains of uniform physical dimension (one identity size is inserted)",
        "constructors with sites=: subsets of >= 2 sites (the array layout of a single present site of a longer chain is not documented)",
        "from_dense / gate_nonlocal with quimb's default split cutoff (1e-10 relative sum of squares) are asserted only when no squared relative (operator-)Schmidt value of the input lies in (1e-20, 1e-6) (else rejection 'harness:singular-value-near-default-cutoff'); every downstream check builds its sub-MPO with cutoff=0.0",
        "compression oracles are skipped (counted as rejection 'harness:ambiguous-rank-profile') when a reference Schmidt value lies in (1e-12, 1e-4) relative: truncation decisions keep a >= 1e4 margin",
        "randomised / variational methods get seed=7; fit methods run their default 10 sweeps and are checked to 1e-6, all others to 1e-7 (relative 2-norm)",
        "canonical form: centre at site 0 (L-1 with sweep_reverse) as promised by the dispatcher docstring for every method; for fit with the default even number of sweeps",
        "root-sum-square error bound asserted for method='direct' with canonize=True and for MPS/MPO.compress(form != 'flat'), cutoff=0 and an explicit cap",
        "single precision only for constructors and arithmetic (rtol 5e-4)",
        "max_bond=None rejections: ValueError of src*/srcmps*/fit*/sdc-oversample and the TypeError of srcmps",
        "fitopts: few sweeps need not have converged, so only cap / canonical centre / unit norm are asserted there; with tol > 0 the number of sweeps is not observable, so the centre may be at either end",
        "gate_sub info record: not checked for method='lazy' (nothing canonised) and method='fit' (open finding C08-submpo-fit-record)",
    ]
    for name, fname, gen in TABLES:
        if only and name not in only.split(","):
            continue
        cells = gen(ctx.tier)
        cells = sorted(cells, key=_cost, reverse=True)
        if ctx.opts.get("limit"):  # debugging aid only: the run is then not exhaustive
            cells = cells[: int(ctx.opts["limit"])]
            ctx.cap("--opt limit=%s used" % ctx.opts["limit"])
        t0 = ctx.elapsed()
        n_ok, n_rej, n_bad = table.run(ctx, fname, cells, name=name, chunk=2 if name in ("arith", "compress", "sweeps") else None)
        ctx.notes.setdefault("table_wall_s", {})[name] = round(ctx.elapsed() - t0, 1)
        ctx.subproducts.append("%s: %d cells complete (%d evaluations ok, %d documented rejections, %d violating)" % (name, len(cells), n_ok, n_rej, n_bad))


def replay(case):
    return table.replay(sys.modules[__name__], case)

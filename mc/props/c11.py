"""C11 - TEBD equals its documented Trotter product and converges at the
stated order (DESIGN.md section 3, C11).

Parts (all bounded exhaustive enumerations on the real code):

  A  table   LocalHam1D / LocalHamGen / LocalHam2D / LocalHam3D objects:
             sum of terms = sum of inputs, get_gate, get_gate_expm (cache),
             reversed pair access, auto ordering, input purity
  B  table   trotter_schedule (structure + numerical order conditions),
             get_trotter_gates and build_mpo_propagator_trotterized products
  C  seq     TEBD time-bookkeeping histories (update_to / step / at_times)
             against an independent numpy product-formula reference
  D  table   convergence ladders against the exact propagator
  E  table   TEBDGen / SimpleUpdateGen / TEBD2D / SimpleUpdate sweeps = dense
             product of the exponentials in the ordering used
  F  table   get_gate_expm after apply_to_arrays (id-keyed cache; verdicts
             independent of the allocator)

The reference side (functions prefixed ``r_``) is numpy only.
"""

from __future__ import annotations

import collections
import itertools
import signal

import numpy as np

from .. import core, ref, seq, table
from ..alphabet import fill
from ..qhelp import arr_digest

TOL_OPEN = 1e-10
TOL_CYC = 2e-8
TOL_HAM = 1e-11

# --------------------------------------------------------------------------- #
#                           reference side (numpy)                            #
# --------------------------------------------------------------------------- #


def r_flip(h):
    d = int(round(h.shape[0] ** 0.5))
    return np.asarray(h).reshape(d, d, d, d).transpose(1, 0, 3, 2).reshape(d * d, d * d)


def r_asym(h):
    """relative exchange asymmetry of a two-site operator"""
    h = np.asarray(h)
    n = float(np.linalg.norm(h))
    return float(np.linalg.norm(h - r_flip(h))) / n if n else 0.0


def r_expm_h(H, z):
    """exp(z H) for Hermitian H, complex z (eigh)."""
    w, v = np.linalg.eigh(np.asarray(H))
    return (v * np.exp(z * w)) @ v.conj().T


def r_schedule(n, order):
    """Independent statement of the product formulas: (group, fraction) in
    application order."""
    if order == 1:
        return [(k, 1.0) for k in range(n)]
    if order == 2:
        if n == 0:
            return []
        return [(k, 0.5) for k in range(n - 1)] + [(n - 1, 1.0)] + [(k, 0.5) for k in range(n - 2, -1, -1)]
    if order == 4:
        s = 1.0 / (4.0 - 4.0 ** (1.0 / 3.0))
        out = []
        for f in (s, s, 1.0 - 4.0 * s, s, s):
            out += [(k, fr * f) for k, fr in r_schedule(n, 2)]
        return out
    raise KeyError(order)


def r_embed_sum(items, sites, d=2):
    """items: list of (where(tuple of sites), matrix with factors in the order
    of where) -> dense sum."""
    idx = {s: i for i, s in enumerate(sites)}
    n = len(sites)
    D = d**n
    H = np.zeros((D, D), dtype=complex)
    for where, m in items:
        H = H + ref.embed(np.asarray(m), [d] * n, [idx[s] for s in where])
    return H


def r_apply_gates(v, gates, sites, d=2):
    """gates: list of (where, matrix) applied first to last."""
    idx = {s: i for i, s in enumerate(sites)}
    n = len(sites)
    for where, U in gates:
        v = ref.apply_op(np.asarray(U), v, [d] * n, [idx[s] for s in where])
    return v


def _unit(v):
    n = float(np.linalg.norm(v))
    return v / n if n else v


def _maxdiff(a, b):
    a = np.asarray(a)
    b = np.asarray(b)
    if a.shape != b.shape:
        return float("inf")
    d = np.abs(a - b)
    if not np.all(np.isfinite(d)):
        return float("inf")
    return float(d.max()) if d.size else 0.0


# --------------------------------------------------------------------------- #
#                                data alphabet                                #
# --------------------------------------------------------------------------- #


def _rdtype(kind):
    return "float64" if kind == "real" else "complex128"


def one_site(key, kind="herm", d=2):
    if kind == "generic":
        return fill("generic", (d, d), "complex128", key=("c11", "h1") + tuple(key))
    return fill("hermitian", (d, d), _rdtype(kind), key=("c11", "h1") + tuple(key))


def two_site(key, kind="herm", d=2, sym=False):
    """A (x) B + 0.3 G: site dependent (key), not exchange symmetric unless
    ``sym``.  kind: herm (complex Hermitian) | real (real symmetric) | generic
    (complex, not Hermitian)."""
    key = ("c11", "h2") + tuple(key)
    if kind == "generic":
        a = fill("generic", (d, d), "complex128", key=key + ("a",))
        b = fill("generic", (d, d), "complex128", key=key + ("b",))
        g = fill("generic", (d * d, d * d), "complex128", key=key + ("g",))
    else:
        dt = _rdtype(kind)
        a = fill("hermitian", (d, d), dt, key=key + ("a",))
        b = fill("hermitian", (d, d), dt, key=key + ("b",))
        g = fill("hermitian", (d * d, d * d), dt, key=key + ("g",))
    h = np.kron(a, b) + 0.3 * g
    if sym:
        h = (h + r_flip(h)) / 2
    return np.ascontiguousarray(h)


# --------------------------------------------------------------------------- #
#                                 geometries                                  #
# --------------------------------------------------------------------------- #

GEN_GRAPHS = {
    "path3": ((0, 1, 2), ((0, 1), (1, 2))),
    "path5": ((0, 1, 2, 3, 4), ((0, 1), (1, 2), (2, 3), (3, 4))),
    "ring5": ((0, 1, 2, 3, 4), ((0, 1), (1, 2), (2, 3), (3, 4), (4, 0))),
    "tri": ((0, 1, 2), ((0, 1), (1, 2), (2, 0))),
    "star4": ((0, 1, 2, 3), ((0, 1), (0, 2), (0, 3))),
    "square": ((0, 1, 2, 3), ((0, 1), (1, 2), (2, 3), (3, 0))),
    "tri-str": (("a", "b", "c"), (("a", "b"), ("b", "c"), ("c", "a"))),
    "paw-tup": (((0, 0), (0, 1), (1, 0), (2, 5)), (((0, 0), (0, 1)), ((0, 1), (1, 0)), ((1, 0), (0, 0)), ((1, 0), (2, 5)))),
}


def _lattice_bonds(dims, cyclic):
    """Nearest neighbour bonds of a hyper-cubic lattice, oriented along the
    stepping direction (last axis first), each undirected bond once."""
    nd = len(dims)
    if isinstance(cyclic, (tuple, list)):
        cyc = list(cyclic)
    else:
        cyc = [bool(cyclic)] * nd
    bonds = []
    have = set()
    for coo in itertools.product(*[range(n) for n in dims]):
        for ax in reversed(range(nd)):
            c2 = list(coo)
            c2[ax] += 1
            if c2[ax] >= dims[ax]:
                if not cyc[ax]:
                    continue
                c2[ax] %= dims[ax]
            c2 = tuple(c2)
            if c2 == coo or frozenset((coo, c2)) in have:
                continue
            have.add(frozenset((coo, c2)))
            bonds.append((coo, c2))
    return bonds


def geometry(g):
    """g (JSON-able tuple) -> (sites sorted, natural-orientation bonds)."""
    g = tuple(g)
    if g[0] == "1d":
        L, cyc = g[1], g[2]
        bonds = [(i, i + 1) for i in range(L - 1)]
        if cyc and L > 2:
            bonds.append((L - 1, 0))
        return list(range(L)), bonds
    if g[0] in ("2d", "3d"):
        dims = tuple(g[1])
        cyc = g[2]
        cyc = tuple(cyc) if isinstance(cyc, (tuple, list)) else cyc
        sites = list(itertools.product(*[range(n) for n in dims]))
        return sites, _lattice_bonds(dims, cyc)
    if g[0] == "gen":
        nodes, bonds = GEN_GRAPHS[g[1]]
        return sorted(nodes), [tuple(b) for b in bonds]
    raise KeyError(g)


def build_inputs(cell):
    """-> (H2 input, H1 input, effective two-site list [(where, array)],
    effective one-site dict {site: array}, default-capable?)  All arrays are
    created here from the alphabet; the caller keeps them alive."""
    g = tuple(cell["geom"])
    kind = cell.get("kind", "herm")
    akind = "herm" if kind == "qarr" else kind
    d = cell.get("d", 2)
    sites, bonds = geometry(g)
    gk = (repr(g),)
    h2form = cell["h2"]
    has_default = g[0] != "gen"
    eff2 = []
    if h2form == "arr":
        D2 = two_site(gk + ("def",), akind, d)
        H2 = D2
        eff2 = [(b, D2) for b in bonds]
    else:
        H2 = {}
        D2 = two_site(gk + ("def",), akind, d) if h2form.startswith("none") else None
        if D2 is not None:
            H2[None] = D2
        for k, b in enumerate(bonds):
            rb = (b[1], b[0])
            S = two_site(gk + ("s", k), akind, d)
            if h2form == "none+1":
                use = [b] if k == len(bonds) - 1 else []
            elif h2form == "none+flip":
                use = [rb] if k == len(bonds) - 1 else []
            elif h2form == "full":
                use = [b]
            elif h2form == "fullflip":
                use = [rb]
            elif h2form == "mixed":
                use = [b if k % 2 == 0 else rb]
            elif h2form == "both":
                use = [b, rb] if k == 0 else [b]
            elif h2form == "bothrev":
                use = [rb, b] if k == len(bonds) - 1 else [rb if k % 2 else b]
            else:
                raise KeyError(h2form)
            for j, w in enumerate(use):
                arr = S if j == 0 else two_site(gk + ("s2", k), akind, d)
                H2[w] = arr
                eff2.append((w, arr))
            if not use:
                eff2.append((b, D2))
    h1form = cell["h1"]
    eff1 = {}
    if h1form == "none":
        H1 = None
    elif h1form == "arr":
        D1 = one_site(gk + ("def",), akind, d)
        H1 = D1
        eff1 = {s: D1 for s in sites}
    else:
        H1 = {}
        D1 = one_site(gk + ("def",), akind, d) if h1form == "none+1" else None
        if D1 is not None:
            H1[None] = D1
            eff1 = {s: D1 for s in sites}
        for k, s in enumerate(sites):
            if h1form == "none+1":
                use = k == len(sites) // 2
            elif h1form == "full":
                use = True
            elif h1form == "part":
                use = k % 2 == 0
            elif h1form == "revorder":
                use = True
            else:
                raise KeyError(h1form)
            if use:
                H1[s] = one_site(gk + ("s", k), akind, d)
                eff1[s] = H1[s]
        if h1form == "revorder":
            H1 = dict(reversed(list(H1.items())))
    if kind == "qarr":
        import quimb as qu

        wrap = lambda x: qu.qarray(x)
        H2 = wrap(H2) if not isinstance(H2, dict) else {k: wrap(v) for k, v in H2.items()}
        if H1 is not None:
            H1 = wrap(H1) if not isinstance(H1, dict) else {k: wrap(v) for k, v in H1.items()}
    return H2, H1, eff2, eff1, sites, bonds


def make_ham(cell, H2, H1):
    import quimb.tensor as qtn

    g = tuple(cell["geom"])
    if g[0] == "1d":
        return qtn.LocalHam1D(g[1], H2=H2, H1=H1, cyclic=bool(g[2]))
    if g[0] == "2d":
        cyc = g[2]
        cyc = tuple(cyc) if isinstance(cyc, (tuple, list)) else cyc
        return qtn.LocalHam2D(g[1][0], g[1][1], H2=H2, H1=H1, cyclic=cyc)
    if g[0] == "3d":
        cyc = g[2]
        cyc = tuple(cyc) if isinstance(cyc, (tuple, list)) else cyc
        return qtn.LocalHam3D(g[1][0], g[1][1], g[1][2], H2=H2, H1=H1, cyclic=cyc)
    return qtn.LocalHamGen(H2=H2, H1=H1)


def _snap(x):
    if x is None:
        return None
    if isinstance(x, dict):
        return {k: np.array(v, copy=True) for k, v in x.items()}
    return np.array(x, copy=True)


def _same_snap(x, s):
    if x is None:
        return s is None
    if isinstance(x, dict):
        return list(x) == list(s) and all(np.array_equal(np.asarray(x[k]), s[k]) for k in x)
    return np.array_equal(np.asarray(x), s)


# --------------------------------------------------------------------------- #
#                    Part A: Hamiltonian objects (table)                      #
# --------------------------------------------------------------------------- #

EXPM_XS = (0.1, -0.3j, 0.1, 0.05 + 0.2j, -0.3j)


def ham_cell(cell, common):
    cell = dict(cell)
    entry = {"1d": "LocalHam1D", "2d": "LocalHam2D", "3d": "LocalHam3D", "gen": "LocalHamGen"}[cell["geom"][0]]
    base = dict(entry=entry)
    H2, H1, eff2, eff1, sites, bonds = build_inputs(cell)
    d = cell.get("d", 2)
    if cell.get("uncoupled"):
        # a single-site term on a site no pair covers: documented ValueError
        H1 = dict(H1 or {})
        H1["zz-uncoupled" if isinstance(sites[0], str) else (99 if isinstance(sites[0], int) else (99,) * len(sites[0]))] = one_site(("unc",), "herm", d)
        try:
            make_ham(cell, H2, H1)
        except np.linalg.LinAlgError as ex:
            return table.bad(core.problem("LinAlgError %s" % ex, root="linalg", **base))
        except ValueError:
            return table.rejected("%s:H1-on-uncoupled-site:ValueError" % entry)
        return table.bad(core.problem("single-site term on an uncoupled site was silently accepted", root="uncoupled-accepted", check="reject", **base))
    s2, s1 = _snap(H2), _snap(H1)
    ham = make_ham(cell, H2, H1)
    probs = []
    out = []
    want_keys = sorted(tuple(sorted(b)) for b in bonds)
    got_keys = sorted(ham.terms)
    if got_keys != want_keys or any(not (a < b) for a, b in ham.terms):
        probs.append(core.problem("terms keys %r, expected sorted pairs %r" % (got_keys, want_keys), root="term-keys", check="keys", **base))
        return table.bad(probs)
    for k, v in ham.terms.items():
        if type(v) is not np.ndarray and cell.get("kind") == "qarr":
            probs.append(core.problem("qarray term %r not converted: %s" % (k, type(v).__name__), root="qarray-convert", check="type", **base))
    # --- the sum ---------------------------------------------------------- #
    Href = r_embed_sum(eff2 + [((s,), m) for s, m in eff1.items()], sites, d)
    Hlib = r_embed_sum([(k, np.asarray(v)) for k, v in ham.terms.items()], sites, d)
    scale = max(1.0, float(np.abs(Href).max()))
    e = _maxdiff(Hlib, Href)
    if e > TOL_HAM * scale:
        probs.append(core.problem("sum of terms differs from the sum of the supplied one- and two-site terms by %.3g (%r)" % (e, cell), root="ham-sum", check="sum", **base))
    # each term = its two-site inputs + single-site operators only
    # --- gates and exponentials ------------------------------------------- #
    for k in ham.terms:
        if ham.get_gate(k) is not ham.terms[k] and not np.array_equal(ham.get_gate(k), ham.terms[k]):
            probs.append(core.problem("get_gate(%r) is not the stored term" % (k,), root="get-gate", check="gate", **base))
    pick = sorted(set([got_keys[0], got_keys[-1], got_keys[len(got_keys) // 2]]))
    terms0 = {k: np.array(v, copy=True) for k, v in ham.terms.items()}
    for k in pick:
        for x in EXPM_XS:
            U = np.asarray(ham.get_gate_expm(k, x))
            want = ref.expm_general(x * terms0[k])
            e = _maxdiff(U, want)
            if e > 1e-10 * max(1.0, float(np.abs(want).max())):
                probs.append(core.problem("get_gate_expm(%r, %r) differs from expm(x*term) by %.3g" % (k, x, e), root="gate-expm", check="expm", **base))
                break
    if any(not np.array_equal(np.asarray(ham.terms[k]), terms0[k]) for k in terms0):
        probs.append(core.problem("terms changed by get_gate_expm", root="terms-mutated", check="purity", **base))
    if not (_same_snap(H2, s2) and _same_snap(H1, s1)):
        probs.append(core.problem("constructor inputs were mutated", root="inputs-mutated", check="purity", **base))
    # --- mean_norm (1D, used by the tol -> dt rule) ----------------------- #
    if entry == "LocalHam1D":
        mn = float(np.mean([np.linalg.norm(v) for v in terms0.values()]))
        if abs(float(ham.mean_norm()) - mn) > 1e-10 * max(1.0, mn):
            probs.append(core.problem("mean_norm %r != mean Frobenius norm %r" % (ham.mean_norm(), mn), root="mean-norm", check="mean_norm", **base))
    # --- auto ordering: layers partition the terms into disjoint pairs ---- #
    for order in ("sort", None):
        layers = ham.get_auto_ordering(order, group=True)
        flat = [p for layer in layers for p in layer]
        okp = sorted(flat) == got_keys and all(len({s for p in layer for s in p}) == 2 * len(layer) for layer in layers)
        flat2 = list(ham.get_auto_ordering(order, group=False))
        if not okp or flat2 != flat:
            probs.append(core.problem("get_auto_ordering(%r) is not a partition of the terms into site-disjoint layers: %r" % (order, layers), root="auto-ordering", check="ordering", **base))
    nasym = sum(1 for k in terms0 if r_asym(terms0[k]) > 0.05)
    if probs:
        out.append(table.bad(probs, sub="main"))
    else:
        out.append(table.ok(key=core.sig_key({k: cell[k] for k in sorted(cell)}), nontrivial=len(bonds) >= 1 and nasym >= 1, outcome="%s:nbonds=%d:h1=%s" % (entry, len(bonds), cell["h1"]), evals=1 + len(pick) * len(EXPM_XS), sub="main"))
    # --- reversed pair access --------------------------------------------- #
    rprobs = []
    tested = 0
    for k in pick:
        if r_asym(terms0[k]) <= 0.05:
            continue
        tested += 1
        rk = (k[1], k[0])
        want = r_flip(terms0[k])
        e1 = _maxdiff(np.asarray(ham.get_gate(rk)), want)
        U = np.asarray(ham.get_gate_expm(rk, 0.1))
        e2 = _maxdiff(U, ref.expm_general(0.1 * want))
        if e1 > 1e-10 or e2 > 1e-10:
            rprobs.append(core.problem("get_gate(%r)/get_gate_expm(%r, x) return the term in the stored (%r) orientation: off by %.3g / %.3g from the site-swapped term" % (rk, rk, k, e1, e2), root="pair-orientation", entry="LocalHamGen.get_gate", check="reversed-where"))
            break
    if rprobs:
        out.append(table.bad(rprobs, sub="reversed"))
    elif tested:
        out.append(table.ok(key=None, nontrivial=False, outcome="reversed-access-ok", sub="reversed"))
    return out


def ham_cells(thorough):
    cells = []
    h2_def = ["arr", "none+1", "none+flip", "full", "fullflip", "mixed", "both", "bothrev"]
    h2_gen = ["full", "fullflip", "mixed", "both", "bothrev"]
    h1s = ["none", "arr", "none+1", "full", "part", "revorder"]
    kinds = ["herm", "generic", "real", "qarr"]
    geoms = []
    for L in range(2, 7):
        geoms.append(("1d", L, False))
        if L >= 3:
            geoms.append(("1d", L, True))
    for g in geoms:
        for h2, h1, kind in itertools.product(h2_def, h1s, kinds):
            cells.append({"geom": g, "h2": h2, "h1": h1, "kind": kind})
    for g in [("1d", 3, False), ("1d", 4, True)]:
        for h2, h1 in itertools.product(h2_def, h1s):
            cells.append({"geom": g, "h2": h2, "h1": h1, "kind": "herm", "d": 3})
    g2 = [("2d", (2, 2), False), ("2d", (2, 3), False), ("2d", (2, 3), (False, True)), ("2d", (3, 3), True)]
    g3 = [("3d", (2, 2, 2), False), ("3d", (1, 2, 3), (False, False, True))]
    if not thorough:
        g2 = g2[:3]
        g3 = g3[:1]
    for g in g2 + g3:
        for h2, h1 in itertools.product(h2_def, h1s):
            for kind in (kinds if thorough else ["herm", "generic"]):
                cells.append({"geom": g, "h2": h2, "h1": h1, "kind": kind})
    for name in ("path3", "tri", "star4", "square", "tri-str", "paw-tup", "ring5"):
        for h2, h1 in itertools.product(h2_gen, ["none", "full", "part", "revorder"]):
            for kind in kinds:
                cells.append({"geom": ("gen", name), "h2": h2, "h1": h1, "kind": kind})
    for g in [("1d", 3, False), ("gen", "tri-str"), ("2d", (2, 2), False)]:
        cells.append({"geom": g, "h2": "full", "h1": "part", "kind": "herm", "uncoupled": True})
    return cells


# --------------------------------------------------------------------------- #
#              Part B: schedules, trotter gates, MPO propagator               #
# --------------------------------------------------------------------------- #


def sched_cell(cell, common):
    from quimb.tensor.tnag.tebd import trotter_schedule

    n, order = cell["n"], cell["order"]
    base = dict(entry="trotter_schedule", order=order)
    try:
        sch = trotter_schedule(n, order=order)
    except ValueError:
        if order not in (1, 2, 4):
            return table.rejected("trotter_schedule:order=%r:ValueError" % (order,))
        return table.bad(core.problem("trotter_schedule(%d, %d) raised ValueError" % (n, order), root="schedule-raises", check="call", **base))
    if order not in (1, 2, 4):
        return table.bad(core.problem("unsupported order %r accepted" % (order,), root="schedule-accepts", check="call", **base))
    probs = []
    sch = [(int(k), float(f)) for k, f in sch]
    for k in range(n):
        tot = sum(f for kk, f in sch if kk == k)
        if abs(tot - 1.0) > 1e-13:
            probs.append(core.problem("fractions of group %d sum to %r" % (k, tot), root="schedule-sum", check="sum", **base))
            break
    if any(not (0 <= k < n) for k, _ in sch):
        probs.append(core.problem("group index out of range", root="schedule-index", check="index", **base))
    if order in (2, 4) and any(a[0] != b[0] or abs(a[1] - b[1]) > 1e-15 for a, b in zip(sch, reversed(sch))):
        probs.append(core.problem("order %d schedule is not palindromic: %r" % (order, sch), root="schedule-palindrome", check="palindrome", **base))
    if order == 1 and sch != [(k, 1.0) for k in range(n)]:
        probs.append(core.problem("order 1 schedule %r" % (sch,), root="schedule-order1", check="order1", **base))
    # numerical order condition on non-commuting Hermitian groups
    ratios = []
    if n >= 1 and not probs:
        G = [fill("hermitian", (4, 4), "complex128", key=("c11", "sched", n, k)) for k in range(n)]
        Hs = sum(G)
        errs = []
        for dt in (0.2, 0.1, 0.05):
            S = np.eye(4, dtype=complex)
            for k, f in sch:
                S = r_expm_h(G[k], -1j * f * dt) @ S
            errs.append(float(np.linalg.norm(S - r_expm_h(Hs, -1j * dt))))
        if n == 1:
            if max(errs) > 1e-12:
                probs.append(core.problem("single group schedule is not exact: %r" % (errs,), root="schedule-order", check="order-condition", **base))
        else:
            ratios = [errs[i] / errs[i + 1] for i in range(2)]
            if min(ratios) < 0.7 * 2 ** (order + 1):
                probs.append(core.problem("one-step error of the order %d schedule falls by %r per halving (need >= %.1f): errs %r" % (order, ratios, 0.7 * 2 ** (order + 1), errs), root="schedule-order", check="order-condition", **base))
    if probs:
        return table.bad(probs)
    return table.ok(key="n=%d,o=%d" % (n, order), nontrivial=n >= 2, outcome="order=%d:len=%d" % (order, len(sch)))


def _gates_ham(geom, kind="herm", sym=False):
    cell = {"geom": geom, "h2": "full", "h1": "full", "kind": kind}
    H2, H1, eff2, eff1, sites, bonds = build_inputs(cell)
    if sym:
        H2 = {k: (v + r_flip(v)) / 2 for k, v in H2.items()}
    return make_ham(cell, H2, H1), sites, (H2, H1)


def gates_cell(cell, common):
    cell = dict(cell)
    geom = tuple(cell["geom"])
    order, steps, fuse, alt, ordering, xk = cell["order"], cell["steps"], cell["fuse"], cell["alt"], cell["ordering"], cell["x"]
    x = {"imag": -0.13, "real": -0.11j, "cplx": -0.07 - 0.05j}[xk]
    ham, sites, keep = _gates_ham(geom)
    terms = {k: np.array(v, copy=True) for k, v in ham.terms.items()}
    base = dict(entry="get_trotter_gates")
    rev = False
    if ordering in ("sort", None):
        layers = [tuple(l) for l in ham.get_auto_ordering(ordering, group=True)]
        arg = ordering
    else:
        layers = [tuple(l) for l in ham.get_auto_ordering("sort", group=True)]
        if ordering == "explicit-reversed-layers":
            layers = layers[::-1]
        elif ordering == "explicit-rev-pair":
            a, b = layers[0][0]
            layers[0] = ((b, a),) + tuple(layers[0][1:])
            rev = True
        arg = layers
    flat = [tuple(sorted(p)) for l in layers for p in l]
    if sorted(flat) != sorted(terms) or any(len({s for p in l for s in p}) != 2 * len(l) for l in layers):
        return table.bad(core.problem("layers %r do not partition the terms" % (layers,), root="auto-ordering", check="ordering", **base))
    gates = ham.get_trotter_gates(x, order=order, steps=steps, ordering=arg, fuse_adjacent=fuse, alternate=alt)
    n = len(sites)
    D = 2**n
    probs = []
    # product as applied
    U = np.eye(D, dtype=complex)
    idx = {s: i for i, s in enumerate(sites)}
    fr = collections.Counter()
    for g in gates:
        Ug, where = g
        U = ref.embed(np.asarray(Ug), [2] * n, [idx[s] for s in where]) @ U
        fr[tuple(sorted(where))] += g.frac
        t = terms[tuple(sorted(where))]
        if tuple(where) != tuple(sorted(where)):
            t = r_flip(t)
        e = _maxdiff(np.asarray(g.U), ref.expm_general(g.frac * x * t))
        if e > 1e-10 and not probs:
            root = "pair-orientation" if (rev and tuple(where) != tuple(sorted(where))) else "trotter-gate"
            probs.append(core.problem("gate at %r (frac %r) differs from expm(frac*x*term) by %.3g" % (where, g.frac, e), root=root, check="gate", **base))
    if any(abs(fr[k] - steps) > 1e-12 for k in terms):
        probs.append(core.problem("fractions per pair do not sum to steps=%d: %r" % (steps, dict(fr)), root="trotter-fractions", check="fractions", **base))
    # reference formula
    Gk = []
    for l in layers:
        Gk.append(r_embed_sum([(p, terms[tuple(sorted(p))] if tuple(p) == tuple(sorted(p)) else r_flip(terms[tuple(sorted(p))])) for p in l], sites))
    S = np.eye(D, dtype=complex)
    for k, f in r_schedule(len(layers), order):
        S = ref.expm_general(f * x * Gk[k]) @ S
    R = np.linalg.matrix_power(S, steps)
    e = _maxdiff(U, R)
    if e > 1e-9 * max(1.0, float(np.abs(R).max())) and not probs:
        root = "pair-orientation" if rev else "trotter-product"
        probs.append(core.problem("product of get_trotter_gates differs from the order-%d formula^%d by %.3g (%r)" % (order, steps, e, cell), root=root, check="product", **base))
    if probs:
        return table.bad(probs)
    return table.ok(key=core.sig_key(cell), nontrivial=len(layers) >= 2, outcome="gates:o=%d:layers=%d:n=%d" % (order, len(layers), len(gates)))


def mpo_cell(cell, common):
    cell = dict(cell)
    L, cyc, order, xk = cell["L"], cell["cyclic"], cell["order"], cell["x"]
    x = {"imag": -0.13, "real": -0.11j}[xk]
    ham, sites, keep = _gates_ham(("1d", L, cyc))
    base = dict(entry="build_mpo_propagator_trotterized")
    mpo = ham.build_mpo_propagator_trotterized(x, order=order, cutoff=0.0)
    got = np.asarray(mpo.to_dense())
    U = np.eye(2**L, dtype=complex)
    for Ug, where in ham.get_trotter_gates(x, order=order, ordering="sort"):
        U = ref.embed(np.asarray(Ug), [2] * L, list(where)) @ U
    e = _maxdiff(got, U)
    if e > 1e-9 * max(1.0, float(np.abs(U).max())):
        return table.bad(core.problem("MPO propagator differs from the product of its gates by %.3g (%r)" % (e, cell), root="mpo-propagator", check="mpo", **base))
    return table.ok(key=core.sig_key(cell), nontrivial=True, outcome="mpo:o=%d" % order)


# --------------------------------------------------------------------------- #
#                     Part C: TEBD histories (seq engine)                     #
# --------------------------------------------------------------------------- #

# manually driven steps: own step size or the current one, queued for merging
# with the next step (the state then lags by the pending sweep) or not
STEP_EVENTS = [("step", dtk, q) for dtk in (None, 0.03, 0.07) for q in (False, True)]
TOLS = {1: 0.05, 2: 5e-3, 4: 5e-5}  # tol mode: a few steps per target at every order
CYC_STEP_CAP = {1: 5, 2: 4, 4: 1}  # periodic chains: bond dimension guard (DESIGN C11)
MAX_REF_STEPS = 80


def mps0(L, cyclic, key, chi=2, scale=1.25):
    import quimb.tensor as qtn

    arrays = []
    for i in range(L):
        if cyclic:
            shp = (chi, chi, 2)
        elif i == 0:
            shp = (chi, 2)
        elif i == L - 1:
            shp = (chi, 2)
        else:
            shp = (chi, chi, 2)
        arrays.append(fill("generic", shp, "complex128", key=("c11", "mps", L, bool(cyclic), i) + tuple(key)))
    psi = qtn.MatrixProductState(arrays, shape="lrp")
    v = np.asarray(psi.to_dense()).reshape(-1)
    psi.multiply_(scale / float(np.linalg.norm(v)), spread_over="all")
    return psi


def tebd_ham_inputs(L, cyclic, h2kind):
    """Hermitian inputs for TEBD configurations.  h2kind:
    site   site dependent A(x)B-like terms, boundary term (if cyclic) NOT
           exchange symmetric
    symb   same but the periodic boundary term exchange symmetric
    array  one default array (what TEBD(H=array) builds), not symmetric
    symarr one default array, exchange symmetric"""
    H1 = {i: 0.5 * one_site(("tebd", L, i)) for i in range(L)}
    if h2kind == "symb":
        # the whole boundary term (with its share of the fields) must be
        # exchange symmetric, so the two boundary sites carry the same field
        H1[L - 1] = H1[0]
    bonds = [(i, i + 1) for i in range(L - 1)] + ([(L - 1, 0)] if cyclic else [])
    if h2kind in ("array", "symarr"):
        return two_site(("tebd", L, "def"), sym=(h2kind == "symarr")), None
    H2 = {}
    for b in bonds:
        wrap = cyclic and b == (L - 1, 0)
        H2[b] = two_site(("tebd", L, b[0]), sym=(wrap and h2kind == "symb"))
    return H2, H1


class TebdWorld:
    pass


def _dense(psi):
    return np.asarray(psi.to_dense()).reshape(-1)


class TebdCase(seq.Case):
    rejections = (ValueError, NotImplementedError)
    step_timeout = 240

    def __init__(self, spec):
        super().__init__(spec)
        s = dict(spec)
        self.L = int(s["L"])
        self.cyclic = bool(s["cyclic"])
        self.order = int(s["order"])
        self.mode = tuple(s["mode"])  # ("dt", 0.1) | ("tol", x)
        self.imag = bool(s["imag"])
        self.t0 = float(s["t0"])
        self.h2 = s["h2"]
        self.split = s.get("split", "s0")
        self.rich = bool(s.get("rich", True))
        self.tol_state = TOL_CYC if self.cyclic else TOL_OPEN

    # ---- facts used for root-cause classification -------------------------- #
    def facts(self, w):
        return {
            "cyclic": self.cyclic,
            "boundary_asym": bool(self.cyclic and r_asym(w.terms[(0, self.L - 1)]) > 0.05),
            "imag": self.imag,
        }

    def root_for(self, w, clause):
        if clause in ("state", "norm") and getattr(w, "pending_dt_change", False):
            # structural fact of the history: a sweep was still queued (its
            # length is stored as a fraction of the current step) when this
            # event changed the step size
            return "queued-sweep-dt-change"
        if clause == "norm" and self.imag and self.cyclic:
            return "imag-renorm-cyclic"
        if clause == "norm" and self.imag and (self.order == 1 or w.last_dir[0] == 1):
            return "imag-renorm-ends-on-left-sweep"
        return "tebd-" + clause

    def prob(self, w, clause, msg):
        sig = dict(root=self.root_for(w, clause), entry="TEBD", check=clause)
        if sig["root"].startswith("tebd-"):
            sig.update(cyclic=self.cyclic, order=self.order)
            if self.cyclic:
                sig.update(boundary_asym=self.facts(w)["boundary_asym"])
        return core.problem("%s [L=%d cyclic=%s order=%d mode=%r imag=%s t0=%r h2=%s]" % (msg, self.L, self.cyclic, self.order, self.mode, self.imag, self.t0, self.h2), **sig)

    # ---- world ------------------------------------------------------------- #
    def build(self):
        import quimb.tensor as qtn

        L = self.L
        w = TebdWorld()
        H2, H1 = tebd_ham_inputs(L, self.cyclic, self.h2)
        w.keep = (H2, H1)
        psi0 = mps0(L, self.cyclic, ("tebd",))
        if self.split == "s0":
            so = {"cutoff": 0.0}
        elif self.split == "s1":
            so = {"cutoff": 1e-14, "cutoff_mode": "rel", "max_bond": 2 ** (L // 2)}
        elif self.split == "s2":
            so = {"cutoff": 0.0, "method": "svd", "renorm": False}
        else:
            raise KeyError(self.split)
        if self.cyclic:
            so = {"cutoff": 1e-13, "cutoff_mode": "rel"}
        kw = {self.mode[0]: self.mode[1]}
        if self.h2 in ("array", "symarr"):
            te = qtn.TEBD(psi0, H2, t0=self.t0, split_opts=so, progbar=False, imag=self.imag, **kw)
        else:
            ham = qtn.LocalHam1D(L, H2=H2, H1=H1, cyclic=self.cyclic)
            te = qtn.TEBD(psi0, ham, t0=self.t0, split_opts=so, progbar=False, imag=self.imag, **kw)
        w.te = te
        w.terms = {k: np.array(v, copy=True) for k, v in te.H.terms.items()}
        w.mean_norm = float(np.mean([np.linalg.norm(v) for v in w.terms.values()]))
        v0 = _dense(psi0)
        w.norm0 = float(np.linalg.norm(v0))
        w.refs = [v0.copy() for _ in range(self.n_variants())]
        w.pending = [None] * self.n_variants()  # reference: queued, not yet performed sweep
        w.last_dir = [None] * self.n_variants()  # direction of the last performed sweep
        w.t = self.t0
        w.last_dt = self.mode[1] if self.mode[0] == "dt" else None
        w.has_dt = self.mode[0] == "dt"  # the library has some current step to scale fractions with
        w.steps = 0
        w.expm_cache = {}
        return w

    # ---- reference --------------------------------------------------------- #
    def sweeps(self, variant):
        L = self.L
        right = [(i, i + 1) for i in range(0, L - 1, 2)]
        left = [(i, i + 1) for i in reversed(range(1, L - 1, 2))]
        if self.cyclic:
            if L % 2 == 1:
                right = right + [(0, L - 1)] if variant == 0 else [(0, L - 1)] + right
            else:
                left = [(0, L - 1)] + left
        return right, left

    def r_gate(self, w, b, z):
        k = (b, complex(z))
        if k not in w.expm_cache:
            w.expm_cache[k] = r_expm_h(w.terms[b], z)
        return w.expm_cache[k]

    def n_variants(self):
        # odd periodic chains: the even sweep holds two overlapping bonds, so
        # (a) their order and (b) whether queued same-direction sweeps were
        # merged changes the product; the property fixes neither (only first
        # order convergence), so all four readings are accepted
        return 4 if (self.cyclic and self.L % 2 == 1) else 1

    def r_requests(self, w, reqs):
        """Feed sweep requests (direction, tau, queue, internal) to every
        reference variant.  Documented queue semantics: a queued sweep is
        merged with the next one of the same direction, performed when one of
        the other direction arrives, and drained first by any unqueued sweep.
        ``internal`` marks the whole-step sweeps update_to queues itself: the
        'unmerged' variants of odd periodic chains perform those directly."""
        z0 = -1.0 if self.imag else -1.0j
        single = len(w.refs) == 1
        for variant in range(len(w.refs)):
            follows_queue = single or (variant // 2 == 1)
            groups = self.sweeps(variant % 2)
            st = {"v": w.refs[variant], "last": w.last_dir[variant]}

            def perform(k, tau, st=st, groups=groups):
                v = st["v"]
                for b in groups[k]:
                    v = ref.apply_op(self.r_gate(w, b, z0 * tau), v, [2] * self.L, list(b))
                st["v"], st["last"] = v, k

            pend = w.pending[variant]
            for k, tau, queue, internal in reqs:
                if queue and (follows_queue or not internal):
                    if pend is not None and pend[0] == k:
                        pend = [k, pend[1] + tau]
                    else:
                        if pend is not None:
                            perform(*pend)
                        pend = [k, tau]
                else:
                    if pend is not None:
                        perform(*pend)
                        pend = None
                    perform(k, tau)
            w.pending[variant] = pend
            w.last_dir[variant] = st["last"]
            w.refs[variant] = _unit(st["v"]) if self.imag else st["v"]

    def r_step(self, w, dt, queue=False):
        self.r_requests(w, [(k, f * dt, queue, False) for k, f in r_schedule(2, self.order)])
        w.steps += 1

    def r_plan(self, t, T, dt):
        """the documented stepping rule: whole steps while t < T - dt, then
        the remainder -> list of step sizes"""
        plan = []
        while t < T - dt:
            plan.append(dt)
            t += dt
            if len(plan) > MAX_REF_STEPS:
                raise core.HarnessError("reference step plan too long: T=%r dt=%r" % (T, dt))
        plan.append(T - t)
        return plan

    def r_update(self, w, T, dt):
        zero = dt is None  # empty interval in tol mode: no step size is defined by it
        if zero:
            dt = 1.0
        plan = self.r_plan(w.t, T, dt)
        reqs = [(k, f * h, True, True) for h in plan[:-1] for k, f in r_schedule(2, self.order)]
        reqs += [(k, f * plan[-1], False, False) for k, f in r_schedule(2, self.order)]
        self.r_requests(w, reqs)
        w.steps += len(plan)
        w.t = T
        w.last_dt = None if zero else dt
        w.has_dt = True

    def r_dt(self, w, T, dt=None, tol=None):
        """effective step of an update: explicit/default dt, or the documented
        tol rule (tol / (T * mean_norm)) ** (1 / order)"""
        if dt is None and self.mode[0] == "dt":
            dt = self.mode[1]
        if tol is None and self.mode[0] == "tol":
            tol = self.mode[1]
        if dt is not None and tol:
            return None, "conflict"
        if dt is not None:
            return dt, None
        span = T - w.t
        if span <= 0:
            return None, "zero-interval"
        return (tol / (span * w.mean_norm)) ** (1.0 / self.order), None

    def n_steps(self, w, e):
        """how many library steps the event will take (for the periodic cap)"""
        k = e[0]
        try:
            if k == "step":
                return 1
            if k in ("update_to", "update_to_dt", "update_to_tol"):
                dt, why = self.r_dt(w, e[1], dt=e[2] if k == "update_to_dt" else None, tol=e[2] if k == "update_to_tol" else None)
                if why or e[1] < w.t - 1e-13:
                    return 0
                return len(self.r_plan(w.t, e[1], dt))
            if k == "at_times":
                ts = sorted(e[1])
                if ts[0] < w.t - 1e-13:
                    return 0
                dt, why = self.r_dt(w, ts[-1])
                if why:
                    return 0
                n, t = 0, w.t
                for T in ts:
                    n += len(self.r_plan(t, T, dt))
                    t = T
                return n
        except core.HarnessError:
            return 10**6
        return 0

    # ---- menu -------------------------------------------------------------- #
    def menu(self, w):
        t0 = self.t0
        r = lambda x: round(t0 + x, 10)
        if self.cyclic:
            ev = [("update_to", r(0.1)), ("update_to", r(0.15)), ("update_to", r(0.2))] + STEP_EVENTS + [("at_times", (r(0.1), r(0.2)))]
            if self.rich:
                ev += [("update_to_dt", r(0.2), 0.07)]
        else:
            ev = [("update_to", r(0.07)), ("update_to", r(0.1)), ("update_to", r(0.25)), ("update_to", r(0.3))] + STEP_EVENTS + [("at_times", (r(0.1), r(0.25))), ("at_times", (r(0.3), r(0.07), r(0.3)))]
            if self.rich:
                ev += [("update_to_dt", r(0.2), 0.04), ("update_to_tol", r(0.2), TOLS[self.order] * 2)]
        # backward targets are all rejected by the same guard: one
        # representative per event kind and state (the nearest one) is enough
        back = [e for e in ev if e[0] == "update_to" and e[1] < w.t - 1e-13]
        drop = set(back) - ({max(back, key=lambda e: e[1])} if back else set())
        back_at = [e for e in ev if e[0] == "at_times" and min(e[1]) < w.t - 1e-13]
        drop |= set(back_at[1:])
        out = []
        for e in ev:
            if e in drop:
                continue
            if e[0] == "step" and (not w.has_dt or (e[1] is None and w.last_dt is None and self.mode[0] != "dt")):
                continue  # no step size defined (tol mode before any update / after an empty one)
            sp = self.tol_span(w, e)
            if sp is not None and -1e-13 <= sp < 0:
                # a NEGATIVE interval within TARGET_TOL passes the backwards
                # guard; with order 1 choose_time_step then returns a negative
                # step and update_to never terminates.  Same root cause as the
                # zero interval (finding tol-zero-interval), not executed.
                continue
            if self.cyclic and w.steps + self.n_steps(w, e) > CYC_STEP_CAP[self.order]:
                continue
            out.append(e)
        return out

    def expected_rejection(self, w, e):
        k = e[0]
        if k in ("update_to", "update_to_dt", "update_to_tol"):
            if e[1] < w.t - 1e-13:
                return NotImplementedError
            _, why = self.r_dt(w, e[1], dt=e[2] if k == "update_to_dt" else None, tol=e[2] if k == "update_to_tol" else None)
            if why == "conflict":
                return ValueError
        if k == "at_times":
            ts = sorted(e[1])
            _, why = self.r_dt(w, ts[-1])
            if why == "conflict":
                return ValueError
            if ts[0] < w.t - 1e-13:
                return NotImplementedError
        return None

    # ---- transitions ------------------------------------------------------- #
    def observe(self, w):
        te = w.te
        q = getattr(te, "_queued_sweep", None)
        # a queued sweep is stored as a fraction of the current step: what
        # matters (and must survive a rejected call) is its length of time
        qq = (q[0], round(float(q[1]) * float(te._dt), 12)) if q else None
        return {"t": float(te.t), "err": float(te.err), "v": _dense(te.pt), "queued": qq, "pending_ref": w.pending[0] is not None}

    def pre(self, w, e):
        o = self.observe(w)
        o["t_ref"] = w.t
        o["expected_rejection"] = self.expected_rejection(w, e)
        return o

    def apply(self, w, e):
        te = w.te
        k = e[0]
        order = self.order
        obs = {"kind": k, "checks": []}
        t_before = float(te.t)
        w.pending_dt_change = False
        had_pending, dt_before = w.pending[0] is not None, w.last_dt
        if k == "update_to":
            te.update_to(e[1], order=order)
            dt, why = self.r_dt(w, e[1])
            self.r_update(w, e[1], dt)
            obs["checks"].append((e[1], self.observe(w), [x.copy() for x in w.refs]))
        elif k == "update_to_dt":
            te.update_to(e[1], dt=e[2], order=order)
            self.r_update(w, e[1], e[2])
            obs["checks"].append((e[1], self.observe(w), [x.copy() for x in w.refs]))
        elif k == "update_to_tol":
            te.update_to(e[1], tol=e[2], order=order)
            dt, why = self.r_dt(w, e[1], tol=e[2])
            self.r_update(w, e[1], dt)
            obs["checks"].append((e[1], self.observe(w), [x.copy() for x in w.refs]))
        elif k == "step":
            dtk, queue = e[1], bool(e[2])
            kw = {}
            if dtk is not None:
                kw["dt"] = dtk
            if queue:
                kw["queue"] = True
            te.step(order=order, **kw)
            delta = float(te.t) - t_before
            allowed = [dtk] if dtk is not None else [x for x in ((self.mode[1] if self.mode[0] == "dt" else None), w.last_dt) if x is not None]
            obs["delta"] = (delta, allowed)
            h = min(allowed, key=lambda x: abs(x - delta))
            self.r_step(w, h, queue=queue)
            w.t = w.t + h
            obs["checks"].append((w.t, self.observe(w), [x.copy() for x in w.refs]))
        elif k == "at_times":
            ts = sorted(e[1])
            gen = te.at_times(list(e[1]), order=order)
            dt = None
            for i, T in enumerate(ts):
                pt = next(gen)
                if dt is None:
                    dt, why = self.r_dt(w, ts[-1])
                self.r_update(w, T, dt)
                o = self.observe(w)
                o["yielded"] = _dense(pt)
                obs["checks"].append((T, o, [x.copy() for x in w.refs]))
            try:
                next(gen)
                obs["extra_yield"] = True
            except StopIteration:
                pass
        else:
            raise KeyError(k)
        obs["advanced"] = float(te.t) - t_before
        w.pending_dt_change = bool(had_pending and k != "step" and w.last_dt != dt_before)
        return obs

    def check(self, w, e, obs, pre):
        if e == ("init",):
            o = self.observe(w)
            if _maxdiff(o["v"], w.refs[0]) > self.tol_state or abs(o["t"] - self.t0) > 0:
                return [self.prob(w, "init", "initial state/time of TEBD differ from the inputs")]
            return []
        probs = []
        if pre["expected_rejection"] is not None:
            probs.append(self.prob(w, "reject", "%r should be rejected (%s) but was accepted" % (e, pre["expected_rejection"].__name__)))
        err_prev = pre["err"]
        if "delta" in obs:
            delta, allowed = obs["delta"]
            if min(abs(delta - a) for a in allowed) > 1e-13:
                probs.append(self.prob(w, "time", "%r advanced t by %r, documented step is one of %r" % (e, delta, allowed)))
        if obs.get("extra_yield"):
            probs.append(self.prob(w, "time", "at_times yielded more states than times"))
        for T, o, refs in obs["checks"]:
            if abs(o["t"] - T) > 1e-13:
                probs.append(self.prob(w, "time", "after %r t=%r, requested %r" % (e, o["t"], T)))
            if bool(o["queued"]) != o["pending_ref"]:
                probs.append(self.prob(w, "queue", "after %r the library %s a queued sweep (%r) but %s" % (e, "holds" if o["queued"] else "does not hold", o["queued"], "every requested sweep should have been performed" if not o["pending_ref"] else "the last requested sweep should still be pending")))
            if not (np.isfinite(o["err"]) and o["err"] >= err_prev - 1e-15):
                probs.append(self.prob(w, "err", "err went from %r to %r on %r" % (err_prev, o["err"], e)))
            err_prev = o["err"]
            for name in ("v", "yielded"):
                if name not in o:
                    continue
                got = o[name]
                nrm = float(np.linalg.norm(got))
                if self.imag:
                    dev = min(_maxdiff(_unit(got), _unit(r)) for r in refs)
                    want_norm = 1.0
                else:
                    dev = min(_maxdiff(got, r) for r in refs)
                    want_norm = w.norm0
                if dev > self.tol_state:
                    probs.append(self.prob(w, "state", "after %r at t=%r the state differs from the order-%d product formula by %.3g" % (e, T, self.order, dev)))
                if abs(nrm - want_norm) > max(1e-9, 10 * self.tol_state if self.cyclic else 0):
                    probs.append(self.prob(w, "norm", "after %r at t=%r the norm is %.12g, expected %.12g (%s)" % (e, T, nrm, want_norm, "imaginary time: normalised" if self.imag else "real time: preserved")))
        # dedupe by signature
        seen, out = set(), []
        for p in probs:
            k = core.sig_key(p["sig"])
            if k not in seen:
                seen.add(k)
                out.append(p)
        return out

    def pending_dt_change(self, w, e):
        """structural fact: a sweep is still queued and the event derives a
        different step size (root cause queued-sweep-dt-change)"""
        k = e[0]
        if w.pending[0] is None or k not in ("update_to", "update_to_dt", "update_to_tol", "at_times"):
            return False
        if self.expected_rejection(w, e) is not None:
            return False
        T = e[1] if k != "at_times" else sorted(e[1])[-1]
        dt, why = self.r_dt(w, T, dt=e[2] if k == "update_to_dt" else None, tol=e[2] if k == "update_to_tol" else None)
        return bool(why or dt != w.last_dt)

    def pending_problem(self, w, e, exc):
        return [core.problem("%r with a sweep still queued raised %s: %s (the queued fraction is applied with the new step)" % (e, type(exc).__name__, str(exc)[:80]), root="queued-sweep-dt-change", entry="TEBD", check="exception")]

    def zero_interval(self, w, e):
        """root cause computed from the case: the step is derived from a
        tolerance and the requested interval is empty (tol / 0 -> inf)"""
        k = e[0]
        if k not in ("update_to", "update_to_tol", "at_times"):
            return False
        return bool(self.tol_span(w, e) is not None and self.tol_span(w, e) <= 0 and pre_ok(self, w, e))

    def tol_span(self, w, e):
        """interval handed to choose_time_step when the event derives its step
        from a tolerance (None otherwise); uses the library's public ``t``"""
        k = e[0]
        if k not in ("update_to", "update_to_tol", "at_times"):
            return None
        if not (self.mode[0] == "tol" or k == "update_to_tol"):
            return None
        if self.mode[0] == "dt" and k == "update_to_tol":
            return None  # conflict: rejected before any step is computed
        T = e[1] if k != "at_times" else sorted(e[1])[-1]
        return T - float(w.te.t)

    def check_rejected(self, w, e, exc, pre):
        probs = []
        want = pre["expected_rejection"]
        if want is None and self.pending_dt_change(w, e):
            return self.pending_problem(w, e, exc)
        if want is None and self.zero_interval(w, e):
            return [core.problem("%r at t=%r with a tolerance instead of a step raised %s: %s (choose_time_step divides by the zero interval)" % (e, w.t, type(exc).__name__, str(exc)[:80]), root="tol-zero-interval", entry="TEBD", check="exception")]
        if want is None or not isinstance(exc, want):
            probs.append(self.prob(w, "reject", "%r raised %s(%s) although nothing documented forbids it" % (e, type(exc).__name__, str(exc)[:80])))
        o = self.observe(w)
        if o["t"] == pre["t"] and o["err"] == pre["err"] and _maxdiff(o["v"], pre["v"]) <= 1e-13 and o["queued"] != pre["queued"] and w.pending[0] is not None and e[0] == "at_times":
            # at_times derives the step before it rejects a backward target:
            # same root cause as queued-sweep-dt-change (structural: sweep
            # pending + step re-derived)
            probs.append(core.problem("rejected %r changed the length of the queued sweep from %r to %r (the step was re-derived while a sweep was pending)" % (e, pre["queued"], o["queued"]), root="queued-sweep-dt-change", entry="TEBD", check="reject-intact"))
        elif o["t"] != pre["t"] or o["err"] != pre["err"] or _maxdiff(o["v"], pre["v"]) > 1e-13 or o["queued"] != pre["queued"]:
            probs.append(self.prob(w, "reject-intact", "rejected %r changed the observable state (t %r->%r)" % (e, pre["t"], o["t"])))
        return probs

    def unexpected(self, w, e, exc):
        if isinstance(exc, core.HarnessError):
            raise exc
        k = e[0]
        if self.pending_dt_change(w, e):
            return self.pending_problem(w, e, exc)
        if self.zero_interval(w, e):
            return [core.problem("%r at t=%r with a tolerance instead of a step raised %s: %s (choose_time_step divides by the zero interval)" % (e, w.t, type(exc).__name__, str(exc)[:80]), root="tol-zero-interval", entry="TEBD", check="exception")]
        return [core.problem("%r raised %s: %s" % (e, type(exc).__name__, str(exc)[:200]), root="unexpected-exception", entry="TEBD", event=k, exc=type(exc).__name__)]

    def canon(self, w):
        te = w.te
        items = []
        for name in sorted(vars(te)):
            val = getattr(te, name)
            if name in ("H", "progbar", "split_opts"):
                continue  # constant per configuration (H's caches are not observable)
            if name == "_pt":
                items.append((name, arr_digest(_dense(val), 8)))
            elif isinstance(val, float):
                items.append((name, round(val, 11)))
            elif isinstance(val, list):
                items.append((name, tuple(round(x, 11) if isinstance(x, float) else x for x in val)))
            else:
                items.append((name, repr(val)))
        items.append(("steps", w.steps if self.cyclic else 0))
        return core.digest(items)

    def nontrivial(self, w, e, obs):
        return bool(obs.get("advanced", 0) > 1e-12)

    def outcome(self, w, e, obs):
        return "%s:%s" % (e[0], "advance" if obs.get("advanced", 0) > 1e-12 else "zero")


def pre_ok(case, w, e):
    """the event is otherwise in the documented domain (no conflict, not backwards)"""
    return case.expected_rejection(w, e) is None


def make_case(spec):
    return TebdCase(spec)


NORM_ONLY = ("norm",)


def _continue_past(probs):
    """norm-only violations leave the direction of the state intact, so the
    history stays meaningful and is expanded further."""
    return all(p["sig"].get("check") in NORM_ONLY for p in probs)


class _Timeout(Exception):
    pass


def _alarm(signum, frame):
    raise _Timeout()


def tebd_bfs(item, common):
    """Worker: complete BFS to ``depth`` over one configuration."""
    spec, depth = item
    spec = core.tuplify(spec)
    case = seq.get_case(__name__, spec)
    res = {"transitions": 0, "rej": collections.Counter(), "out": collections.Counter(), "nt": [], "viols": [], "states": 0, "depth": 0, "sample": None}
    w0 = case.build()
    for p in case.check(w0, ("init",), None, None):
        res["viols"].append((p, []))
    seen = {case.canon(w0)}
    frontier = [[]]
    old = signal.signal(signal.SIGALRM, _alarm)
    try:
        for d in range(1, depth + 1):
            nxt = []
            for h in frontier:
                w = seq.rebuild(case, h)
                for e in case.menu(w):
                    signal.alarm(int(case.step_timeout))
                    try:
                        status, key, probs, outcome, nontriv = seq.step(case, h, e)
                    except _Timeout:
                        raise core.HarnessError("watchdog: step %r after %r of %r exceeded %ss" % (e, h, spec, case.step_timeout))
                    finally:
                        signal.alarm(0)
                    res["transitions"] += 1
                    hist = list(h) + [e]
                    if status == "reject":
                        res["rej"][key] += 1
                    for p in probs:
                        res["viols"].append((p, hist))
                    if status == "reject":
                        continue
                    if probs:
                        if not _continue_past(probs):
                            continue
                        # recompute key/outcome of the (direction-correct) state
                        w2 = seq.rebuild(case, hist)
                        key, outcome, nontriv = case.canon(w2), "%s:advance" % e[0], True
                    res["out"][outcome] += 1
                    if key not in seen:
                        seen.add(key)
                        if nontriv:
                            res["nt"].append(core.digest((core.sig_key(spec), key)))
                        nxt.append(hist)
                        if res["sample"] is None and d == depth:
                            res["sample"] = hist
            frontier = nxt
            res["depth"] = d
            if not frontier:
                break
    finally:
        signal.signal(signal.SIGALRM, old)
    res["states"] = len(seen)
    res["rej"] = dict(res["rej"])
    res["out"] = dict(res["out"])
    return res


def tebd_replay(case_rec):
    """Replay every step of a recorded history with the oracle on; problems of
    all steps up to (and including) the first non-norm violation."""
    spec = core.tuplify(case_rec["spec"])
    hist = list(core.tuplify(case_rec["history"]))
    case = seq.get_case(__name__, spec)
    w0 = case.build()
    probs = list(case.check(w0, ("init",), None, None))
    if probs:
        return probs
    out, seen = [], set()
    for i in range(len(hist)):
        status, key, probs, _, _ = seq.step(case, hist[:i], hist[i])
        for p in probs:
            k = core.sig_key(p["sig"])
            if k not in seen:
                seen.add(k)
                out.append(p)
        if status == "reject" or (probs and not _continue_past(probs)):
            break
    return out


def tebd_specs(thorough):
    """Complete list of TEBD configurations of a tier.  quick drops, for
    budget reasons only: t0=0.5 except for dt=0.07 (open) / dt, real (periodic);
    for L=5 the dt=0.07, array-input and split-option variants."""
    specs = []
    Ls = (3, 4, 5, 6) if thorough else (3, 4, 5)
    for L in Ls:
        lean = (not thorough) and L == 5
        for cyclic in (False, True):
            for order in (1, 2, 4):
                modes = [("dt", 0.1), ("dt", 0.07), ("tol", TOLS[order])]
                if cyclic:
                    modes = [("dt", 0.1), ("tol", TOLS[order] * 4)]
                for mode in modes:
                    if lean and mode == ("dt", 0.07):
                        continue
                    for imag in (False, True):
                        for t0 in (0.0, 0.5):
                            if not thorough and t0 == 0.5:
                                if not cyclic and (mode != ("dt", 0.07)):
                                    continue
                                if cyclic and (mode[0] != "dt" or imag):
                                    continue
                            if cyclic:
                                h2s = ["symb", "site"] if t0 == 0.0 else ["symb"]
                                if mode[0] == "dt" and not imag and t0 == 0.0:
                                    h2s += ["symarr"]
                            else:
                                h2s = ["site"]
                                if mode == ("dt", 0.1) and t0 == 0.0 and not lean:
                                    h2s += ["array"]
                            for h2 in h2s:
                                splits = ["s0"]
                                if not cyclic and h2 == "site" and mode == ("dt", 0.1) and t0 == 0.0 and not imag and not lean:
                                    splits += ["s1", "s2"]
                                for sp in splits:
                                    rich = thorough or mode != ("dt", 0.07)
                                    specs.append({"L": L, "cyclic": cyclic, "order": order, "mode": mode, "imag": imag, "t0": t0, "h2": h2, "split": sp, "rich": rich})
    return specs


def run_tebd(ctx, depth_open, depth_cyc, thorough):
    specs = tebd_specs(thorough)
    if "L" in ctx.opts:
        specs = [s for s in specs if s["L"] == int(ctx.opts["L"])]
    if "cyclic" in ctx.opts:
        specs = [s for s in specs if s["cyclic"] == bool(int(ctx.opts["cyclic"]))]
    # expensive ones first for load balance (results are merged in this fixed order)
    specs.sort(key=lambda s: (-s["order"], -s["L"], core.sig_key(s)))
    items = [(s, depth_cyc if s["cyclic"] else depth_open) for s in specs]
    res = []
    B = max(ctx.workers * 4, 16)
    for start in range(0, len(items), B):
        if ctx.out_of_time():
            ctx.cap("time budget hit in TEBD histories after %d of %d configurations (complete BFS on each finished one)" % (start, len(items)))
            items = items[:start]
            break
        res += ctx.pmap("tebd_bfs", items[start : start + B], chunk=1)
    for (spec, depth), r in zip(items, res):
        ctx.transitions += r["transitions"]
        ctx.evaluations += r["transitions"]
        ctx.traces += r["transitions"]
        ctx.states += r["states"]
        for k, n in r["rej"].items():
            ctx.rejections[k] += n
        for k, n in r["out"].items():
            ctx.outcomes[k] += n
        ctx.nontrivial_keys.update(r["nt"])
        for p, hist in r["viols"]:
            ctx.violation(p, {"engine": "tebd", "spec": spec, "history": hist})
        ctx.counters["tebd.configs"] += 1
        ctx.counters["tebd.configs.%s" % ("cyclic" if spec["cyclic"] else "open")] += 1
        ctx.counters["tebd.depth_completed.%s.min" % ("cyclic" if spec["cyclic"] else "open")] = min(ctx.counters.get("tebd.depth_completed.%s.min" % ("cyclic" if spec["cyclic"] else "open"), 99) or 99, r["depth"])
        if r["sample"] is not None and len(ctx.samples) < 8:
            ctx.samples.append(core.jsonable({"spec": spec, "history": r["sample"]}))


# --------------------------------------------------------------------------- #
#                     Part D: convergence ladders (table)                     #
# --------------------------------------------------------------------------- #

LADDER = (0.2, 0.1, 0.05, 0.025)
RATIO_MARGIN = 0.7


def conv_cell(cell, common):
    """Fixed-T ladder on open chains, single-step local error on periodic
    chains; error against the exact propagator of the object's terms."""
    import quimb.tensor as qtn

    cell = dict(cell)
    L, cyclic, order, imag, h2 = cell["L"], cell["cyclic"], cell["order"], cell["imag"], cell["h2"]
    spec = {"L": L, "cyclic": cyclic, "order": order, "mode": ("dt", 0.1), "imag": imag, "t0": 0.0, "h2": h2, "split": "s0"}
    case = TebdCase(spec)
    w = case.build()  # only for the terms / facts
    sites = list(range(L))
    Htot = r_embed_sum([(k, v) for k, v in w.terms.items()], sites)
    v0 = w.refs[0]
    T = 0.4

    def err_at(dt):
        H2, H1 = tebd_ham_inputs(L, cyclic, h2)
        psi0 = mps0(L, cyclic, ("tebd",))
        so = {"cutoff": 1e-13, "cutoff_mode": "rel"} if cyclic else {"cutoff": 0.0}
        if h2 in ("array", "symarr"):
            te = qtn.TEBD(psi0, H2, dt=dt, split_opts=so, progbar=False, imag=imag)
        else:
            te = qtn.TEBD(psi0, qtn.LocalHam1D(L, H2=H2, H1=H1, cyclic=cyclic), dt=dt, split_opts=so, progbar=False, imag=imag)
        if cyclic:
            te.step(order=order)
            tt = dt
        else:
            te.update_to(T, order=order)
            tt = T
        got = _dense(te.pt)
        ex = r_expm_h(Htot, (-1.0 if imag else -1.0j) * tt) @ v0
        if imag:
            got, ex = _unit(got), _unit(ex)
        return float(np.linalg.norm(got - ex))

    ladder = list(LADDER)
    errs = [err_at(dt) for dt in ladder]
    floor = 5e-12 if cyclic else 1e-12
    if sum(1 for e in errs[1:] if e > floor) < 2:
        # tiny error constants: add a coarser rung instead of judging noise
        ladder = [0.4] + ladder
        errs = [err_at(0.4)] + errs
    if cyclic:
        p = (order if L % 2 == 0 else 1) + 1
    else:
        p = order
    need = RATIO_MARGIN * 2**p
    ratios = [errs[i] / errs[i + 1] if errs[i + 1] > 0 else float("inf") for i in range(len(errs) - 1)]
    # only judge rungs whose error is well above the rounding floor
    judged = [r for r, e in zip(ratios, errs[1:]) if e > floor]
    out = "conv:%s:L=%d:o=%d:judged=%d" % ("cyc" if cyclic else "open", L, order, len(judged))
    if len(judged) < 2:
        return table.ok(key=None, nontrivial=False, outcome="conv:unjudged(error below rounding floor)")
    if min(judged) < need:
        prob = case.prob(w, "convergence", "error against exact evolution on the ladder dt=%r: %r; ratios per halving %r, need >= %.2f (%s)" % (tuple(ladder), ["%.3g" % e for e in errs], ["%.2f" % r for r in ratios], need, "single-step local error" if cyclic else "T=%.1f" % T))
        return table.bad(prob)
    return table.ok(key=core.sig_key(cell), nontrivial=True, outcome=out)


def conv_cells(thorough):
    cells = []
    for L in (3, 4, 5, 6) if thorough else (3, 4, 5):
        for order in (1, 2, 4):
            for imag in (False, True):
                cells.append({"L": L, "cyclic": False, "order": order, "imag": imag, "h2": "site"})
                if thorough or L <= 4:
                    cells.append({"L": L, "cyclic": False, "order": order, "imag": imag, "h2": "array"})
                for h2 in ("symb", "symarr", "site"):
                    if order == 4 and L == 3 and not thorough:
                        continue  # bond 240 per step, thorough only
                    if imag and h2 == "symarr":
                        continue
                    cells.append({"L": L, "cyclic": True, "order": order, "imag": imag, "h2": h2})
    return cells


# --------------------------------------------------------------------------- #
#            Part E: arbitrary geometry / 2D sweeps (table)                   #
# --------------------------------------------------------------------------- #

GEN_CLASSES = ("TEBDGen", "SimpleUpdateGen", "TEBD2D", "SimpleUpdate")

NAMED_ORDERINGS = {
    # orderings with three or more layers of commuting gates, or no grouping
    # at all ('staircase': every gate overlaps its predecessor)
    ("path5", "stair"): ((0, 1), (1, 2), (2, 3), (3, 4)),
    ("path5", "stair-rev"): ((3, 4), (2, 3), (1, 2), (0, 1)),
    ("path5", "evenodd"): ((0, 1), (2, 3), (1, 2), (3, 4)),
    ("path5", "inout"): ((0, 1), (3, 4), (1, 2), (2, 3)),
    ("ring5", "stair"): ((0, 1), (1, 2), (2, 3), (3, 4), (0, 4)),
    ("ring5", "stair-rev"): ((0, 4), (3, 4), (2, 3), (1, 2), (0, 1)),
    ("ring5", "3color"): ((0, 1), (2, 3), (0, 4), (1, 2), (3, 4)),
    ("ring5", "3color-b"): ((1, 2), (3, 4), (0, 1), (2, 3), (0, 4)),
}


def r_layers(ordering):
    """the documented grouping of a flat ordering into layers of mutually
    non-overlapping gates: a gate touching a site of the current layer starts
    a new one"""
    layers, cover = [], set()
    for where in ordering:
        if not layers or any(c in cover for c in where):
            layers.append([])
            cover = set()
        layers[-1].append(tuple(where))
        cover.update(where)
    return layers


def _gen_setup(cell):
    import quimb.tensor as qtn

    geom = tuple(cell["geom"])
    hcell = {"geom": geom, "h2": "full", "h1": "full", "kind": cell.get("kind", "herm")}
    H2, H1, eff2, eff1, sites, bonds = build_inputs(hcell)
    ham = make_ham(hcell, H2, H1)
    if geom[0] == "2d":
        Lx, Ly = geom[1]
        psi0 = qtn.PEPS.rand(Lx, Ly, 2, seed=11, dtype="complex128")
    else:
        psi0 = qtn.TN_from_edges_rand([tuple(sorted(b)) for b in bonds], D=int(cell.get("D0", 2)), phys_dim=2, seed=11, dtype="complex128")
    return ham, psi0, sites, (H2, H1)


def geom_name(cell):
    g = tuple(cell["geom"])
    return g[1] if g[0] == "gen" else g[0]


def gen_cell(cell, common):
    import quimb.tensor as qtn

    cell = dict(cell)
    cls = getattr(qtn, cell["cls"])
    simple = cell["cls"] in ("SimpleUpdateGen", "SimpleUpdate")
    ham, psi0, sites, keep = _gen_setup(cell)
    base = dict(entry=cell["cls"])
    if cell.get("real_time"):
        try:
            cls(psi0, ham, tau=0.1, D=16, imag=False, progbar=False)
        except NotImplementedError:
            return table.rejected("%s:imag=False:NotImplementedError" % cell["cls"])
        return table.bad(core.problem("imag=False accepted although documented as not implemented", root="gen-real-time", check="reject", **base))
    terms = {k: np.array(v, copy=True) for k, v in ham.terms.items()}
    keys = sorted(terms)
    okind = cell["ordering"]
    rev = False
    if okind == "sort":
        oarg = "sort"
    elif okind[0] == "perm":
        perm = list(itertools.permutations(range(len(keys))))[okind[1]]
        oarg = tuple(keys[i] for i in perm)
    elif okind[0] == "callable":
        perm = list(itertools.permutations(range(len(keys))))[okind[1]]
        fixed = tuple(keys[i] for i in perm)
        oarg = lambda: fixed
    elif okind[0] == "named":
        oarg = tuple(NAMED_ORDERINGS[(geom_name(cell), okind[1])])
    elif okind[0] == "revpair":
        oarg = tuple((k[1], k[0]) if i == okind[1] else k for i, k in enumerate(keys))
        rev = r_asym(terms[keys[okind[1]]]) > 0.05
    else:
        raise KeyError(okind)
    reflect = bool(cell["reflect"])
    tau = 0.1
    kw = dict(tau=tau, D=64, ordering=oarg, second_order_reflect=reflect, progbar=False, compute_energy_final=False, imag=True)
    kw["cutoff"] = 1e-12 if simple else 0.0
    update = cell.get("update", "sequential")
    equil = cell.get("equil", None)
    if simple:
        kw["update"] = update
        if equil is not None:
            kw["equilibrate_every"] = equil
    # root cause facts (from the cell): in 'parallel' mode the gates of one
    # layer are computed from the same state and must be accepted before the
    # next, overlapping layer; with equilibration every N sweeps nothing
    # accepts them between layers
    facts = {}
    if simple and update == "parallel" and (equil == "sweep" or (isinstance(equil, int) and equil)):
        facts["parallel_equilibrate_sweeps"] = True

    def sweep_problem(msg, check):
        if facts.get("parallel_equilibrate_sweeps"):
            return core.problem(msg, root="parallel-layers-not-accepted", check=check, **base)
        return core.problem(msg, root="gen-sweep", check=check, update=update, reversed_pair=bool(rev), **base)

    te = cls(psi0, ham, **kw)
    used = te.ordering() if callable(te.ordering) else te.ordering
    used = [tuple(p) for p in used]
    if sorted(tuple(sorted(p)) for p in used) != keys:
        return table.bad(core.problem("ordering %r does not cover every term once" % (used,), root="gen-ordering", check="ordering", **base))
    v0 = np.asarray(psi0.to_dense()).reshape(-1)
    nsweeps = cell["nsweeps"]
    tauk = cell["tau"]
    if tauk == "callable":
        taufn = lambda where: 0.05 + 0.01 * sorted(terms).index(tuple(sorted(where)))
    else:
        taufn = lambda where: tau
    try:
        if cell["via"] == "sweep":
            for _ in range(nsweeps):
                te.sweep(taufn if tauk == "callable" else tau)
        else:
            te.evolve(nsweeps, tau=tau)
        got = np.asarray(te.state.to_dense()).reshape(-1)
    except Exception as ex:  # every enumerated configuration is documented input
        return table.bad(sweep_problem("%s: %d sweep(s) raised %s: %s (%r)" % (cell["cls"], nsweeps, type(ex).__name__, str(ex)[:120], {k: cell[k] for k in cell if k != "kind"}), "exception"))
    if cell["via"] != "sweep" and te.n != nsweeps:
        return table.bad(core.problem("evolve(%d) reports n=%r" % (nsweeps, te.n), root="gen-count", check="count", **base))
    # the layers the documented rule makes of the ordering used: gates inside
    # one layer do not overlap (so their order cannot matter - the dense
    # product below is the reference for 'sequential' and 'parallel' alike)
    if any(len({c for w_ in layer for c in w_}) != 2 * len(layer) for layer in r_layers(used)):
        return table.bad(core.problem("harness: layer rule produced overlapping gates", root="harness", check="layers", **base))
    seqw = used + used[::-1] if reflect else used
    fac = 2.0 if reflect else 1.0
    v = v0
    for _ in range(nsweeps):
        gates = []
        for where in seqw:
            k = tuple(sorted(where))
            t = terms[k] if tuple(where) == k else r_flip(terms[k])
            gates.append((where, r_expm_h(t, -taufn(where) / fac)))
        v = r_apply_gates(v, gates, sites)
    if simple:
        e = _maxdiff(_unit(got), _unit(v))
        # gauge equilibration divides by the bond gauges (regularised by
        # gauge_smudge = 1e-6): on bonds that carry numerically zero singular
        # values its rounding error is ~1e-6 (measured 4e-6 on the 2x2 PEPS),
        # logic errors are O(0.1)
        tol = 1e-8 if equil is None else 1e-4
    else:
        e = _maxdiff(got, v) / max(1.0, float(np.abs(v).max()))
        tol = 1e-9
    if e > tol:
        return table.bad(sweep_problem("%s: state after %d sweep(s) differs from the dense product of exp(-tau h) in the ordering used by %.3g (%r)" % (cell["cls"], nsweeps, e, {k: cell[k] for k in cell if k != "kind"}), "state"))
    nl = len(r_layers(seqw))
    return table.ok(key=core.sig_key(cell), nontrivial=len(keys) >= 2, outcome="%s:%s:%s:layers%s" % (cell["cls"], cell["via"], update if simple else "-", ">=3" if nl >= 3 else "<3"))


def gen_cells(thorough):
    cells = []
    geoms = [("gen", "path3"), ("gen", "tri"), ("gen", "star4"), ("gen", "square")]
    for cls in ("TEBDGen", "SimpleUpdateGen"):
        for g in geoms:
            nk = len(GEN_GRAPHS[g[1]][1])
            nperm = len(list(itertools.permutations(range(nk))))
            orderings = ["sort"] + [("perm", i) for i in range(nperm)] + [("callable", nperm - 1)] + [("revpair", 0), ("revpair", nk - 1)]
            for o in orderings:
                for reflect in (False, True):
                    vias = [("sweep", 1, "const")]
                    if o == "sort" or (thorough and o[0] == "perm"):
                        vias += [("sweep", 2, "const"), ("evolve", 2, "const"), ("sweep", 1, "callable")]
                    for via, ns, tk in vias:
                        for update in (("sequential", "parallel") if cls == "SimpleUpdateGen" else ("sequential",)):
                            cells.append({"cls": cls, "geom": g, "ordering": o, "reflect": reflect, "via": via, "nsweeps": ns, "tau": tk, "update": update})
        cells.append({"cls": cls, "geom": ("gen", "path3"), "real_time": True})
        # three and more layers / ungrouped orderings, saturated bonds, every
        # update mode x equilibration schedule
        for gname, D0 in (("path5", 4), ("ring5", 2)):
            names = ["sort"] + [("named", n) for (gg, n) in NAMED_ORDERINGS if gg == gname]
            for o in names:
                for reflect in (False, True):
                    if cls == "TEBDGen":
                        combos = [("sequential", None)]
                    else:
                        combos = [(u, q) for u in ("sequential", "parallel") for q in (None, 1, 2, "sweep", "layer", "gate")]
                    for update, equil in combos:
                        vias = [("evolve", 2, "const")] + ([("sweep", 1, "const")] if equil is None else [])
                        if thorough and equil is None:
                            vias += [("evolve", 3, "const"), ("sweep", 1, "callable")]
                        for via, ns, tk in vias:
                            cells.append({"cls": cls, "geom": ("gen", gname), "D0": D0, "ordering": o, "reflect": reflect, "via": via, "nsweeps": ns, "tau": tk, "update": update, "equil": equil})
    for cls in ("TEBD2D", "SimpleUpdate"):
        for g in [("2d", (2, 2), False)] + ([("2d", (2, 3), False)] if thorough else []):
            sites, bonds = geometry(g)
            nk = len(bonds)
            orderings = ["sort", ("perm", 1), ("perm", 5), ("perm", 23), ("callable", 7), ("revpair", 0)]
            for o in orderings:
                for reflect in (False, True):
                    for via, ns, tk in [("sweep", 1, "const"), ("evolve", 2, "const")]:
                        combos = [("sequential", None)]
                        if cls == "SimpleUpdate":
                            combos += [("parallel", None)] + ([("parallel", 1), ("parallel", "layer"), ("sequential", 1)] if via == "evolve" else [])
                        for update, equil in combos:
                            cells.append({"cls": cls, "geom": g, "ordering": o, "reflect": reflect, "via": via, "nsweeps": ns, "tau": tk, "update": update, "equil": equil})
        cells.append({"cls": cls, "geom": ("2d", (2, 2), False), "real_time": True})
    return cells


# --------------------------------------------------------------------------- #
#        Part F: exponentials after apply_to_arrays (id-keyed cache)          #
# --------------------------------------------------------------------------- #


CACHE_ID_POS = {
    # cache name -> positions of id() values inside a key (None: key is the id)
    "convert_from_qarray": None,
    "flip": None,
    "op_id": None,
    "id_op": None,
    "add": (0, 1),
    "div": (0,),
    "expm": (0,),
}


def _key_ids(name, key):
    """the id() values a cache key carries (known layouts by position, any
    other layout: every int found in the key)"""
    pos = CACHE_ID_POS.get(name, "scan")
    if pos is None:
        return [key] if isinstance(key, int) else []
    if pos == "scan":
        ks = key if isinstance(key, tuple) else (key,)
        return [k for k in ks if isinstance(k, int) and not isinstance(k, bool)]
    if isinstance(key, tuple):
        return [key[i] for i in pos if i < len(key) and isinstance(key[i], int)]
    return []


def _cache_ids(ham):
    """ids of every array held as a VALUE of any cache (arrays derived from
    the terms: flips, sums, exponentials ...)"""
    out = set()
    cache = getattr(ham, "_op_cache", None)
    if not hasattr(cache, "items"):
        return out
    for name, sub in cache.items():
        if hasattr(sub, "values"):
            out.update(id(v) for v in sub.values())
    return out


def cache_cell(cell, common):
    """get_gate / get_gate_expm, asked for in BOTH orientations of every pair,
    must describe the CURRENT terms also after apply_to_arrays.  LocalHamGen
    keeps id()-keyed caches (flip, add, div, op_id, id_op, convert_from_qarray,
    expm), so the question is whether apply_to_arrays invalidates all of them.
    Three modes, each with a verdict that does not depend on the allocator:

    held      fn returns new arrays, the caller keeps the originals alive
    inplace   fn changes the array in place and returns the same object (same
              id, new content)
    released  fn returns new arrays and nobody holds the originals (whether
              CPython then re-uses a dead id is up to the allocator and is NOT
              what is judged)

    Verdict = (a) structural, right after apply_to_arrays: no entry of any
    cache may be keyed on the id of a term array from before the call or of
    an array derived from one (a cached flip, sum, ...); (b) behavioural:
    every gate and exponential in both orientations equals the numpy
    reference of the current term; every flip / expm cache entry that belongs
    to a live term equals its reference."""
    import gc

    import quimb as qu
    import quimb.tensor as qtn

    cell = dict(cell)
    L, mode, fn, h1, cyc, kind = cell["L"], cell["mode"], cell["fn"], bool(cell["h1"]), bool(cell["cyclic"]), cell["kind"]
    xs = (0.1, -0.2j)
    base = dict(root="expm-cache-stale", entry="LocalHamGen.apply_to_arrays", mode=mode)
    if mode == "inplace":
        def f(a):
            if fn == "scale":
                a *= 2.0
            elif fn == "conj":
                a[...] = a.conj().T.copy()
            else:
                a += 0.25 * np.eye(a.shape[0])
            return a
    else:
        f = {"scale": (lambda a: 2.0 * a), "conj": (lambda a: a.conj().T.copy()), "shift": (lambda a: a + 0.25 * np.eye(a.shape[0]))}[fn]
    # generic (non-Hermitian, not exchange symmetric) data, so that every fn
    # and every flip really changes the term; boundary bond given as (L-1, 0)
    bonds = [(i, i + 1) for i in range(L - 1)] + ([(L - 1, 0)] if cyc else [])
    H2 = {b: two_site(("cache", L, b[0]), "generic") for b in bonds}
    H1 = {i: one_site(("cache", L, i), "generic") for i in range(L)} if h1 else None
    if kind == "qarr":
        H2 = {k: qu.qarray(v) for k, v in H2.items()}
    ham = qtn.LocalHam1D(L, H2=H2, H1=H1, cyclic=cyc)
    keys = sorted(ham.terms)
    want = {k: f(np.array(ham.terms[k], copy=True)) for k in keys}

    def request_all():
        """every gate and exponential, both orientations -> worst deviation
        from the reference of ``cur`` (dict of current reference terms)"""
        worst, where = 0.0, None
        for k in keys:
            cur = np.array(ham.terms[k], copy=True)
            for w_, t in ((k, cur), ((k[1], k[0]), r_flip(cur))):
                e = _maxdiff(np.asarray(ham.get_gate(w_)), t)
                for x in xs:
                    e = max(e, _maxdiff(np.asarray(ham.get_gate_expm(w_, x)), ref.expm_general(x * t)))
                if e > worst:
                    worst, where = e, w_
        return worst, where

    e0, w0 = request_all()
    if e0 > 1e-10:
        return table.bad(core.problem("before apply_to_arrays: gate / exponential at %r off by %.3g" % (w0, e0), root="gate-both-orientations", entry="LocalHamGen.get_gate_expm", check="before"))
    old_ids = set(id(v) for v in ham.terms.values()) | _cache_ids(ham)  # integers only
    if mode == "released":
        del H2, H1
        gc.collect()
    ham.apply_to_arrays(f)
    if mode == "released":
        gc.collect()
    if max(_maxdiff(np.asarray(ham.terms[k]), want[k]) for k in keys) > 1e-12:
        return table.bad(core.problem("apply_to_arrays did not apply fn to the terms (L=%d, fn=%s, mode=%s)" % (L, fn, mode), root="apply-to-arrays", entry="LocalHamGen.apply_to_arrays", check="terms", mode=mode))
    # ---- (a) structural, before anything is requested again --------------- #
    cache = getattr(ham, "_op_cache", None)
    if hasattr(cache, "items"):
        stale = collections.Counter()
        for name, sub in cache.items():
            if not hasattr(sub, "keys"):
                continue
            for key in sub.keys():
                if any(i in old_ids for i in _key_ids(name, key)):
                    stale[name] += 1
        if stale:
            return table.bad(core.problem("right after apply_to_arrays the operation caches still hold entries keyed on the id() of term arrays from before the call (or of arrays derived from them): %r - a later request through such an id returns data of the OLD term (L=%d cyclic=%s fn=%s h1=%s kind=%s)" % (dict(sorted(stale.items())), L, cyc, fn, h1, kind), check="cache-keys", caches="+".join(sorted(stale)), **base))
    # ---- (b) behavioural --------------------------------------------------- #
    e1, w1 = request_all()
    if e1 > 1e-10:
        return table.bad(core.problem("after apply_to_arrays(%s, %s) the gate / exponential asked for as %r is not that of the current term (off by %.3g) (L=%d cyclic=%s h1=%s kind=%s)" % (fn, mode, w1, e1, L, cyc, h1, kind), check="gates-after", **base))
    if hasattr(cache, "items"):
        live = {id(v): np.asarray(v) for v in ham.terms.values()}
        fl = cache.get("flip", {}) if hasattr(cache, "get") else {}
        for i, v in list(fl.items()):
            if i in live:
                if _maxdiff(np.asarray(v), r_flip(live[i])) > 1e-12:
                    return table.bad(core.problem("flip cache entry of a live term is not its flip", check="cache-values", **base))
                live.setdefault(id(v), np.asarray(v))
        for key, v in list((cache.get("expm", {}) if hasattr(cache, "get") else {}).items()):
            if isinstance(key, tuple) and len(key) == 2 and key[0] in live:
                if _maxdiff(np.asarray(v), ref.expm_general(key[1] * live[key[0]])) > 1e-10:
                    return table.bad(core.problem("expm cache entry of a live term is not its exponential", check="cache-values", **base))
    return table.ok(key=core.sig_key(cell), nontrivial=True, outcome="cache:%s:%s" % (mode, "cyc" if cyc else "open"))


def cache_cells():
    cells = []
    for L, cyc in ((3, False), (3, True), (4, True), (6, True)):
        for mode in ("held", "inplace", "released"):
            for fn in ("scale", "conj", "shift"):
                for h1, kind in ((False, "arr"), (True, "arr"), (False, "qarr")):
                    cells.append({"L": L, "cyclic": cyc, "mode": mode, "fn": fn, "h1": h1, "kind": kind})
    return cells


# --------------------------------------------------------------------------- #
#                                   driver                                    #
# --------------------------------------------------------------------------- #


def run(ctx):
    thorough = ctx.tier == "thorough"
    only = ctx.opts.get("only")
    depth_open = int(ctx.opts.get("depth", 3 if thorough else 2))
    depth_cyc = int(ctx.opts.get("depth_cyc", 3 if thorough else 2))
    ctx.rule = (
        "A: every LocalHam class x geometry x H2 form (array, None-default + override, site specific, keys given as (j,i), both orientations) x H1 form x data kind; "
        "B: trotter_schedule(n, order) grid, get_trotter_gates order x steps x fuse x alternate x ordering x exponent on 4 geometries, MPO propagator; "
        "C: complete BFS over histories of update_to / step / at_times events per TEBD configuration (L x open/periodic x order x dt|tol x real/imag x t0 x Hamiltonian kind x split options), "
        "a state is distinct by the digest of every attribute of the TEBD object (state as dense vector) and non-trivial when the event advanced time; "
        "D: dt ladders against the exact propagator; E: every ordering (all permutations of the pairs) x reflect x class on small graphs / 2x2 PEPS; F: expm cache after apply_to_arrays. "
        "Oracle = independent numpy product formula / dense sums."
    )
    ctx.bounds = {
        "tier": ctx.tier,
        "ham_L": [2, 6],
        "tebd_L": [3, 6] if thorough else [3, 5],
        "tebd_depth_open": depth_open,
        "tebd_depth_periodic": depth_cyc,
        "orders": [1, 2, 4],
        "periodic_step_cap": CYC_STEP_CAP,
        "ladder": list(LADDER),
    }
    ctx.assumptions += [
        "two-site terms are Hermitian in TEBD runs (reference exponentials via eigh); generic non-Hermitian terms only in the Hamiltonian-object table",
        "open chains: split cutoff 0 (or a cap that cannot truncate); periodic chains: relative cutoff 1e-13 and a cap on the number of steps per history (no canonical form, bonds double with every gate)",
        "the orthogonality-centre position is not part of the state key: without truncation the result of later sweeps does not depend on the gauge",
        "odd periodic chains: the even sweep contains two overlapping bonds; either order of them and merged or unmerged queued sweeps are accepted (the property only requires first-order convergence there)",
        "step() without dt may advance by the default dt or by the step of the last update (both readings of 'self.dt' accepted); the state must match the time actually reported",
        "norm-only violations (direction of the state correct) are recorded and the history is still expanded",
        "reference step plan: whole steps while t < T - dt, then the remainder; tol -> dt by the documented rule (tol / (T * mean_norm)) ** (1 / order)",
    ]
    tm = ctx.notes.setdefault("part_wall_s", {})
    import time as _time

    def _mark(name, t0):
        tm[name] = round(_time.time() - t0, 1)

    t0 = _time.time()
    if only in (None, "A"):
        table.run(ctx, "ham_cell", ham_cells(thorough), name="A:ham class x geometry x H2 form x H1 form x kind")
        ctx.subproducts.append("A: LocalHam1D L in 2..6 x open/periodic x 8 H2 forms x 6 H1 forms x 4 data kinds complete; d=3 on two chains; LocalHamGen on 6 graphs x 5 H2 forms x 4 H1 forms x 4 kinds; 2D/3D lattices incl. periodic")
    _mark("before-B", t0)
    if only in (None, "B"):
        table.run(ctx, "sched_cell", [{"n": n, "order": o} for n in range(0, 7) for o in (1, 2, 3, 4, 6)], name="B1:trotter_schedule n x order")
        cells = []
        geoms = [("1d", 4, False), ("1d", 5, True), ("gen", "tri"), ("gen", "star4")] + ([("1d", 6, True), ("gen", "square"), ("2d", (2, 2), False)] if thorough else [])
        for geom in geoms:
            for order, steps, fuse, alt, ordering, x in itertools.product((1, 2, 4), (1, 2, 3), (True, False), (True, False), ("sort", None, "explicit-reversed-layers", "explicit-rev-pair"), ("imag", "real", "cplx")):
                if not thorough and (x == "cplx" and ordering != "sort"):
                    continue
                cells.append(dict(geom=geom, order=order, steps=steps, fuse=fuse, alt=alt, ordering=ordering, x=x))
        table.run(ctx, "gates_cell", cells, name="B2:get_trotter_gates")
        table.run(ctx, "mpo_cell", [dict(L=L, cyclic=c, order=o, x=x) for L in (3, 4, 5) for c in (False, True) for o in (1, 2) for x in ("imag", "real")], name="B3:mpo propagator")
        ctx.subproducts.append("B: schedule n in 0..6 x order in {1,2,3,4,6}; get_trotter_gates order x steps(1..3) x fuse x alternate x 4 orderings x exponent kind complete on each geometry")
    _mark("before-F", t0)
    if only in (None, "F"):
        table.run(ctx, "cache_cell", cache_cells(), name="F:expm cache after apply_to_arrays")
    _mark("before-D", t0)
    if only in (None, "D"):
        table.run(ctx, "conv_cell", conv_cells(thorough), name="D:convergence ladders", chunk=1)
        ctx.subproducts.append("D: L x open/periodic x order x real/imag x Hamiltonian kind ladders complete")
    _mark("before-E", t0)
    if only in (None, "E"):
        table.run(ctx, "gen_cell", gen_cells(thorough), name="E:gen sweeps class x graph x ordering x reflect", chunk=2)
        ctx.subproducts.append("E: TEBDGen/SimpleUpdateGen x 4 graphs x ALL permutations of the pairs x reflect complete; TEBD2D/SimpleUpdate on 2x2 x 6 orderings x reflect")
    _mark("before-C", t0)
    ctx.notes["menu_preconditions"] = [
        "step()/step(dt=) offered only when a step size is defined (dt given at construction, or after an update chose one in tol mode)",
        "periodic chains: an event is offered only while the number of library steps of the whole history stays <= %r (per order); every cut is a bond-dimension guard, not a domain restriction" % (CYC_STEP_CAP,),
        "tol mode: a target below the current time by less than TARGET_TOL (1e-13) is not offered: choose_time_step gets a negative interval and update_to(order=1) loops forever (same root cause as the known finding tol-zero-interval, where the interval is exactly zero)",
        "backward targets and dt/tol conflicts are offered on purpose: they must be rejected (NotImplementedError / ValueError) and leave t, err and the state untouched",
    ]
    if only in (None, "C"):
        run_tebd(ctx, depth_open, depth_cyc, thorough)
        _mark("total", t0)
        ctx.subproducts.append("C: every TEBD configuration explored to depth %d (open) / %d (periodic, within the step cap) with the full event menu" % (depth_open, depth_cyc))


def replay(case):
    import sys

    if case.get("engine") == "tebd":
        return tebd_replay(case)
    return table.replay(sys.modules[__name__], case)

"""C03 domain table: receivers, per-method argument recipes, reflection.

Every recipe is a thunk ``(x, H) -> (args, kwargs)`` evaluated on the freshly
built receiver ``x`` so labels / tags exist; all data comes from
``alphabet.fill`` (pure function of VERIF_SEED and a key).
"""

from __future__ import annotations

import functools
import inspect
import operator

import numpy as np

from ..alphabet import fill

# --------------------------------------------------------------------------- #
#                                   helper                                    #
# --------------------------------------------------------------------------- #


class _H:
    """Deterministic data for arguments."""

    @staticmethod
    def arr(shape, key, dtype="complex128", kind="generic", **kw):
        return fill(kind, shape, dtype, key=("c03arg", key), **kw)

    @staticmethod
    def tensor(shape, inds, tags=(), key="t", dtype="complex128", kind="generic", **kw):
        import quimb.tensor as qtn

        return qtn.Tensor(_H.arr(shape, key, dtype, kind, **kw), inds, tags)

    @staticmethod
    def unitary(n, key, dtype="complex128"):
        return fill("unitary", (n, n), dtype, key=("c03arg", key))


H = _H


def seed_everything():
    import quimb as qu

    np.random.seed(12345)
    try:
        qu.seed_rand(12345)
    except Exception:  # pragma: no cover
        pass


def _refill(tn, key, dtype=None, kind="generic"):
    """Overwrite all data of a structured network built by a quimb generator
    (used for its shapes only) with alphabet data."""
    for i, t in enumerate(tn.tensor_map.values()):
        dt = dtype or str(t.dtype)
        t.modify(data=fill(kind, t.shape, dt, key=("c03recv", key, i)))
    return tn


# --------------------------------------------------------------------------- #
#                                  receivers                                  #
# --------------------------------------------------------------------------- #

_RECV = {}


def receiver(name):
    def deco(fn):
        _RECV[name] = fn
        return fn

    return deco


def build_receiver(name):
    return _RECV[name]()


def _T(shape, inds, tags, key, dtype="complex128", kind="generic", left_inds=None, **kw):
    import quimb.tensor as qtn

    return qtn.Tensor(fill(kind, shape, dtype, key=("c03recv", key), **kw), inds, tags, left_inds=left_inds)


@receiver("T.abc")
def _():
    return _T((2, 3, 2), ("a", "b", "c"), ("X", "Y"), "T.abc")


@receiver("T.left")
def _():
    return _T((2, 3, 4), ("a", "b", "c"), ("X",), "T.left", dtype="float64", left_inds=("a", "b"))


@receiver("T.sq")
def _():
    return _T((2, 2, 3), ("a", "b", "c"), ("X", "Y"), "T.sq", dtype="float64")


@receiver("T.one")
def _():
    return _T((2, 1, 3), ("a", "e", "b"), ("X",), "T.one")


@receiver("T.rep")
def _():
    return _T((2, 2, 3), ("a", "a", "b"), ("X",), "T.rep", dtype="float64")


@receiver("T.fused")
def _():
    return _T((6, 2), ("ab", "c"), ("X",), "T.fused")


def _TN(ts, exponent=0.0):
    import quimb.tensor as qtn

    tn = qtn.TensorNetwork(ts)
    tn.exponent = exponent
    return tn


@receiver("N.loop")
def _():
    # 3-cycle, one outer label per tensor, non-zero exponent
    return _TN(
        [
            _T((2, 2, 3), ("a", "x", "z"), ("A", "G"), "N.loop.A"),
            _T((2, 2, 3), ("x", "y", "b"), ("B", "G"), "N.loop.B"),
            _T((2, 3, 2), ("y", "z", "c"), ("C",), "N.loop.C"),
        ],
        exponent=0.5,
    )


@receiver("N.multi")
def _():
    # chain with a multibond (x, w) between A and B
    return _TN(
        [
            _T((2, 2, 2), ("a", "x", "w"), ("A", "G"), "N.multi.A", dtype="float64"),
            _T((2, 2, 3), ("x", "w", "y"), ("B", "G"), "N.multi.B", dtype="float64"),
            _T((3, 2), ("y", "c"), ("C",), "N.multi.C", dtype="float64"),
        ]
    )


@receiver("N.hyper")
def _():
    # hyper label h on three tensors
    return _TN(
        [
            _T((2, 3), ("a", "h"), ("A",), "N.hyper.A"),
            _T((3, 2), ("h", "b"), ("B",), "N.hyper.B"),
            _T((3, 2), ("h", "c"), ("C",), "N.hyper.C"),
        ]
    )


@receiver("N.struct")
def _():
    # generic ends around structured tensors (one per simplification shortcut)
    return _TN(
        [
            _T((2, 3), ("a", "p"), ("A",), "N.struct.A", dtype="float64"),
            _T((3, 3), ("p", "q"), ("D",), "N.struct.D", dtype="float64", kind="diag"),
            _T((3, 3), ("q", "r"), ("E",), "N.struct.E", dtype="float64", kind="antidiag"),
            _T((3, 2), ("r", "s"), ("F",), "N.struct.F", dtype="float64", kind="onehot-column"),
            _T((2, 2, 2), ("s", "b", "c"), ("R",), "N.struct.R", dtype="float64", kind="rank1"),
        ]
    )


@receiver("N.tree")
def _():
    # star/tree: centre B with three leaves
    return _TN(
        [
            _T((2, 2, 2), ("x", "y", "z"), ("B",), "N.tree.B"),
            _T((2, 2), ("a", "x"), ("A",), "N.tree.A"),
            _T((2, 2), ("y", "c"), ("C",), "N.tree.C"),
            _T((2, 3), ("z", "d"), ("Dd",), "N.tree.D"),
        ],
        exponent=-0.25,
    )


@receiver("N.left")
def _():
    # tensors carrying left_inds (for isometrize / unitize)
    return _TN(
        [
            _T((3, 2), ("a", "x"), ("A",), "N.left.A", dtype="float64", left_inds=("a",)),
            _T((2, 3, 2), ("x", "b", "y"), ("B",), "N.left.B", dtype="float64", left_inds=("x", "b")),
            _T((2, 2), ("y", "c"), ("C",), "N.left.C", dtype="float64", left_inds=("y",)),
        ]
    )


@receiver("N.braket")
def _():
    # <bra| |ket> overlap-like network with one bond between the layers
    return _TN(
        [
            _T((2, 3), ("a", "x"), ("K0", "KET"), "N.braket.K0"),
            _T((3, 2), ("x", "m"), ("K1", "KET"), "N.braket.K1"),
            _T((2, 3), ("m", "y"), ("B1", "BRA"), "N.braket.B1"),
            _T((3, 2), ("y", "b"), ("B0", "BRA"), "N.braket.B0"),
        ]
    )


@receiver("N.op")
def _():
    # operator-like network: upper k0,k1 / lower b0,b1
    return _TN(
        [
            _T((2, 2, 2), ("k0", "b0", "x"), ("I0",), "N.op.0"),
            _T((2, 2, 2), ("x", "k1", "b1"), ("I1",), "N.op.1"),
        ]
    )


def _gen_vec():
    import quimb.tensor as qtn

    tn = qtn.TN_from_edges_rand([(0, 1), (1, 2), (2, 0)], D=2, phys_dim=2, seed=7, dtype="complex128")
    return _refill(tn, "G.vec")


@receiver("G.vec")
def _():
    return _gen_vec()


@receiver("G.op")
def _():
    import quimb.tensor as qtn

    ts = [
        _T((2, 2, 2, 2), ("k0", "b0", "u", "w"), ("I0",), "G.op.0"),
        _T((2, 2, 2, 2), ("k1", "b1", "u", "v"), ("I1",), "G.op.1"),
        _T((2, 2, 2, 2), ("k2", "b2", "v", "w"), ("I2",), "G.op.2"),
    ]
    tn = qtn.TensorNetwork(ts)
    return tn.view_as_(qtn.TensorNetworkGenOperator, sites=(0, 1, 2), site_tag_id="I{}", upper_ind_id="k{}", lower_ind_id="b{}")


@receiver("M.mps3")
def _():
    import quimb.tensor as qtn

    arrays = [
        fill("generic", (2, 2), "complex128", key=("c03recv", "M.mps3", 0)),
        fill("generic", (2, 2, 3), "complex128", key=("c03recv", "M.mps3", 1)),
        fill("generic", (2, 2), "complex128", key=("c03recv", "M.mps3", 2)),
    ]
    return qtn.MatrixProductState(arrays, shape="lrp")


@receiver("M.mps4")
def _():
    import quimb.tensor as qtn

    arrays = [
        fill("generic", (2, 2), "complex128", key=("c03recv", "M.mps4", 0)),
        fill("generic", (2, 3, 2), "complex128", key=("c03recv", "M.mps4", 1)),
        fill("generic", (3, 2, 2), "complex128", key=("c03recv", "M.mps4", 2)),
        fill("generic", (2, 2), "complex128", key=("c03recv", "M.mps4", 3)),
    ]
    return qtn.MatrixProductState(arrays, shape="lrp")


@receiver("M.mpo3")
def _():
    import quimb.tensor as qtn

    arrays = [
        fill("generic", (2, 2, 2), "complex128", key=("c03recv", "M.mpo3", 0)),
        fill("generic", (2, 3, 2, 2), "complex128", key=("c03recv", "M.mpo3", 1)),
        fill("generic", (3, 2, 2), "complex128", key=("c03recv", "M.mpo3", 2)),
    ]
    return qtn.MatrixProductOperator(arrays, shape="lrud")


@receiver("P.peps")
def _():
    import quimb.tensor as qtn

    return _refill(qtn.PEPS.rand(2, 2, 2, seed=3, dtype="complex128"), "P.peps")


@receiver("P.pepo")
def _():
    import quimb.tensor as qtn

    return _refill(qtn.PEPO.rand(2, 2, 2, seed=3, dtype="complex128"), "P.pepo")


@receiver("P.tn2d")
def _():
    import quimb.tensor as qtn

    return _refill(qtn.TN2D_rand(2, 3, 2, seed=3, dtype="float64"), "P.tn2d")


@receiver("Q.peps3d")
def _():
    import quimb.tensor as qtn

    return _refill(qtn.PEPS3D.rand(2, 2, 1, 2, seed=3, dtype="complex128"), "Q.peps3d")


@receiver("Q.tn3d")
def _():
    import quimb.tensor as qtn

    return _refill(qtn.TN3D_rand(2, 2, 2, 2, seed=3, dtype="float64"), "Q.tn3d")


THOROUGH_RECEIVERS = {"P.pepo", "Q.peps3d", "Q.tn3d"}

# --------------------------------------------------------------------------- #
#                                  operators                                  #
# --------------------------------------------------------------------------- #

OPERATORS = {
    "op:add": operator.add,
    "op:sub": operator.sub,
    "op:mul": operator.mul,
    "op:truediv": operator.truediv,
    "op:pow": operator.pow,
    "op:matmul": operator.matmul,
    "op:and": operator.and_,
    "op:or": operator.or_,
    "op:neg": operator.neg,
    "op:radd": lambda x, o: o + x,
    "op:rsub": lambda x, o: o - x,
    "op:rmul": lambda x, o: o * x,
    "op:rtruediv": lambda x, o: o / x,
    "op:rpow": lambda x, o: o**x,
    "op:imul": operator.imul,
    "op:itruediv": operator.itruediv,
    "op:iand": operator.iand,
    "op:ior": operator.ior,
}

# documented exemptions (reported in the evidence)
EXEMPTIONS = {}

# --------------------------------------------------------------------------- #
#                                   entries                                   #
# --------------------------------------------------------------------------- #

_ENTRIES = []
_BY_ID = {}
_GROUP = ["T"]


def group(g):
    _GROUP[0] = g


def D(name, recvs, args=None, label="", flags="", inplace="auto", thorough_only=False, why=None):
    """Declare one domain entry.  flags (space separated):
    dense / value : comparison mode under storage variants (gauge dependent)
    noperm / noorder : positional by definition (stated in ``why``)
    alias-ok, impure-ok, inplace-returns-other, spelling-differs-ok : documented
    """
    if isinstance(recvs, str):
        recvs = recvs.split()
    eid = "%s:%s|%s" % (_GROUP[0], name, label)
    if eid in _BY_ID:
        raise KeyError("duplicate entry " + eid)
    fl = set(flags.split())
    ent = {
        "id": eid,
        "name": name,
        "label": label,
        "recvs": list(recvs),
        "args": args or (lambda x, H: ((), {})),
        "flags": fl,
        "inplace_spec": inplace,
        "thorough_only": thorough_only,
    }
    if why:
        EXEMPTIONS[eid] = "%s: %s" % (" ".join(sorted(fl)), why)
    _ENTRIES.append(ent)
    _BY_ID[eid] = ent
    return ent


def entries():
    return list(_ENTRIES)


def _owner(cls, name):
    for k in cls.__mro__:
        if name in vars(k):
            return k.__name__
    return cls.__name__


@functools.lru_cache(maxsize=None)
def _recv_class(rname):
    return type(build_receiver(rname))


def entry(eid, rname):
    """Entry resolved against the class of receiver ``rname``: owner class,
    plain / in-place spelling."""
    ent = dict(_BY_ID[eid])
    cls = _recv_class(rname)
    name = ent["name"]
    if name in OPERATORS:
        ent["owner"] = cls.__mro__[-2].__name__ if cls.__mro__[-2].__name__ in ("Tensor", "TensorNetwork") else cls.__name__
        ent["plain"] = name
        spec = ent["inplace_spec"]
        ent["inplace"] = (spec, {}) if spec not in ("auto", None) else None
        return ent
    ent["owner"] = _owner(cls, name)
    ent["plain"] = name
    spec = ent["inplace_spec"]
    if spec is None:
        ent["inplace"] = None
        return ent
    f = getattr(cls, name)
    try:
        params = inspect.signature(f).parameters
    except (TypeError, ValueError):
        params = {}
    if hasattr(cls, name + "_"):
        ent["inplace"] = (name + "_", {})
        if "inplace" in params and params["inplace"].default is not False:
            ent["plain_kw"] = {"inplace": False}
    elif "inplace" in params:
        ent["inplace"] = (name, {"inplace": True})
        ent["plain_kw"] = {"inplace": False}
    else:
        ent["inplace"] = None
    return ent


# --------------------------------------------------------------------------- #
#                          reflection / coverage report                       #
# --------------------------------------------------------------------------- #


def reflect_classes():
    import quimb.tensor as qtn

    return [
        qtn.Tensor,
        qtn.TensorNetwork,
        qtn.TensorNetworkGen,
        qtn.TensorNetworkGenVector,
        qtn.TensorNetworkGenOperator,
        qtn.MatrixProductState,
        qtn.MatrixProductOperator,
        qtn.PEPS,
        qtn.PEPO,
        qtn.TensorNetwork2D,
        qtn.PEPS3D,
        qtn.TensorNetwork3D,
    ]


def discover():
    """{(owner class, method name): kind} over the reflected classes; kind is
    'pair' (f and f_ both exist) or 'inplace-kw'."""
    found = {}
    for cls in reflect_classes():
        names = [n for n in dir(cls) if not n.startswith("_")]
        pairs = {n[:-1] for n in names if n.endswith("_") and n[:-1] in names}
        for p in sorted(pairs):
            found.setdefault((_owner(cls, p), p), "pair")
        for n in names:
            if n.endswith("_") or n in pairs:
                continue
            f = getattr(cls, n)
            if not callable(f):
                continue
            try:
                sig = inspect.signature(f)
            except (TypeError, ValueError):
                continue
            if "inplace" in sig.parameters:
                found.setdefault((_owner(cls, n), n), "inplace-kw")
    return found


def coverage_report():
    found = discover()
    covered = set()
    for ent in _ENTRIES:
        if ent["name"] in OPERATORS:
            continue
        for r in ent["recvs"]:
            covered.add((_owner(_recv_class(r), ent["name"]), ent["name"]))
    unc = sorted("%s.%s" % k for k in found if k not in covered)
    return {"n_pairs": len(found), "n_covered": len([k for k in found if k in covered]), "uncovered": unc}


# --------------------------------------------------------------------------- #
#                           Tensor: pairs + operators                         #
# --------------------------------------------------------------------------- #

TALL = "T.abc T.left T.sq T.one"

D("astype", "T.abc T.sq", lambda x, H: (("complex64",), {}), "c64")
D("astype", "T.sq", lambda x, H: (("float32",), {}), "f32")
D("collapse_repeated", "T.rep T.abc")
D("conj", TALL)
D("direct_product", "T.abc", lambda x, H: ((H.tensor((2, 3, 2), ("a", "b", "c"), ("Z",), "dp"),), {}), "all")
D("direct_product", "T.abc", lambda x, H: ((H.tensor((3, 2, 2), ("b", "c", "a"), ("Z",), "dp2"),), {"sum_inds": ("a",)}), "sum-a")
D("direct_product", "T.abc", lambda x, H: ((H.tensor((2, 2, 3), ("c", "a", "b"), ("Z",), "dp3"),), {"sum_inds": ("c", "a")}), "sum-ca")
D("flip", "T.abc T.sq", lambda x, H: (("b",), {}), "b")
D("fuse", "T.abc T.left", lambda x, H: (({"ab": ("a", "b")},), {}), "ab")
D("fuse", "T.abc", lambda x, H: (({"ca": ("c", "a")},), {}), "ca")
D("fuse", "T.abc", lambda x, H: (({"cba": ("c", "b", "a")},), {}), "cba")
D("fuse", "T.one", lambda x, H: (({"ae": ("a", "e")},), {}), "ae")
D("gate", "T.abc T.left", lambda x, H: ((H.arr((3, 3), "g3"), "b"), {}), "b")
D("gate", "T.abc", lambda x, H: ((H.arr((3, 3), "g3"), "b"), {"transpose": True}), "b-T")
D("gate", "T.abc", lambda x, H: ((H.arr((4, 2), "g42"), "c"), {}), "c-rect")
D("isel", TALL, lambda x, H: (({"b": 0},), {}), "b0")
D("isel", "T.abc", lambda x, H: (({"b": slice(0, 2)},), {}), "b-slice")
D("isel", "T.abc", lambda x, H: (({"a": 1, "c": 0},), {}), "a1c0")
D("isel", "T.rep", lambda x, H: (({"a": 1},), {}), "rep")
D("isometrize", "T.left T.abc", lambda x, H: ((("a", "b"),), {"method": "svd"}), "svd")
D("isometrize", "T.left", lambda x, H: ((), {"method": "qr"}), "qr-stored", "noperm", why="QR orthogonalises columns in stored order of the right labels: positional by definition")
D("unitize", "T.left", lambda x, H: ((("a", "b"),), {"method": "svd"}), "svd")
D("moveindex", "T.abc", lambda x, H: (("c", 0), {}), "c0")
D("moveindex", "T.abc T.one", lambda x, H: (("a", -1), {}), "a-1")
D("multiply_index_diagonal", TALL, lambda x, H: (("b", H.arr((x.ind_size("b"),), "mid")), {}), "b")
D("negate", "T.abc T.sq")
D("new_ind_pair_diag", "T.abc T.left", lambda x, H: (("b", "b1", "b2"), {}), "b")
D("new_ind_pair_with_identity", "T.abc", lambda x, H: (("l", "r", 2), {}), "lr2")
D("normalize", "T.abc T.left")
D("rand_reduce", "T.abc", lambda x, H: (("b",), {"seed": 11}), "b")
D("randomize", "T.abc T.sq", lambda x, H: ((), {"seed": 5}), "seed", "noperm", why="fresh random entries are laid out in stored order: positional by definition")
D("reindex", TALL, lambda x, H: (({"a": "z"},), {}), "a->z")
D("reindex", "T.abc", lambda x, H: (({"a": "c", "c": "a"},), {}), "swap")
D("retag", "T.abc", lambda x, H: (({"X": "Q"},), {}), "X->Q")
D("retag", "T.abc", lambda x, H: (({"X": "Y"},), {}), "merge")
D("squeeze", "T.one T.abc")
D("squeeze", "T.one", lambda x, H: ((), {"include": ("e",)}), "include")
D("squeeze", "T.one", lambda x, H: ((), {"exclude": ("e",)}), "exclude")
D("sum_reduce", TALL, lambda x, H: (("b",), {}), "b")
D("sum_reduce", "T.abc", lambda x, H: (("a",), {}), "a")
D("symmetrize", "T.sq", lambda x, H: (("a", "b"), {}), "ab")
D("symmetrize", "T.sq", lambda x, H: (("b", "a"), {}), "ba")
D("to", "T.abc", lambda x, H: ((), {"dtype": "complex64"}), "dtype")
D("transpose", "T.abc T.left", lambda x, H: (("c", "a", "b"), {}), "cab")
D("transpose", "T.one", lambda x, H: (("b", "e", "a"), {}), "bea")
D("transpose_like", "T.abc", lambda x, H: ((H.tensor((2, 3, 2), ("c", "b", "a"), ("Z",), "tl"),), {}), "cba")
D("transpose_like", "T.abc", lambda x, H: ((H.tensor((2, 3, 2), ("c", "b", "q"), ("Z",), "tl2"),), {}), "one-unmatched")
D("unfuse", "T.fused", lambda x, H: (({"ab": ("a", "b")}, {"ab": (2, 3)}), {}), "ab")
D("vector_reduce", TALL, lambda x, H: (("b", H.arr((x.ind_size("b"),), "vr")), {}), "b")
D("trace", "T.sq", lambda x, H: (("a", "b"), {}), "ab")
D("trace", "T.sq", lambda x, H: (("a", "b"), {"preserve_tensor": True}), "ab-keep")

# binary operators: align and broadcast by label
D("op:add", "T.abc", lambda x, H: ((H.tensor((2, 2, 3), ("c", "a", "b"), ("Z",), "o1"),), {}), "same-labels")
D("op:sub", "T.abc", lambda x, H: ((H.tensor((3, 2), ("b", "c"), ("Z",), "o2"),), {}), "subset")
D("op:mul", "T.abc", lambda x, H: ((H.tensor((3, 4), ("b", "d"), ("Z",), "o3"),), {}), "extra-label")
D("op:truediv", "T.abc", lambda x, H: ((H.tensor((2, 3), ("c", "b"), ("Z",), "o4", kind="positive"),), {}), "subset")
D("op:pow", "T.sq", lambda x, H: ((2,), {}), "scalar")
D("op:mul", "T.abc", lambda x, H: ((2.5,), {}), "scalar")
D("op:add", "T.abc", lambda x, H: ((1.5,), {}), "scalar")
D("op:truediv", "T.abc", lambda x, H: ((2.0,), {}), "scalar")
D("op:radd", "T.abc", lambda x, H: ((1.5,), {}), "scalar")
D("op:rsub", "T.abc", lambda x, H: ((1.5,), {}), "scalar")
D("op:rmul", "T.abc", lambda x, H: ((2.5,), {}), "scalar")
D("op:rtruediv", "T.abc", lambda x, H: ((2.0,), {}), "scalar")
D("op:rpow", "T.sq", lambda x, H: ((2.0,), {}), "scalar")
D("op:neg", "T.abc")
D("op:matmul", "T.abc", lambda x, H: ((H.tensor((3, 2, 4), ("b", "c", "d"), ("Z",), "o5"),), {}), "contract-bc")
D("op:matmul", "T.abc", lambda x, H: ((H.tensor((2, 2, 3), ("c", "a", "b"), ("Z",), "o6"),), {}), "to-scalar")
D("op:and", "T.abc", lambda x, H: ((H.tensor((3, 4), ("b", "d"), ("Z",), "o7"),), {}), "tensor")
D("op:or", "T.abc", lambda x, H: ((H.tensor((3, 4), ("b", "d"), ("Z",), "o8"),), {}), "tensor", "alias-ok", why="| is the documented virtual combination (result views the operands)")

# --------------------------------------------------------------------------- #
#                               TensorNetwork                                 #
# --------------------------------------------------------------------------- #

group("N")
NGEN = "N.loop N.multi N.hyper"
NALL = "N.loop N.multi N.hyper N.struct N.tree"
GAUGE_WHY = "QR/SVD based: individual tensors are gauge dependent, only the labelled whole is compared"

D("antidiag_gauge", "N.struct N.loop")
D("astype", "N.loop N.multi", lambda x, H: (("complex64",), {}), "c64")
D("balance_bonds", "N.loop N.multi N.tree")
D("canonize_around", "N.tree N.loop", lambda x, H: (("B",), {}), "B", "dense", why=GAUGE_WHY)
D("canonize_around", "N.tree", lambda x, H: (("A",), {"max_distance": 1, "absorb": "left"}), "A-d1-left", "dense", why=GAUGE_WHY)
D("column_reduce", "N.struct N.loop")
D("compress_all", "N.loop N.tree N.multi", lambda x, H: ((), {"cutoff": 1e-10}), "default", "dense", why=GAUGE_WHY)
D("compress_all", "N.loop", lambda x, H: ((), {"max_bond": 1, "cutoff": 0.0, "canonize": False}), "chi1-nocanon", "dense noperm noorder", why="truncating compression of a loop is sequential: order of bonds is documented to follow tensor order")
D("compress_all_1d", "N.multi N.tree", lambda x, H: ((), {}), "default", "dense", why=GAUGE_WHY)
D("compress_all_simple", "N.loop N.tree", lambda x, H: ((), {"max_iterations": 3}), "default", "dense", why=GAUGE_WHY)
D("compress_all_tree", "N.tree N.multi", lambda x, H: ((), {}), "default", "dense", why=GAUGE_WHY)
D("compress_simplify", "N.struct N.loop", lambda x, H: ((), {"output_inds": tuple(x.outer_inds())}), "default", "value", why="simplification sequence may legitimately choose other intermediate structure; value compared")
D("conj", NALL)
D("conj", "N.loop", lambda x, H: ((), {"mangle_inner": True}), "mangle", "dense", why="mangled inner labels are fresh names")
D("contract", NALL, lambda x, H: ((), {}), "all", inplace=None)
D("contract", "N.loop N.tree", lambda x, H: ((("A", "B"),), {}), "tags-AB")
D("contract", "N.loop N.hyper", lambda x, H: ((...,), {"output_inds": ("c", "a")}), "all-out-ca", inplace=None)
D("contract", "N.loop", lambda x, H: ((), {"strip_exponent": True}), "strip", inplace=None)
D("contract_around", "N.tree N.loop", lambda x, H: (("B",), {}), "B", "dense", why=GAUGE_WHY)
D("contract_tags", "N.loop N.multi N.tree", lambda x, H: ((("A", "B"),), {}), "AB-any")
D("contract_tags", "N.loop", lambda x, H: ((("A", "G"),), {"which": "all"}), "AG-all")
D("contract_tags", "N.loop", lambda x, H: ((("A", "B"),), {"strip_exponent": True}), "AB-strip")
D("contract_tags", "N.hyper", lambda x, H: ((("A", "B"),), {}), "hyper-AB")
D("contract_cumulative", "N.loop N.tree", lambda x, H: ((["A", "B", "C"],), {}), "ABC", inplace=None)
D("contract_cumulative", "N.tree", lambda x, H: ((["A", "B"],), {}), "AB")
D("diagonal_reduce", "N.struct N.loop")
D("drape_bond_between", "N.loop", lambda x, H: (("A", "B", "C"), {"left_ind": "l", "right_ind": "r"}), "ABC")
D("drape_bond_between", "N.multi", lambda x, H: (("A", "B", "C"), {"left_ind": "l", "right_ind": "r"}), "multibond", "dense", why="multibond is fused first (gauge free but fresh labels)")
D("equalize_norms", NALL)
D("equalize_norms", "N.loop N.tree", lambda x, H: ((1.0,), {}), "one")
D("expand_bond_dimension", "N.loop N.tree", lambda x, H: ((4,), {}), "to4")
D("expand_bond_dimension", "N.loop", lambda x, H: ((4,), {"inds_to_expand": ("x",)}), "x-to4")
D("flip", "N.loop N.hyper", lambda x, H: ((["a"],), {}), "a")
D("flip", "N.loop", lambda x, H: ((["x", "c"],), {}), "xc")
D("full_simplify", "N.struct N.loop N.tree", lambda x, H: ((), {"output_inds": tuple(x.outer_inds())}), "default", "value", why="simplification may legitimately pick other intermediate structure; value compared")
D("fuse_multibonds", "N.multi N.loop")
D("gate_inds", "N.loop N.hyper", lambda x, H: ((H.arr((2, 2), "gi1"), ["a"]), {}), "1-lazy")
D("gate_inds", "N.loop", lambda x, H: ((H.arr((2, 2), "gi1"), ["a"]), {"contract": True}), "1-contract")
D("gate_inds", "N.loop", lambda x, H: ((H.arr((4, 4), "gi2"), ["a", "c"]), {"contract": False}), "2-lazy")
D("gate_inds", "N.loop", lambda x, H: ((H.arr((4, 4), "gi2"), ["c", "a"]), {"contract": True}), "2-contract")
D("gate_inds", "N.tree", lambda x, H: ((H.arr((4, 4), "gi2"), ["a", "c"]), {"contract": "split", "cutoff": 0.0}), "2-split", "dense", why=GAUGE_WHY)
D("gate_inds", "N.tree", lambda x, H: ((H.arr((4, 4), "gi2"), ["a", "c"]), {"contract": "reduce-split", "cutoff": 0.0}), "2-reduce-split", "dense", why=GAUGE_WHY)
D("gate_inds", "N.loop", lambda x, H: ((H.arr((2, 2, 2, 2), "gi3"), ["a", "c"]), {"contract": False, "tags": ["GATE"]}), "2-tensorshape")
D("gate_inds", "N.loop", lambda x, H: ((H.arr((2, 2), "gi1"), ["a"]), {"transpose": True, "contract": True}), "1-transpose")
D("gate_inds", "N.loop", lambda x, H: ((H.arr((2, 2), "gi1"), ["a"]), {"dagger": True, "contract": True}), "1-dagger")
D(
    "gate_inds_with_tn",
    "N.loop N.hyper",
    lambda x, H: ((["a", "b"], H.tensor((2, 2, 2, 2), ("i0", "i1", "o0", "o1"), ("GT",), "giwt") & H.tensor((2,), ("zz",), ("GU",), "giwt2").isel({"zz": 0}), ["i0", "i1"], ["o0", "o1"]), {}),
    "ab",
)
D("gate_sandwich_inds", "N.op", lambda x, H: ((H.arr((2, 2), "gsi"), ["k0"], ["b0"]), {}), "1")
D("gate_sandwich_inds", "N.op", lambda x, H: ((H.arr((4, 4), "gsi2"), ["k0", "k1"], ["b0", "b1"]), {"contract": True}), "2-contract")
D("gauge_all", "N.loop N.tree", lambda x, H: ((), {"method": "canonize"}), "canonize", "dense", why=GAUGE_WHY)
D("gauge_all_belief_propagation", "N.tree", lambda x, H: ((), {"max_iterations": 4}), "default", "dense", why=GAUGE_WHY, thorough_only=True)
D("gauge_all_canonize", "N.loop N.tree", lambda x, H: ((), {"max_iterations": 2}), "it2", "dense", why=GAUGE_WHY)
D("gauge_all_random", "N.loop", lambda x, H: ((), {"seed": 3}), "seed", "dense noperm noorder", why="random gauges are drawn per bond in network order: positional by definition")
D("gauge_all_simple", "N.loop N.tree", lambda x, H: ((), {"max_iterations": 3}), "it3", "dense", why=GAUGE_WHY)
D("gauge_local", "N.tree N.loop", lambda x, H: (("B",), {}), "B", "dense", why=GAUGE_WHY)
D("hyperinds_resolve", "N.hyper", lambda x, H: ((), {"mode": "dense"}), "dense", "dense", why="fresh labels")
D("hyperinds_resolve", "N.hyper", lambda x, H: ((), {"mode": "sparse"}), "sparse", "dense", why="fresh labels")
D("hyperinds_resolve", "N.hyper", lambda x, H: ((), {"mode": "tree"}), "tree", "value", why="tree shape follows the documented sorter (tensor order)")
D("insert_compressor_between_regions", "N.loop", lambda x, H: ((["A"], ["B", "C"]), {"max_bond": 4, "cutoff": 0.0}), "A|BC", "value", why=GAUGE_WHY)
D("insert_operator", "N.braket", lambda x, H: ((H.arr((2, 2), "io"), "K1", "B1"), {"tags": ["OP"]}), "m")
D("isel", NGEN, lambda x, H: (({"a": 1},), {}), "a1")
D("isel", "N.loop", lambda x, H: (({"x": 0, "c": 1},), {}), "x0c1")
D("isel", "N.hyper", lambda x, H: (({"h": 2},), {}), "h2")
D("isometrize", "N.left", lambda x, H: ((), {"method": "svd"}), "svd")
D("unitize", "N.left", lambda x, H: ((), {"method": "svd"}), "svd")
D("loop_simplify", "N.loop N.struct", lambda x, H: ((), {"output_inds": tuple(x.outer_inds())}), "default", "value", why="simplification; value compared")
D("multiply", NGEN, lambda x, H: ((2.5,), {}), "2.5")
D("multiply", "N.loop", lambda x, H: ((-0.5 + 1j,), {"spread_over": 2}), "complex-spread2")
D("multiply", "N.loop", lambda x, H: ((3.0,), {"spread_over": "all"}), "spread-all")
D("multiply_each", NGEN, lambda x, H: ((1.5,), {}), "1.5")
D("negate", "N.loop N.hyper")
D("pair_simplify", "N.struct N.loop N.tree", lambda x, H: ((), {"output_inds": tuple(x.outer_inds())}), "default", "value", why="simplification; value compared")
D("randomize", "N.loop", lambda x, H: ((), {"seed": 1}), "seed", "noperm noorder", why="fresh random entries are laid out in stored order")
D("rank_simplify", "N.struct N.loop N.tree N.hyper", lambda x, H: ((), {"output_inds": tuple(x.outer_inds())}), "default", "value", why="simplification; value compared")
D("reindex", NGEN, lambda x, H: (({"a": "q"},), {}), "a->q")
D("reindex", "N.loop", lambda x, H: (({"x": "y", "y": "x"},), {}), "swap-inner")
D("reindex", "N.loop", lambda x, H: (({"a": "c", "c": "a"},), {}), "swap-outer")
D("replace_with_identity", "N.braket", lambda x, H: ((["K1", "B1"],), {}), "K1B1")
D("replace_with_svd", "N.loop", lambda x, H: ((["A", "B"], ["a", "b"], 1e-12), {"method": "svd", "ltags": ["L"], "rtags": ["R"]}), "AB-svd", "dense", why=GAUGE_WHY)
D("retag", NGEN, lambda x, H: (({"A": "Q"},), {}), "A->Q")
D("retag", "N.loop", lambda x, H: (({"A": "C"},), {}), "merge")
D("split_simplify", "N.struct N.loop", lambda x, H: ((), {}), "default", "value", why="simplification; value compared")
D("squeeze", "N.loop")
D("squeeze", "N.struct", lambda x, H: ((), {}), "after-isel")
D("sum_reduce", NGEN, lambda x, H: (("a",), {}), "a")
D("to", "N.loop", lambda x, H: ((), {"dtype": "complex64"}), "dtype")
D("vector_reduce", NGEN, lambda x, H: (("a", H.arr((2,), "vr")), {}), "a")
D("view_as", "N.op", lambda x, H: ((_qtn().TensorNetworkGenOperator,), {"sites": (0, 1), "site_tag_id": "I{}", "upper_ind_id": "k{}", "lower_ind_id": "b{}"}), "genop")
D("view_like", "N.op", lambda x, H: ((build_receiver("G.op"),), {}), "genop")
D("from_TN", "N.op", lambda x, H: ((), {"like": build_receiver("G.op")}), "genop")
D("partition", "N.loop", lambda x, H: ((["A", "B"],), {}), "AB", "inplace-returns-other")
D("partition_tensors", "N.loop", lambda x, H: ((["A", "B"],), {}), "AB", "inplace-returns-other")
D("fit", "N.tree", lambda x, H: ((build_receiver("N.tree").multiply_each(1.1),), {"method": "als", "steps": 3, "tol": 0.0}), "als-3", "noperm noorder", why="iterative optimiser: sweep order follows tensor order", thorough_only=True)

# operators on networks
D("op:and", "N.loop", lambda x, H: ((H.tensor((2, 3), ("c", "d"), ("Z",), "na"),), {}), "tensor", inplace="op:iand")
D("op:and", "N.loop", lambda x, H: ((build_receiver("N.tree").reindex({"a": "c", "c": "cc", "x": "x2", "y": "y2", "z": "z2"}),), {}), "network", inplace="op:iand")
D("op:or", "N.loop", lambda x, H: ((H.tensor((2, 3), ("c", "d"), ("Z",), "no"),), {}), "tensor", "alias-ok", inplace="op:ior", why="| is the documented virtual combination")
D("op:mul", "N.loop N.hyper", lambda x, H: ((2.5,), {}), "scalar", inplace="op:imul")
D("op:rmul", "N.loop", lambda x, H: ((2.5,), {}), "scalar")
D("op:truediv", "N.loop", lambda x, H: ((2.5,), {}), "scalar", inplace="op:itruediv")
D("op:neg", "N.loop")
D("op:matmul", "N.loop", lambda x, H: ((build_receiver("N.tree").reindex({"x": "x2", "y": "y2", "z": "z2"}),), {}), "network")


def _qtn():
    import quimb.tensor as qtn

    return qtn

"""C03 domain table: receivers, per-method argument recipes, reflection.

Every recipe is a thunk ``(x, H) -> (args, kwargs)`` evaluated on the freshly
built receiver ``x`` so labels / tags exist; all data comes from
``alphabet.fill`` (pure function of VERIF_SEED and a key).
"""

from __future__ import annotations

import functools
import inspect
import operator

import numpy as np

from ..alphabet import fill

# --------------------------------------------------------------------------- #
#                                   helper                                    #
# --------------------------------------------------------------------------- #


class _H:
    """Deterministic data for arguments."""

    @staticmethod
    def arr(shape, key, dtype="complex128", kind="generic", **kw):
        return fill(kind, shape, dtype, key=("c03arg", key), **kw)

    @staticmethod
    def tensor(shape, inds, tags=(), key="t", dtype="complex128", kind="generic", **kw):
        import quimb.tensor as qtn

        return qtn.Tensor(_H.arr(shape, key, dtype, kind, **kw), inds, tags)

    @staticmethod
    def unitary(n, key, dtype="complex128"):
        return fill("unitary", (n, n), dtype, key=("c03arg", key))


    @staticmethod
    def mps(phys, bonds, key, dtype="complex128"):
        import quimb.tensor as qtn

        L = len(phys)
        arrays = []
        for i, d in enumerate(phys):
            shp = ([] if i == 0 else [bonds[i - 1]]) + ([] if i == L - 1 else [bonds[i]]) + [d]
            arrays.append(_H.arr(shp, (key, i), dtype))
        return _det_names(qtn.MatrixProductState(arrays, shape="lrp"), "abnd")

    @staticmethod
    def mpo(phys, bonds, key, dtype="complex128", sites=None, L=None, **kw):
        import quimb.tensor as qtn

        n = len(phys)
        arrays = []
        for i, d in enumerate(phys):
            shp = ([] if i == 0 else [bonds[i - 1]]) + ([] if i == n - 1 else [bonds[i]]) + [d, d]
            arrays.append(_H.arr(shp, (key, i), dtype))
        return _det_names(qtn.MatrixProductOperator(arrays, shape="lrud", sites=sites, L=L, **kw), "abnd")


H = _H


def seed_everything():
    import quimb as qu

    np.random.seed(12345)
    try:
        qu.seed_rand(12345)
    except Exception:  # pragma: no cover
        pass


def _refill(tn, key, dtype=None, kind="generic"):
    """Overwrite all data of a structured network built by a quimb generator
    (used for its shapes only) with alphabet data."""
    # generators name bonds with rand_uuid: give them deterministic names
    ren = {}
    for t in tn.tensor_map.values():
        for ix in t.inds:
            if ix not in ren and len(tn.ind_map[ix]) > 1:
                ren[ix] = "bnd%d" % len(ren)
    tn.reindex_(ren)
    for i, t in enumerate(tn.tensor_map.values()):
        dt = dtype or str(t.dtype)
        t.modify(data=fill(kind, t.shape, dt, key=("c03recv", key, i)))
    return tn


# --------------------------------------------------------------------------- #
#                                  receivers                                  #
# --------------------------------------------------------------------------- #

_RECV = {}


def receiver(name):
    def deco(fn):
        _RECV[name] = fn
        return fn

    return deco


def _det_names(tn, prefix="bnd"):
    """quimb constructors name bonds with rand_uuid(): rename those to
    deterministic names (order of first appearance over tids / axes) so that
    two builds of a receiver are the same labelled object."""
    from ..qhelp import UUID_RE

    ren = {}
    for t in tn.tensor_map.values():
        for ix in t.inds:
            if ix not in ren and isinstance(ix, str) and UUID_RE.fullmatch(ix):
                ren[ix] = "%s%d" % (prefix, len(ren))
    if ren:
        tn.reindex_(ren)
    return tn


def build_receiver(name):
    import quimb.tensor as qtn

    x = _RECV[name]()
    if isinstance(x, qtn.TensorNetwork):
        _det_names(x)
    return x


def _T(shape, inds, tags, key, dtype="complex128", kind="generic", left_inds=None, **kw):
    import quimb.tensor as qtn

    return qtn.Tensor(fill(kind, shape, dtype, key=("c03recv", key), **kw), inds, tags, left_inds=left_inds)


@receiver("T.abc")
def _():
    return _T((2, 3, 2), ("a", "b", "c"), ("X", "Y"), "T.abc")


@receiver("T.left")
def _():
    return _T((2, 3, 4), ("a", "b", "c"), ("X",), "T.left", dtype="float64", left_inds=("a", "b"))


@receiver("T.sq")
def _():
    return _T((2, 2, 3), ("a", "b", "c"), ("X", "Y"), "T.sq", dtype="float64")


@receiver("T.one")
def _():
    return _T((2, 1, 3), ("a", "e", "b"), ("X",), "T.one")


@receiver("T.rep")
def _():
    return _T((2, 2, 3), ("a", "a", "b"), ("X",), "T.rep", dtype="float64")


@receiver("T.iso")
def _():
    import quimb.tensor as qtn

    return qtn.IsoTensor(fill("generic", (2, 3, 4), "float64", key=("c03recv", "T.iso")), ("a", "b", "c"), ("X",), left_inds=("a", "b"))


@receiver("T.fused")
def _():
    return _T((6, 2), ("ab", "c"), ("X",), "T.fused")


def _TN(ts, exponent=0.0):
    import quimb.tensor as qtn

    tn = qtn.TensorNetwork(ts)
    tn.exponent = exponent
    return tn


@receiver("N.loop")
def _():
    # 3-cycle, one outer label per tensor, non-zero exponent
    return _TN(
        [
            _T((2, 2, 3), ("a", "x", "z"), ("A", "G"), "N.loop.A"),
            _T((2, 2, 3), ("x", "y", "b"), ("B", "G"), "N.loop.B"),
            _T((2, 3, 2), ("y", "z", "c"), ("C",), "N.loop.C"),
        ],
        exponent=0.5,
    )


@receiver("N.multi")
def _():
    # chain with a multibond (x, w) between A and B
    return _TN(
        [
            _T((2, 2, 2), ("a", "x", "w"), ("A", "G"), "N.multi.A", dtype="float64"),
            _T((2, 2, 3), ("x", "w", "y"), ("B", "G"), "N.multi.B", dtype="float64"),
            _T((3, 2), ("y", "c"), ("C",), "N.multi.C", dtype="float64"),
        ]
    )


@receiver("N.hyper")
def _():
    # hyper label h on three tensors
    return _TN(
        [
            _T((2, 3), ("a", "h"), ("A",), "N.hyper.A"),
            _T((3, 2), ("h", "b"), ("B",), "N.hyper.B"),
            _T((3, 2), ("h", "c"), ("C",), "N.hyper.C"),
        ]
    )


@receiver("N.struct")
def _():
    # generic ends around structured tensors (one per simplification shortcut)
    return _TN(
        [
            _T((2, 3), ("a", "p"), ("A",), "N.struct.A", dtype="float64"),
            _T((3, 3), ("p", "q"), ("D",), "N.struct.D", dtype="float64", kind="diag"),
            _T((3, 3), ("q", "r"), ("E",), "N.struct.E", dtype="float64", kind="antidiag"),
            _T((3, 2), ("r", "s"), ("F",), "N.struct.F", dtype="float64", kind="onehot-column"),
            _T((2, 2, 2), ("s", "b", "c"), ("R",), "N.struct.R", dtype="float64", kind="rank1"),
        ]
    )


@receiver("N.tree")
def _():
    # star/tree: centre B with three leaves
    return _TN(
        [
            _T((2, 2, 2), ("x", "y", "z"), ("B",), "N.tree.B"),
            _T((2, 2), ("a", "x"), ("A",), "N.tree.A"),
            _T((2, 2), ("y", "c"), ("C",), "N.tree.C"),
            _T((2, 3), ("z", "d"), ("Dd",), "N.tree.D"),
        ],
        exponent=-0.25,
    )


@receiver("N.left")
def _():
    # tensors carrying left_inds (for isometrize / unitize)
    return _TN(
        [
            _T((3, 2), ("a", "x"), ("A",), "N.left.A", dtype="float64", left_inds=("a",)),
            _T((2, 3, 2), ("x", "b", "y"), ("B",), "N.left.B", dtype="float64", left_inds=("x", "b")),
            _T((2, 2), ("y", "c"), ("C",), "N.left.C", dtype="float64", left_inds=("y",)),
        ]
    )


@receiver("N.braket")
def _():
    # <bra| |ket> overlap-like network with one bond between the layers
    return _TN(
        [
            _T((2, 3), ("a", "x"), ("K0", "KET"), "N.braket.K0"),
            _T((3, 2), ("x", "m"), ("K1", "KET"), "N.braket.K1"),
            _T((2, 3), ("m", "y"), ("B1", "BRA"), "N.braket.B1"),
            _T((3, 2), ("y", "b"), ("B0", "BRA"), "N.braket.B0"),
        ]
    )


@receiver("N.op")
def _():
    # operator-like network: upper k0,k1 / lower b0,b1
    return _TN(
        [
            _T((2, 2, 2), ("k0", "b0", "x"), ("I0",), "N.op.0"),
            _T((2, 2, 2), ("x", "k1", "b1"), ("I1",), "N.op.1"),
        ]
    )


def _gen_vec(key="G.vec"):
    import quimb.tensor as qtn

    ts = [
        _T((2, 2, 2), ("u", "w", "k0"), ("I0",), (key, 0)),
        _T((2, 3, 2), ("u", "v", "k1"), ("I1",), (key, 1)),
        _T((3, 2, 2), ("v", "w", "k2"), ("I2",), (key, 2)),
    ]
    tn = qtn.TensorNetwork(ts)
    return tn.view_as_(qtn.TensorNetworkGenVector, sites=(0, 1, 2), site_tag_id="I{}", site_ind_id="k{}")


@receiver("G.vec")
def _():
    return _gen_vec()


@receiver("G.op")
def _():
    import quimb.tensor as qtn

    ts = [
        _T((2, 2, 2, 2), ("k0", "b0", "u", "w"), ("I0",), "G.op.0"),
        _T((2, 2, 2, 2), ("k1", "b1", "u", "v"), ("I1",), "G.op.1"),
        _T((2, 2, 2, 2), ("k2", "b2", "v", "w"), ("I2",), "G.op.2"),
    ]
    tn = qtn.TensorNetwork(ts)
    return tn.view_as_(qtn.TensorNetworkGenOperator, sites=(0, 1, 2), site_tag_id="I{}", upper_ind_id="k{}", lower_ind_id="b{}")


@receiver("M.mps3")
def _():
    import quimb.tensor as qtn

    arrays = [
        fill("generic", (2, 2), "complex128", key=("c03recv", "M.mps3", 0)),
        fill("generic", (2, 2, 3), "complex128", key=("c03recv", "M.mps3", 1)),
        fill("generic", (2, 2), "complex128", key=("c03recv", "M.mps3", 2)),
    ]
    return qtn.MatrixProductState(arrays, shape="lrp")


@receiver("M.mps4")
def _():
    import quimb.tensor as qtn

    arrays = [
        fill("generic", (2, 2), "complex128", key=("c03recv", "M.mps4", 0)),
        fill("generic", (2, 3, 2), "complex128", key=("c03recv", "M.mps4", 1)),
        fill("generic", (3, 2, 2), "complex128", key=("c03recv", "M.mps4", 2)),
        fill("generic", (2, 2), "complex128", key=("c03recv", "M.mps4", 3)),
    ]
    return qtn.MatrixProductState(arrays, shape="lrp")


@receiver("M.mpo3")
def _():
    import quimb.tensor as qtn

    arrays = [
        fill("generic", (2, 2, 2), "complex128", key=("c03recv", "M.mpo3", 0)),
        fill("generic", (2, 3, 2, 2), "complex128", key=("c03recv", "M.mpo3", 1)),
        fill("generic", (3, 2, 2), "complex128", key=("c03recv", "M.mpo3", 2)),
    ]
    return qtn.MatrixProductOperator(arrays, shape="lrud")


@receiver("P.peps")
def _():
    import quimb.tensor as qtn

    return _refill(qtn.PEPS.rand(2, 2, 2, seed=3, dtype="complex128"), "P.peps")


@receiver("P.pepo")
def _():
    import quimb.tensor as qtn

    return _refill(qtn.PEPO.rand(2, 2, 2, seed=3, dtype="complex128"), "P.pepo")


@receiver("P.tn2d")
def _():
    import quimb.tensor as qtn

    return _refill(qtn.TN2D_rand(2, 3, 2, seed=3, dtype="float64"), "P.tn2d")


@receiver("Q.peps3d")
def _():
    import quimb.tensor as qtn

    return _refill(qtn.PEPS3D.rand(2, 2, 1, 2, seed=3, dtype="complex128"), "Q.peps3d")


@receiver("Q.tn3d")
def _():
    import quimb.tensor as qtn

    return _refill(qtn.TN3D_rand(2, 2, 2, 2, seed=3, dtype="float64"), "Q.tn3d")


THOROUGH_RECEIVERS = set()  # (every receiver is cheap enough for the quick tier)

# --------------------------------------------------------------------------- #
#                                  operators                                  #
# --------------------------------------------------------------------------- #

OPERATORS = {
    "op:add": operator.add,
    "op:sub": operator.sub,
    "op:mul": operator.mul,
    "op:truediv": operator.truediv,
    "op:pow": operator.pow,
    "op:matmul": operator.matmul,
    "op:and": operator.and_,
    "op:or": operator.or_,
    "op:neg": operator.neg,
    "op:radd": lambda x, o: o + x,
    "op:rsub": lambda x, o: o - x,
    "op:rmul": lambda x, o: o * x,
    "op:rtruediv": lambda x, o: o / x,
    "op:rpow": lambda x, o: o**x,
    "op:imul": operator.imul,
    "op:itruediv": operator.itruediv,
    "op:iand": operator.iand,
    "op:ior": operator.ior,
    "op:iadd": operator.iadd,
    "op:isub": operator.isub,
}

# documented exemptions (reported in the evidence)
EXEMPTIONS = {}

# --------------------------------------------------------------------------- #
#                                   entries                                   #
# --------------------------------------------------------------------------- #

_ENTRIES = []
_BY_ID = {}
_GROUP = ["T"]


def group(g):
    _GROUP[0] = g


def D(name, recvs, args=None, label="", flags="", inplace="auto", thorough_only=False, why=None, quick_too=False):
    """Declare one domain entry.  flags (space separated):
    dense / value : comparison mode under storage variants (gauge dependent)
    noperm / noorder : positional by definition (stated in ``why``)
    alias-ok, impure-ok, inplace-returns-other, spelling-differs-ok : documented
    """
    if isinstance(recvs, str):
        recvs = recvs.split()
    eid = "%s:%s|%s" % (_GROUP[0], name, label)
    if eid in _BY_ID:
        raise KeyError("duplicate entry " + eid)
    fl = set(flags.split())
    ent = {
        "id": eid,
        "name": name,
        "label": label,
        "recvs": list(recvs),
        "args": args or (lambda x, H: ((), {})),
        "flags": fl,
        "inplace_spec": inplace,
        "thorough_only": thorough_only,
        "quick_too": quick_too,
    }
    if why:
        EXEMPTIONS[eid] = "%s: %s" % (" ".join(sorted(fl)), why)
    _ENTRIES.append(ent)
    _BY_ID[eid] = ent
    return ent


def entries():
    return list(_ENTRIES)


def _owner(cls, name):
    for k in cls.__mro__:
        if name in vars(k):
            return k.__name__
    return cls.__name__


@functools.lru_cache(maxsize=None)
def _recv_class(rname):
    return type(build_receiver(rname))


def entry(eid, rname):
    """Entry resolved against the class of receiver ``rname``: owner class,
    plain / in-place spelling."""
    ent = dict(_BY_ID[eid])
    cls = _recv_class(rname)
    name = ent["name"]
    if name.split(":")[0] == "fn":
        ent["owner"] = "quimb.tensor"
        ent["plain"] = name
        ent["inplace"] = None
        return ent
    if name.split(":")[0] in ("q", "p", "mut"):
        ent["owner"] = _owner(cls, name.split(":", 1)[1])
        ent["plain"] = name
        ent["inplace"] = None
        return ent
    if name in OPERATORS:
        ent["owner"] = cls.__mro__[-2].__name__ if cls.__mro__[-2].__name__ in ("Tensor", "TensorNetwork") else cls.__name__
        ent["plain"] = name
        spec = ent["inplace_spec"]
        ent["inplace"] = (spec, {}) if spec not in ("auto", None) else None
        return ent
    ent["owner"] = _owner(cls, name)
    ent["plain"] = name
    spec = ent["inplace_spec"]
    if spec is None:
        ent["inplace"] = None
        return ent
    f = getattr(cls, name)
    try:
        params = inspect.signature(f).parameters
    except (TypeError, ValueError):
        params = {}
    if hasattr(cls, name + "_"):
        ent["inplace"] = (name + "_", {})
        if "inplace" in params and params["inplace"].default is not False:
            ent["plain_kw"] = {"inplace": False}
    elif "inplace" in params:
        ent["inplace"] = (name, {"inplace": True})
        ent["plain_kw"] = {"inplace": False}
    else:
        ent["inplace"] = None
    return ent


# --------------------------------------------------------------------------- #
#                          reflection / coverage report                       #
# --------------------------------------------------------------------------- #


def reflect_classes():
    import quimb.tensor as qtn

    return [
        qtn.Tensor,
        qtn.TensorNetwork,
        qtn.TensorNetworkGen,
        qtn.TensorNetworkGenVector,
        qtn.TensorNetworkGenOperator,
        qtn.MatrixProductState,
        qtn.MatrixProductOperator,
        qtn.PEPS,
        qtn.PEPO,
        qtn.TensorNetwork2D,
        qtn.PEPS3D,
        qtn.TensorNetwork3D,
    ]


@functools.lru_cache(maxsize=None)
def all_classes():
    """Every Tensor / TensorNetwork subclass exported by quimb.tensor, plus
    all their bases (mixins): the scope of the static alias check."""
    import quimb.tensor as qtn

    out = {}
    for n in dir(qtn):
        o = getattr(qtn, n)
        if inspect.isclass(o) and issubclass(o, (qtn.Tensor, qtn.TensorNetwork)):
            for b in o.__mro__:
                if b is not object and issubclass(b, (qtn.Tensor, qtn.TensorNetwork)):
                    out[b.__name__] = b
    return out


def discover():
    """{(owner class, method name): kind} over the reflected classes; kind is
    'pair' (f and f_ both exist) or 'inplace-kw'."""
    found = {}
    for cls in reflect_classes():
        names = [n for n in dir(cls) if not n.startswith("_")]
        pairs = {n[:-1] for n in names if n.endswith("_") and n[:-1] in names}
        for p in sorted(pairs):
            found.setdefault((_owner(cls, p), p), "pair")
        for n in names:
            if n.endswith("_") or n in pairs:
                continue
            f = getattr(cls, n)
            if not callable(f):
                continue
            try:
                sig = inspect.signature(f)
            except (TypeError, ValueError):
                continue
            if "inplace" in sig.parameters:
                found.setdefault((_owner(cls, n), n), "inplace-kw")
    return found


def coverage_report():
    found = discover()
    covered = set()
    for ent in _ENTRIES:
        if ent["name"] in OPERATORS or ":" in ent["name"]:
            continue
        for r in ent["recvs"]:
            covered.add((_owner(_recv_class(r), ent["name"]), ent["name"]))
    unc = sorted("%s.%s" % k for k in found if k not in covered)
    return {"n_pairs": len(found), "n_covered": len([k for k in found if k in covered]), "uncovered": unc}


# --------------------------------------------------------------------------- #
#                           Tensor: pairs + operators                         #
# --------------------------------------------------------------------------- #

TALL = "T.abc T.left T.sq T.one"

D("astype", "T.abc T.sq", lambda x, H: (("complex64",), {}), "c64")
D("astype", "T.sq", lambda x, H: (("float32",), {}), "f32")
D("collapse_repeated", "T.rep T.abc")
D("conj", TALL + " T.iso")
D("direct_product", "T.abc", lambda x, H: ((H.tensor((2, 3, 2), ("a", "b", "c"), ("Z",), "dp"),), {}), "all")
D("direct_product", "T.abc", lambda x, H: ((H.tensor((3, 2, 2), ("b", "c", "a"), ("Z",), "dp2"),), {"sum_inds": ("a",)}), "sum-a")
D("direct_product", "T.abc", lambda x, H: ((H.tensor((2, 2, 3), ("c", "a", "b"), ("Z",), "dp3"),), {"sum_inds": ("c", "a")}), "sum-ca")
D("flip", "T.abc T.sq", lambda x, H: (("b",), {}), "b")
D("fuse", "T.abc T.left T.iso", lambda x, H: (({"ab": ("a", "b")},), {}), "ab")
D("fuse", "T.abc", lambda x, H: (({"ca": ("c", "a")},), {}), "ca")
D("fuse", "T.abc", lambda x, H: (({"cba": ("c", "b", "a")},), {}), "cba")
D("fuse", "T.one", lambda x, H: (({"ae": ("a", "e")},), {}), "ae")
D("gate", "T.abc T.left", lambda x, H: ((H.arr((3, 3), "g3"), "b"), {}), "b")
D("gate", "T.abc", lambda x, H: ((H.arr((3, 3), "g3"), "b"), {"transpose": True}), "b-T")
D("gate", "T.abc", lambda x, H: ((H.arr((4, 2), "g42"), "c"), {}), "c-rect")
D("isel", TALL, lambda x, H: (({"b": 0},), {}), "b0")
D("isel", "T.abc", lambda x, H: (({"b": slice(0, 2)},), {}), "b-slice")
D("isel", "T.abc", lambda x, H: (({"a": 1, "c": 0},), {}), "a1c0")
D("isel", "T.rep", lambda x, H: (({"a": 1},), {}), "rep")
D("isometrize", "T.left T.abc", lambda x, H: ((("a", "b"),), {"method": "svd"}), "svd")
D("isometrize", "T.left", lambda x, H: ((), {"method": "qr"}), "qr-stored", "noperm", why="QR orthogonalises columns in stored order of the right labels: positional by definition")
D("unitize", "T.left", lambda x, H: ((("a", "b"),), {"method": "svd"}), "svd")
D("moveindex", "T.abc T.left", lambda x, H: (("c", 0), {}), "c0")
D("moveindex", "T.abc T.one", lambda x, H: (("a", -1), {}), "a-1")
D("multiply_index_diagonal", TALL, lambda x, H: (("b", H.arr((x.ind_size("b"),), "mid")), {}), "b")
D("negate", "T.abc T.sq")
D("new_ind_pair_diag", "T.abc T.left", lambda x, H: (("b", "b1", "b2"), {}), "b")
D("new_ind_pair_with_identity", "T.abc", lambda x, H: (("l", "r", 2), {}), "lr2")
D("normalize", "T.abc T.left")
D("rand_reduce", "T.abc", lambda x, H: (("b",), {"seed": 11}), "b")
D("randomize", "T.abc T.sq", lambda x, H: ((), {"seed": 5}), "seed", "noperm", why="fresh random entries are laid out in stored order: positional by definition")
D("reindex", TALL + " T.iso", lambda x, H: (({"a": "z"},), {}), "a->z")
D("reindex", "T.abc", lambda x, H: (({"a": "c", "c": "a"},), {}), "swap")
D("retag", "T.abc", lambda x, H: (({"X": "Q"},), {}), "X->Q")
D("retag", "T.abc", lambda x, H: (({"X": "Y"},), {}), "merge")
D("squeeze", "T.one T.abc")
D("squeeze", "T.one", lambda x, H: ((), {"include": ("e",)}), "include")
D("squeeze", "T.one", lambda x, H: ((), {"exclude": ("e",)}), "exclude")
D("sum_reduce", TALL, lambda x, H: (("b",), {}), "b")
D("sum_reduce", "T.abc", lambda x, H: (("a",), {}), "a")
D("symmetrize", "T.sq", lambda x, H: (("a", "b"), {}), "ab")
D("symmetrize", "T.sq", lambda x, H: (("b", "a"), {}), "ba")
D("to", "T.abc", lambda x, H: ((), {"dtype": "complex64"}), "dtype")
D("transpose", "T.abc T.left T.iso", lambda x, H: (("c", "a", "b"), {}), "cab")
D("transpose", "T.one", lambda x, H: (("b", "e", "a"), {}), "bea")
D("transpose_like", "T.abc T.left", lambda x, H: ((H.tensor((2, 3, 2), ("c", "b", "a"), ("Z",), "tl"),), {}), "cba")
D("transpose_like", "T.abc", lambda x, H: ((H.tensor((2, 3, 2), ("c", "b", "q"), ("Z",), "tl2"),), {}), "one-unmatched")
D("unfuse", "T.fused", lambda x, H: (({"ab": ("a", "b")}, {"ab": (2, 3)}), {}), "ab")
D("vector_reduce", TALL, lambda x, H: (("b", H.arr((x.ind_size("b"),), "vr")), {}), "b")
D("trace", "T.sq", lambda x, H: (("a", "b"), {}), "ab")
D("trace", "T.sq", lambda x, H: (("a", "b"), {"preserve_tensor": True}), "ab-keep")

# binary operators: align and broadcast by label
D("op:add", "T.abc", lambda x, H: ((H.tensor((2, 2, 3), ("c", "a", "b"), ("Z",), "o1"),), {}), "same-labels")
D("op:sub", "T.abc", lambda x, H: ((H.tensor((3, 2), ("b", "c"), ("Z",), "o2"),), {}), "subset")
D("op:mul", "T.abc", lambda x, H: ((H.tensor((3, 4), ("b", "d"), ("Z",), "o3"),), {}), "extra-label")
D("op:truediv", "T.abc", lambda x, H: ((H.tensor((2, 3), ("c", "b"), ("Z",), "o4", kind="positive"),), {}), "subset")
D("op:pow", "T.sq", lambda x, H: ((2,), {}), "scalar")
D("op:mul", "T.abc", lambda x, H: ((2.5,), {}), "scalar")
D("op:add", "T.abc", lambda x, H: ((1.5,), {}), "scalar")
D("op:truediv", "T.abc", lambda x, H: ((2.0,), {}), "scalar")
D("op:radd", "T.abc", lambda x, H: ((1.5,), {}), "scalar")
D("op:rsub", "T.abc", lambda x, H: ((1.5,), {}), "scalar")
D("op:rmul", "T.abc", lambda x, H: ((2.5,), {}), "scalar")
D("op:rtruediv", "T.abc", lambda x, H: ((2.0,), {}), "scalar")
D("op:rpow", "T.sq", lambda x, H: ((2.0,), {}), "scalar")
D("op:neg", "T.abc")
D("op:matmul", "T.abc", lambda x, H: ((H.tensor((3, 2, 4), ("b", "c", "d"), ("Z",), "o5"),), {}), "contract-bc")
D("op:matmul", "T.abc", lambda x, H: ((H.tensor((2, 2, 3), ("c", "a", "b"), ("Z",), "o6"),), {}), "to-scalar")
D("op:and", "T.abc", lambda x, H: ((H.tensor((3, 4), ("b", "d"), ("Z",), "o7"),), {}), "tensor")
D("op:or", "T.abc", lambda x, H: ((H.tensor((3, 4), ("b", "d"), ("Z",), "o8"),), {}), "tensor", "alias-ok", why="| is the documented virtual combination (result views the operands)")

# --------------------------------------------------------------------------- #
#                               TensorNetwork                                 #
# --------------------------------------------------------------------------- #

group("N")
NGEN = "N.loop N.multi N.hyper"
NALL = "N.loop N.multi N.hyper N.struct N.tree"
GAUGE_WHY = "QR/SVD based: individual tensors are gauge dependent, only the labelled whole is compared"

D("antidiag_gauge", "N.struct N.loop", None, "", "dense", why="flips one of the two neighbours of the antidiagonal tensor: a gauge choice")
D("astype", "N.loop N.multi", lambda x, H: (("complex64",), {}), "c64")
D("balance_bonds", "N.loop N.tree", None, "", "dense", why="bonds are balanced one after the other: per-tensor values are a gauge choice")
D("canonize_around", "N.tree N.loop", lambda x, H: (("B",), {}), "B", "dense", why=GAUGE_WHY)
D("canonize_around", "N.tree", lambda x, H: (("A",), {"max_distance": 1, "absorb": "left"}), "A-d1-left", "dense", why=GAUGE_WHY)
D("column_reduce", "N.struct N.loop")
D("compress_all", "N.loop N.tree N.multi", lambda x, H: ((), {"cutoff": 1e-10}), "default", "dense", why=GAUGE_WHY)
D("compress_all", "N.loop", lambda x, H: ((), {"max_bond": 1, "cutoff": 0.0, "canonize": False}), "chi1-nocanon", "dense noperm noorder", why="truncating compression of a loop is sequential: order of bonds is documented to follow tensor order")
D("compress_all_1d", "N.multi N.tree", lambda x, H: ((), {}), "default", "dense", why=GAUGE_WHY)
D("compress_all_simple", "N.loop N.tree", lambda x, H: ((), {"max_iterations": 3}), "default", "dense", why=GAUGE_WHY)
D("compress_all_tree", "N.tree N.multi", lambda x, H: ((), {}), "default", "dense", why=GAUGE_WHY)
D("compress_simplify", "N.struct N.loop", lambda x, H: ((), {"output_inds": tuple(x.outer_inds())}), "default", "value", why="simplification sequence may legitimately choose other intermediate structure; value compared")
D("conj", NALL)
D("conj", "N.loop", lambda x, H: ((), {"mangle_inner": True}), "mangle", "dense", why="mangled inner labels are fresh names")
D("contract", "N.loop N.multi N.struct N.tree", lambda x, H: ((), {}), "all", inplace=None)
D("contract", "N.loop N.tree", lambda x, H: ((("A", "B"),), {}), "tags-AB")
D("contract", "N.loop N.hyper", lambda x, H: ((...,), {"output_inds": ("c", "a")}), "all-out-ca", inplace=None)
D("contract", "N.loop", lambda x, H: ((), {"strip_exponent": True}), "strip", inplace=None)
D("contract", "N.loop N.tree", lambda x, H: (("A",), {"output_inds": tuple(reversed(x["A"].inds))}), "one-tensor-out-reversed")
D("contract", "N.loop", lambda x, H: (("A",), {"strip_exponent": True, "equalize_norms": False}), "one-tensor-strip")
D("contract_tags", "N.loop", lambda x, H: (("A",), {"output_inds": tuple(reversed(x["A"].inds))}), "A-out-reversed")
D("contract_tags", "N.loop", lambda x, H: ((("A", "B"),), {"strip_exponent": True, "equalize_norms": False}), "AB-strip-noeq")
D("contract_around", "N.tree N.loop", lambda x, H: (("B",), {}), "B", "dense collapses", why=GAUGE_WHY + "; the in-place spelling keeps a one-tensor network (documented for contract)")
D("contract_compressed", "N.loop P.tn2d", lambda x, H: (("greedy-compressed",), {"max_bond": 64, "cutoff": 0.0, "output_inds": tuple(sorted(x.outer_inds()))}), "exact", "value collapses", why=GAUGE_WHY + "; in-place keeps a one-tensor network")
D("contract_tags", "N.loop N.multi N.tree", lambda x, H: ((("A", "B"),), {}), "AB-any")
D("contract_tags", "N.loop", lambda x, H: ((("A", "G"),), {"which": "all"}), "AG-all")
D("contract_tags", "N.loop", lambda x, H: ((("A", "B"),), {"strip_exponent": True}), "AB-strip")
D("contract_tags", "N.hyper", lambda x, H: ((("A", "B"),), {}), "hyper-AB")
D("contract_cumulative", "N.loop N.tree", lambda x, H: ((["A", "B", "C"],), {}), "ABC", inplace=None)
D("contract_cumulative", "N.tree", lambda x, H: ((["A", "B"],), {}), "AB")
D("diagonal_reduce", "N.struct N.loop")
D("drape_bond_between", "N.loop", lambda x, H: (("A", "B", "C"), {"left_ind": "l", "right_ind": "r"}), "ABC")
D("drape_bond_between", "N.multi", lambda x, H: (("A", "B", "C"), {"left_ind": "l", "right_ind": "r"}), "multibond", "dense", why="multibond is fused first (gauge free but fresh labels)")
D("equalize_norms", NALL)
D("equalize_norms", "N.loop N.tree", lambda x, H: ((1.0,), {}), "one")
D("expand_bond_dimension", "N.loop N.tree", lambda x, H: ((4,), {}), "to4")
D("expand_bond_dimension", "N.loop", lambda x, H: ((4,), {"inds_to_expand": ("x",)}), "x-to4")
D("flip", "N.loop N.hyper", lambda x, H: ((["a"],), {}), "a")
D("flip", "N.loop", lambda x, H: ((["x", "c"],), {}), "xc")
D("full_simplify", "N.struct N.loop N.tree", lambda x, H: ((), {"output_inds": tuple(x.outer_inds())}), "default", "value", why="simplification may legitimately pick other intermediate structure; value compared")
D("fuse_multibonds", "N.multi N.loop")
D("gate_inds", "N.loop N.hyper", lambda x, H: ((H.arr((2, 2), "gi1"), ["a"]), {}), "1-lazy")
D("gate_inds", "N.loop", lambda x, H: ((H.arr((2, 2), "gi1"), ["a"]), {"contract": True}), "1-contract")
D("gate_inds", "N.loop", lambda x, H: ((H.arr((4, 4), "gi2"), ["a", "c"]), {"contract": False}), "2-lazy")
D("gate_inds", "N.loop", lambda x, H: ((H.arr((4, 4), "gi2"), ["c", "a"]), {"contract": True}), "2-contract")
D("gate_inds", "N.loop", lambda x, H: ((H.arr((4, 4), "gi2"), ["a", "c"]), {"contract": "split", "cutoff": 0.0}), "2-split", "dense", why=GAUGE_WHY)
D("gate_inds", "N.loop", lambda x, H: ((H.arr((4, 4), "gi2"), ["c", "a"]), {"contract": "reduce-split", "cutoff": 0.0}), "2-reduce-split", "dense", why=GAUGE_WHY)
D("gate_inds", "N.loop", lambda x, H: ((H.arr((2, 2, 2, 2), "gi3"), ["a", "c"]), {"contract": False, "tags": ["GATE"]}), "2-tensorshape")
D("gate_inds", "N.loop", lambda x, H: ((H.arr((2, 2), "gi1"), ["a"]), {"transpose": True, "contract": True}), "1-transpose")
D("gate_inds", "N.loop", lambda x, H: ((H.arr((2, 2), "gi1"), ["a"]), {"dagger": True, "contract": True}), "1-dagger")
D(
    "gate_inds_with_tn",
    "N.loop N.hyper",
    lambda x, H: ((["a", "b"], H.tensor((2, 2, 2, 2), ("i0", "i1", "o0", "o1"), ("GT",), "giwt") & H.tensor((2,), ("zz",), ("GU",), "giwt2").isel({"zz": 0}), ["i0", "i1"], ["o0", "o1"]), {}),
    "ab",
)
D("gate_sandwich_inds", "N.op", lambda x, H: ((H.arr((2, 2), "gsi"), ["k0"], ["b0"]), {}), "1")
D("gate_sandwich_inds", "N.op", lambda x, H: ((H.arr((4, 4), "gsi2"), ["k0", "k1"], ["b0", "b1"]), {"contract": True}), "2-contract")
D("gauge_all", "N.loop N.tree", lambda x, H: ((), {"method": "canonize"}), "canonize", "dense", why=GAUGE_WHY)
D("gauge_all_belief_propagation", "N.tree", lambda x, H: ((), {"max_iterations": 4}), "default", "dense", why=GAUGE_WHY, thorough_only=True)
D("gauge_all_canonize", "N.loop N.tree", lambda x, H: ((), {"max_iterations": 2}), "it2", "dense", why=GAUGE_WHY)
D("gauge_all_random", "N.loop", lambda x, H: ((), {"seed": 3}), "seed", "dense noperm noorder", why="random gauges are drawn per bond in network order: positional by definition")
D("gauge_all_simple", "N.loop N.tree", lambda x, H: ((), {"max_iterations": 3}), "it3", "dense", why=GAUGE_WHY)
D("gauge_local", "N.tree N.loop", lambda x, H: (("B",), {}), "B", "dense", why=GAUGE_WHY)
D("hyperinds_resolve", "N.hyper", lambda x, H: ((), {"mode": "dense"}), "dense", "dense", why="fresh labels")
D("hyperinds_resolve", "N.hyper", lambda x, H: ((), {"mode": "mps"}), "mps", "value", why="chain order follows the documented sorter (tensor order)")
D("hyperinds_resolve", "N.hyper", lambda x, H: ((), {"mode": "tree"}), "tree", "value", why="tree shape follows the documented sorter (tensor order)")
D("insert_compressor_between_regions", "N.loop", lambda x, H: ((["A"], ["B", "C"]), {"max_bond": 4, "cutoff": 0.0}), "A|BC", "value", why=GAUGE_WHY)
D("insert_operator", "N.braket", lambda x, H: ((H.arr((2, 2), "io"), "K1", "B1"), {"tags": ["OP"]}), "m")
D("isel", NGEN, lambda x, H: (({"a": 1},), {}), "a1")
D("isel", "N.loop", lambda x, H: (({"x": 0, "c": 1},), {}), "x0c1")
D("isel", "N.hyper", lambda x, H: (({"h": 2},), {}), "h2")
D("isometrize", "N.left", lambda x, H: ((), {"method": "svd"}), "svd")
D("unitize", "N.left", lambda x, H: ((), {"method": "svd"}), "svd")
D("loop_simplify", "N.loop N.struct", lambda x, H: ((), {"output_inds": tuple(x.outer_inds())}), "default", "value", why="simplification; value compared")
SPREAD_WHY = "the factor is spread over the first tensors in network order: per-tensor values are a gauge choice"
D("multiply", NGEN, lambda x, H: ((2.5,), {}), "2.5", "dense", why=SPREAD_WHY)
D("multiply", "N.loop", lambda x, H: ((-0.5 + 1j,), {"spread_over": 2}), "complex-spread2", "dense", why=SPREAD_WHY)
D("multiply", "N.loop", lambda x, H: ((3.0,), {"spread_over": "all"}), "spread-all")
D("multiply_each", NGEN, lambda x, H: ((1.5,), {}), "1.5")
D("negate", "N.loop N.hyper", None, "", "dense", why=SPREAD_WHY)
D("pair_simplify", "N.struct N.loop N.tree", lambda x, H: ((), {"output_inds": tuple(x.outer_inds())}), "default", "value", why="simplification; value compared")
D("randomize", "N.loop", lambda x, H: ((), {"seed": 1}), "seed", "noperm noorder", why="fresh random entries are laid out in stored order")
D("rank_simplify", "N.struct N.loop N.tree N.hyper", lambda x, H: ((), {"output_inds": tuple(x.outer_inds())}), "default", "value", why="simplification; value compared")
D("reindex", NGEN, lambda x, H: (({"a": "q"},), {}), "a->q")
D("reindex", "N.loop", lambda x, H: (({"x": "y", "y": "x"},), {}), "swap-inner")
D("reindex", "N.loop", lambda x, H: (({"a": "c", "c": "a"},), {}), "swap-outer")
D("replace_with_identity", "N.braket", lambda x, H: ((["K1", "B1"],), {}), "K1B1")
D("replace_with_svd", "N.loop", lambda x, H: ((["A", "B"], ["a", "b"], 1e-12), {"method": "svd", "ltags": ["L"], "rtags": ["R"]}), "AB-svd", "dense", why=GAUGE_WHY)
D("retag", NGEN, lambda x, H: (({"A": "Q"},), {}), "A->Q")
D("retag", "N.loop", lambda x, H: (({"A": "C"},), {}), "merge")
D("split_simplify", "N.struct N.loop", lambda x, H: ((), {}), "default", "value", why="simplification; value compared")
D("squeeze", "N.loop")
D("squeeze", "N.struct", lambda x, H: ((), {}), "after-isel")
D("sum_reduce", NGEN, lambda x, H: (("a",), {}), "a")
D("to", "N.loop", lambda x, H: ((), {"dtype": "complex64"}), "dtype")
D("vector_reduce", NGEN, lambda x, H: (("a", H.arr((2,), "vr")), {}), "a")
D("view_as", "N.op", lambda x, H: ((_qtn().TensorNetworkGenOperator,), {"sites": (0, 1), "site_tag_id": "I{}", "upper_ind_id": "k{}", "lower_ind_id": "b{}"}), "genop")
D("view_like", "N.op", lambda x, H: ((build_receiver("G.op"),), {}), "genop")
D("from_TN", "N.op", lambda x, H: ((x,), {"like": build_receiver("G.op")}), "genop", "self-arg")
D("partition", "N.loop", lambda x, H: ((["A", "B"],), {}), "AB", "inplace-returns-other")
D("partition_tensors", "N.loop", lambda x, H: ((["A", "B"],), {}), "AB", "inplace-returns-other noorder", why="returns the tagged tensors as a list in network order: positional by definition")
D("fit", "N.tree", lambda x, H: ((build_receiver("N.tree").multiply_each(1.1),), {"method": "als", "steps": 3, "tol": 0.0}), "als-3", "noperm noorder", why="iterative optimiser: sweep order follows tensor order", thorough_only=True)

# operators on networks
D("op:and", "N.loop", lambda x, H: ((H.tensor((2, 3), ("c", "d"), ("Z",), "na"),), {}), "tensor", inplace="op:iand")
D("op:and", "N.loop", lambda x, H: ((build_receiver("N.tree").reindex({"a": "c", "c": "cc", "x": "x2", "y": "y2", "z": "z2"}),), {}), "network", inplace="op:iand")
D("op:or", "N.loop", lambda x, H: ((H.tensor((2, 3), ("c", "d"), ("Z",), "no"),), {}), "tensor", "alias-ok", inplace="op:ior", why="| is the documented virtual combination")
D("op:mul", "N.loop N.hyper", lambda x, H: ((2.5,), {}), "scalar", "dense", inplace="op:imul", why=SPREAD_WHY)
D("op:rmul", "N.loop", lambda x, H: ((2.5,), {}), "scalar", "dense", why=SPREAD_WHY)
D("op:truediv", "N.loop", lambda x, H: ((2.5,), {}), "scalar", "dense", inplace="op:itruediv", why=SPREAD_WHY)
D("op:neg", "N.loop", None, "", "dense", why=SPREAD_WHY)
D("op:matmul", "N.loop", lambda x, H: ((build_receiver("N.tree").reindex({"x": "x2", "y": "y2", "z": "z2"}),), {}), "network")


def _qtn():
    import quimb.tensor as qtn

    return qtn


# --------------------------------------------------------------------------- #
#                    arbitrary geometry: Gen / Vector / Operator              #
# --------------------------------------------------------------------------- #

group("G")


def _gen_op(key, sites=(0, 1, 2), bond=2):
    """operator network on the triangle, matching G.vec / G.op structure"""
    import quimb.tensor as qtn

    labels = {0: ("u_", "w_"), 1: ("u_", "v_"), 2: ("v_", "w_")}
    ts = [_T((2, 2) + tuple(bond for _ in labels[i]), ("k%d" % i, "b%d" % i) + labels[i], ("I%d" % i, "OP"), (key, i)) for i in sites]
    if len(sites) < 3:
        # drop dangling bonds of absent sites
        present = {}
        for i in sites:
            for l in labels[i]:
                present[l] = present.get(l, 0) + 1
        ts = [t.isel({l: 0 for l in labels[i] if present[l] == 1}) for t, i in zip(ts, sites)]
    tn = qtn.TensorNetwork(ts)
    return tn.view_as_(qtn.TensorNetworkGenOperator, sites=sites, site_tag_id="I{}", upper_ind_id="k{}", lower_ind_id="b{}")


def _gauges_for(x):
    """simple-update gauges: one positive vector per bond, keyed by label (a
    pure function of the label, not of any storage order)"""
    return {ix: H.arr((x.ind_size(ix),), ("gauge", ix), "float64", kind="positive") for ix in sorted(x.inner_inds())}


D("flatten", "G.vec", lambda x, H: ((), {}), "flat-already")
D("retag_all", "G.vec G.op", lambda x, H: (("S{}",), {}), "S")
D("retag_sites", "G.vec", lambda x, H: (("S{}",), {"where": [0, 2]}), "S-02")
D("reindex_all", "G.vec", lambda x, H: (("q{}",), {}), "q")
D("reindex_sites", "G.vec", lambda x, H: (("q{}",), {"where": [0, 2]}), "q-02")
D("align", "G.vec", lambda x, H: ((_gen_op("al"), build_receiver("G.vec").conj()), {}), "vec-op-vec", "inplace-returns-other inplace-mutates-args", why="variadic: returns the list of aligned networks; inplace=True relabels every network given (documented)")
D("gate", "G.vec", lambda x, H: ((H.arr((2, 2), "gg1"), 1), {}), "1-lazy")
D("gate", "G.vec", lambda x, H: ((H.arr((2, 2), "gg1"), 1), {"contract": True}), "1-contract")
D("gate", "G.vec", lambda x, H: ((H.arr((4, 4), "gg2"), (0, 2)), {"contract": False}), "2-lazy")
D("gate", "G.vec", lambda x, H: ((H.arr((4, 4), "gg2"), (2, 0)), {"contract": True}), "2-contract")
D("gate", "G.vec", lambda x, H: ((H.arr((4, 4), "gg2"), (0, 1)), {"contract": "split", "cutoff": 0.0}), "2-split", "dense", why=GAUGE_WHY)
D("gate", "G.vec", lambda x, H: ((H.arr((4, 4), "gg2"), (1, 0)), {"contract": "reduce-split", "cutoff": 0.0}), "2-reduce-split", "dense", why=GAUGE_WHY)
D("gate", "G.vec", lambda x, H: ((H.arr((4, 4), "gg2"), (0, 1)), {"contract": True, "dagger": True}), "2-dagger")
D("gate", "G.vec", lambda x, H: ((H.arr((4, 4), "gg2"), (0, 1)), {"contract": True, "transpose": True}), "2-transpose")
D("gate_simple", "G.vec", lambda x, H: ((H.arr((4, 4), "gs2"), (0, 1), _gauges_for(x)), {"renorm": False}), "2", "dense impure-ok", why=GAUGE_WHY + "; gate_simple mutates the caller's gauges (documented)")
D("gate_simple", "G.vec", lambda x, H: ((H.arr((2, 2), "gs1"), (2,), _gauges_for(x)), {}), "1", "dense impure-ok", why=GAUGE_WHY + "; gauges in/out")
D("gate_with_op_lazy", "G.vec", lambda x, H: ((_gen_op("gwol"),), {}), "full")
D("gate_with_op_lazy", "G.vec", lambda x, H: ((_gen_op("gwol"),), {"transpose": True}), "full-T")
D("op:add", "G.vec", lambda x, H: ((_gen_vec("other"),), {}), "vec", "dense", inplace="op:iadd", why="direct sum: block layout is a gauge choice")
D("op:sub", "G.vec", lambda x, H: ((_gen_vec("other"),), {}), "vec", "dense", inplace="op:isub", why="direct sum: block layout is a gauge choice")

D("apply", "G.op", lambda x, H: ((_gen_vec("appl"),), {}), "to-vec", "dense inplace-returns-other", why="contracts site pairs and fuses multibonds")
D("apply", "G.op", lambda x, H: ((_gen_op("appl2"),), {}), "to-op", "dense inplace-returns-other", why="contracts site pairs and fuses multibonds")
D("apply", "G.op", lambda x, H: ((_gen_vec("appl"),), {"contract": False}), "to-vec-lazy", "inplace-returns-other", why="apply_ consumes the operator and returns a network like `other` (documented)")
D("dot", "G.op", lambda x, H: ((_gen_vec("appl"),), {}), "to-vec", "dense inplace-returns-other", why="contracts site pairs and fuses multibonds")
D("gate", "G.op", lambda x, H: ((H.arr((2, 2), "gg1"), 1), {"which": "upper", "contract": True}), "op-1-upper")
D("gate_upper", "G.op", lambda x, H: ((H.arr((4, 4), "gg2"), (0, 2)), {"contract": True}), "2-contract")
D("gate_upper", "G.op", lambda x, H: ((H.arr((2, 2), "gg1"), 1), {}), "1-lazy")
D("gate_lower", "G.op", lambda x, H: ((H.arr((4, 4), "gg2"), (0, 2)), {"contract": True}), "2-contract")
D("gate_lower", "G.op", lambda x, H: ((H.arr((2, 2), "gg1"), 1), {"transpose": True}), "1-lazy-T")
D("gate_sandwich", "G.op", lambda x, H: ((H.arr((4, 4), "gg2"), (1, 2)), {"contract": True}), "2-contract")
D("gate_sandwich", "G.op", lambda x, H: ((H.arr((2, 2), "gg1"), 0), {}), "1-lazy")
D("gate_simple", "G.op", lambda x, H: ((H.arr((4, 4), "gs2"), (0, 1), _gauges_for(x)), {"renorm": False}), "op-2", "dense impure-ok", why=GAUGE_WHY + "; gauges in/out")
D("gate_upper_with_op_lazy", "G.op", lambda x, H: ((_gen_op("guwol"),), {}), "full")
D("gate_lower_with_op_lazy", "G.op", lambda x, H: ((_gen_op("glwol"),), {}), "full")
D("gate_sandwich_with_op_lazy", "G.op", lambda x, H: ((_gen_op("gswol"),), {}), "full")
D("partial_transpose", "G.op", lambda x, H: (([0, 2],), {}), "02")
D("reindex_lower_sites", "G.op", lambda x, H: (("q{}",), {"where": [1]}), "q-1")
D("reindex_upper_sites", "G.op", lambda x, H: (("q{}",), {}), "q-all")
D("reindex_lower_sites", "M.mpo3", lambda x, H: (("q{}",), {"where": slice(1, 2)}), "mpo-q-1")
D("reindex_upper_sites", "M.mpo3", lambda x, H: (("q{}",), {}), "mpo-q-all")

# --------------------------------------------------------------------------- #
#                                     1D                                      #
# --------------------------------------------------------------------------- #

group("M")
MPSS = "M.mps3 M.mps4"

D("add_MPS", "M.mps3", lambda x, H: ((H.mps((2, 3, 2), (2, 2), "add"),), {}), "same-dims", "dense", why="direct sum: block layout is a gauge choice")
D("add_MPS", "M.mps3", lambda x, H: ((H.mps((2, 3, 2), (1, 2), "add2"),), {"compress": True, "cutoff": 1e-12}), "compress", "dense", why=GAUGE_WHY)
D("op:add", "M.mps3", lambda x, H: ((H.mps((2, 3, 2), (2, 2), "add"),), {}), "mps", "dense", inplace="op:iadd", why="direct sum")
D("op:sub", "M.mps3", lambda x, H: ((H.mps((2, 3, 2), (2, 2), "add"),), {}), "mps", "dense", inplace="op:isub", why="direct sum")
D("add_MPO", "M.mpo3", lambda x, H: ((H.mpo((2, 2, 2), (2, 2), "addo"),), {}), "same-dims", "dense", why="direct sum")
D("op:add", "M.mpo3", lambda x, H: ((H.mpo((2, 2, 2), (2, 2), "addo"),), {}), "mpo", "dense", inplace="op:iadd", why="direct sum")
D("canonicalize", MPSS + " M.mpo3", lambda x, H: ((1,), {}), "1", "dense", why=GAUGE_WHY)
D("canonicalize", "M.mps4", lambda x, H: (((1, 2),), {}), "1-2", "dense", why=GAUGE_WHY)
D("canonize", "M.mps3", lambda x, H: ((1,), {}), "1", "dense", why=GAUGE_WHY)
D("left_canonicalize", MPSS, lambda x, H: ((), {}), "all", "dense", why=GAUGE_WHY)
D("left_canonicalize", "M.mps4", lambda x, H: ((), {"stop": 2, "normalize": True}), "stop2-norm", "dense", why=GAUGE_WHY)
D("right_canonicalize", MPSS + " M.mpo3", lambda x, H: ((), {}), "all", "dense", why=GAUGE_WHY)
D("left_canonize", "M.mps3", lambda x, H: ((), {}), "all", "dense", why=GAUGE_WHY)
D("right_canonize", "M.mps3", lambda x, H: ((), {}), "all", "dense", why=GAUGE_WHY)
D("expand_bond_dimension", "M.mps3 M.mpo3", lambda x, H: ((4,), {}), "1d-to4")
D("expand_bond_dimension", "M.mps3", lambda x, H: ((4,), {"rand_strength": 0.0, "create_bond": True}), "1d-to4-create")
D("flip", "M.mps3 M.mps4", lambda x, H: ((), {}), "mps")
D("flatten", "M.mps3", lambda x, H: ((), {}), "mps-flat-already")
D("gate", MPSS, lambda x, H: ((H.arr((x.phys_dim(1), x.phys_dim(1)), "mg1"), 1), {}), "1-lazy")
D("gate", MPSS, lambda x, H: ((H.arr((x.phys_dim(1), x.phys_dim(1)), "mg1"), 1), {"contract": True}), "1-contract")
D("gate", "M.mps4", lambda x, H: ((H.arr((4, 4), "mg2"), (1, 2)), {"contract": False}), "2-lazy")
D("gate", "M.mps4", lambda x, H: ((H.arr((4, 4), "mg2"), (1, 2)), {"contract": True}), "2-contract")
D("gate", "M.mps4", lambda x, H: ((H.arr((4, 4), "mg2"), (1, 2)), {"contract": "split", "cutoff": 0.0}), "2-split", "dense", why=GAUGE_WHY)
D("gate", "M.mps4", lambda x, H: ((H.arr((4, 4), "mg2"), (2, 1)), {"contract": "reduce-split", "cutoff": 0.0}), "2-reduce-split", "dense", why=GAUGE_WHY)
D("gate", "M.mps4", lambda x, H: ((H.arr((4, 4), "mg2"), (0, 3)), {"contract": "swap+split", "cutoff": 0.0}), "2-swap+split", "dense", why=GAUGE_WHY)
D("gate", "M.mps4", lambda x, H: ((H.arr((4, 4), "mg2"), (0, 2)), {"contract": "nonlocal", "cutoff": 0.0}), "2-nonlocal", "dense", why=GAUGE_WHY)
D("gate", "M.mps3", lambda x, H: ((H.arr((6, 6), "mg23"), (0, 1)), {"contract": "swap+split", "cutoff": 0.0}), "2-mixed-dims", "dense", why=GAUGE_WHY)
D("gate_split", "M.mps4", lambda x, H: ((H.arr((4, 4), "mg2"), (1, 2)), {"cutoff": 0.0}), "12", "dense", why=GAUGE_WHY)
D("gate_split", "M.mps3", lambda x, H: ((H.arr((6, 6), "mg23"), (0, 1)), {"cutoff": 0.0}), "01-mixed", "dense", why=GAUGE_WHY)
D("gate_nonlocal", "M.mps4", lambda x, H: ((H.arr((4, 4), "mg2"), (0, 3)), {"cutoff": 0.0}), "03", "dense", why=GAUGE_WHY)
D("gate_nonlocal", "M.mps4", lambda x, H: ((H.arr((4, 4), "mg2"), (2, 0)), {"cutoff": 0.0, "transpose": True}), "20-T", "dense", why=GAUGE_WHY)
D("gate_with_auto_swap", "M.mps4", lambda x, H: ((H.arr((4, 4), "mg2"), (0, 2)), {"cutoff": 0.0}), "02", "dense", why=GAUGE_WHY)
D("gate_with_auto_swap", "M.mps4", lambda x, H: ((H.arr((4, 4), "mg2"), (3, 1)), {"cutoff": 0.0, "swap_back": False}), "31-noswapback", "dense", why=GAUGE_WHY)
D("gate_with_mpo", "M.mps3", lambda x, H: ((H.mpo((2, 3, 2), (2, 2), "gwm"),), {"cutoff": 0.0}), "direct", "dense", why=GAUGE_WHY)
D("gate_with_mpo", "M.mps3", lambda x, H: ((H.mpo((2, 3, 2), (2, 2), "gwm"),), {"method": "zipup", "cutoff": 0.0, "transpose": True}), "zipup-T", "dense", why=GAUGE_WHY)
D("gate_with_submpo", "M.mps4", lambda x, H: ((H.mpo((2, 2), (2,), "gws", sites=[1, 2], L=4),), {"cutoff": 0.0}), "12", "dense", why=GAUGE_WHY)
D("gate_with_submpo", "M.mps4", lambda x, H: ((H.mpo((2, 2), (2,), "gws", sites=[0, 2], L=4),), {"method": "lazy"}), "02-lazy")
D("gate_with_op_lazy", "M.mps3", lambda x, H: ((H.mpo((2, 3, 2), (2, 2), "gwm"),), {}), "mpo")
D("measure", "M.mps3", lambda x, H: ((1,), {"outcome": 2}), "1-out2", "dense inplace-returns-other", why=GAUGE_WHY + "; returns (outcome, state)")
D("measure", "M.mps3", lambda x, H: ((0,), {"seed": 7}), "0-seeded", "dense inplace-returns-other", why=GAUGE_WHY + "; returns (outcome, state)")
D("measure", "M.mps4", lambda x, H: ((2,), {"outcome": 1, "remove": True, "renorm": False}), "2-remove", "dense inplace-returns-other", why=GAUGE_WHY + "; returns (outcome, state)")
D("reindex_sites", MPSS, lambda x, H: (("q{}",), {"where": [0, 2]}), "q-02")
D("retag_sites", "M.mps3", lambda x, H: (("S{}",), {}), "S")
D("swap_site_to", "M.mps4", lambda x, H: ((0, 2), {"cutoff": 0.0}), "0->2", "dense", why=GAUGE_WHY)
D("swap_site_to", "M.mps3", lambda x, H: ((2, 0), {"cutoff": 0.0}), "2->0-mixed", "dense", why=GAUGE_WHY)
D("swap_sites_with_compress", "M.mps4 M.mps3", lambda x, H: ((0, 1), {"cutoff": 0.0}), "01", "dense", why=GAUGE_WHY)
D("as_cyclic", "M.mps3 M.mpo3", lambda x, H: ((), {}), "open")
D("compute_local_expectation", "M.mps3", lambda x, H: (({(0,): H.arr((2, 2), "t0"), (1, 2): H.arr((6, 6), "t12")},), {"normalized": True, "return_all": True}), "canonical", "value inplace-returns-other", why="returns numbers")
D("compute_local_expectation_canonical", "M.mps4", lambda x, H: (({(0, 1): H.arr((4, 4), "t01"), (3,): H.arr((2, 2), "t3")},), {}), "sum", "value inplace-returns-other", why="returns numbers")
D("contract_structured", "M.mps3", lambda x, H: ((slice(0, 2),), {}), "0:2")
D("contract_structured", "M.mps4", lambda x, H: ((...,), {"structure_bsz": 2}), "all-bsz2", "collapses", why="the in-place spelling keeps a one-tensor network")
D("fill_empty_sites", "M.mpo3", lambda x, H: ((), {}), "nothing-missing")
D("gate_sandwich_with_auto_swap", "M.mpo3", lambda x, H: ((H.arr((4, 4), "gsas"), (0, 2)), {"cutoff": 0.0}), "02", "dense", why=GAUGE_WHY)
D("gate_upper", "M.mpo3", lambda x, H: ((H.arr((2, 2), "mg1"), 1), {"contract": True}), "mpo-1")
D("partial_transpose", "M.mpo3", lambda x, H: (([0],), {}), "mpo-0")
D("apply", "M.mpo3", lambda x, H: ((H.mps((2, 2, 2), (2, 2), "apm"),), {}), "mpo-to-mps", "dense inplace-returns-other", why="contracts site pairs and fuses multibonds")
D("apply", "M.mpo3", lambda x, H: ((H.mpo((2, 2, 2), (2, 2), "apo"),), {"compress": True, "cutoff": 1e-12}), "mpo-to-mpo-compress", "dense inplace-returns-other", why=GAUGE_WHY)


def _sub_mpo():
    """MPO present on sites 0 and 2 of 4 only (for fill_empty_sites)."""
    return H.mpo((2, 2), (2,), "sub", sites=[0, 2], L=4)


@receiver("M.submpo")
def _():
    return _sub_mpo()


D("fill_empty_sites", "M.submpo", lambda x, H: ((), {}), "full")
D("fill_empty_sites", "M.submpo", lambda x, H: ((), {"mode": "minimal"}), "minimal")

# base-class methods on structured receivers (properties must survive)
BASE_ON = "M.mps3 M.mpo3 G.vec P.peps"
group("B")
D("conj", BASE_ON + " G.op P.tn2d")
D("astype", "M.mps3 P.peps", lambda x, H: (("complex64",), {}), "c64")
D("multiply", BASE_ON, lambda x, H: ((2.5,), {}), "2.5", "dense", why=SPREAD_WHY)
D("multiply_each", "M.mps3 G.vec", lambda x, H: ((1.5,), {}), "1.5")
D("equalize_norms", BASE_ON, lambda x, H: ((1.0,), {}), "one")
D("balance_bonds", "M.mps3 G.vec P.peps", None, "", "dense", why="gauge")
D("retag", "M.mps3 G.vec", lambda x, H: (({"I1": "Q"},), {}), "I1->Q")
D("reindex", "M.mps3 G.vec", lambda x, H: (({"k1": "q"},), {}), "k1->q")
D("isel", "M.mps3 G.vec", lambda x, H: (({"k1": 1},), {}), "k1")
D("isel", "P.peps", lambda x, H: (({"k0,1": 1},), {}), "k01")
D("squeeze", "M.mps3 P.peps")
D("fuse_multibonds", "M.mps3 G.vec")
D("rank_simplify", "M.mps4 G.vec", lambda x, H: ((), {"output_inds": tuple(x.outer_inds())}), "default", "value", why="simplification; value compared")
D("pair_simplify", "M.mps4 G.vec", lambda x, H: ((), {"output_inds": tuple(x.outer_inds())}), "default", "value", why="simplification; value compared")
D("compress_all", "M.mps4 G.vec P.peps", lambda x, H: ((), {"cutoff": 1e-10}), "default", "dense", why=GAUGE_WHY)
D("canonize_around", "M.mps4 G.vec P.peps", lambda x, H: ((x.site_tag(x.sites[0] if hasattr(x, "sites") else 0),), {}), "site0", "dense", why=GAUGE_WHY)
D("gauge_all_simple", "M.mps4 G.vec P.peps", lambda x, H: ((), {"max_iterations": 2}), "it2", "dense", why=GAUGE_WHY)
D("gate_inds", "M.mps3 G.vec", lambda x, H: ((H.arr((2, 2), "gi1"), ["k0"]), {"contract": True}), "k0-contract")
D("contract_tags", "M.mps4 G.vec", lambda x, H: ((("I0", "I1"),), {}), "I0I1")
D("contract", "M.mps3 G.vec P.peps", lambda x, H: ((), {}), "all", inplace=None)
D("expand_bond_dimension", "G.vec", lambda x, H: ((3,), {}), "to3")
D("randomize", "M.mps3", lambda x, H: ((), {"seed": 1}), "seed", "noperm noorder", why="positional by definition")
D("view_as", "M.mps3", lambda x, H: ((_qtn().TensorNetworkGenVector,), {"sites": (0, 1, 2), "site_tag_id": "I{}", "site_ind_id": "k{}"}), "mps->gen")
D("view_like", "M.mps3", lambda x, H: ((build_receiver("G.vec"),), {}), "mps->gen")

# --------------------------------------------------------------------------- #
#                                   2D / 3D                                   #
# --------------------------------------------------------------------------- #

group("P")
BND_WHY = "boundary / coarse-graining contraction (QR/SVD based, untruncated here): value compared"


@receiver("P.norm")
def _():
    # two-layer 2D network <peps|peps> (two tensors per site)
    return build_receiver("P.peps").make_norm()


D("add_PEPS", "P.peps", lambda x, H: ((_refill(_qtn().PEPS.rand(2, 2, 2, seed=5, dtype="complex128"), "addp"),), {}), "same", "dense", why="direct sum")
D("op:add", "P.peps", lambda x, H: ((_refill(_qtn().PEPS.rand(2, 2, 2, seed=5, dtype="complex128"), "addp"),), {}), "peps", "dense", inplace="op:iadd", why="direct sum")
D("add_PEPO", "P.pepo", lambda x, H: ((_refill(_qtn().PEPO.rand(2, 2, 2, seed=5, dtype="complex128"), "addo"),), {}), "same", "dense", why="direct sum")
D("expand_bond_dimension", "P.peps", lambda x, H: ((3,), {}), "2d-to3")
D("expand_bond_dimension", "P.peps", lambda x, H: ((3,), {"bra": x.H}), "2d-to3-bra", "impure-ok", why="bra= is documented to be expanded in place")
D("flatten", "P.norm", lambda x, H: ((), {}), "norm", "dense", why="fused multibonds get fresh labels")
D("flatten", "P.peps", lambda x, H: ((), {}), "flat-already")
D("gate", "P.peps", lambda x, H: ((H.arr((2, 2), "pg1"), ((0, 1),)), {"contract": True}), "1-contract")
D("gate", "P.peps", lambda x, H: ((H.arr((2, 2), "pg1"), ((1, 0),)), {"contract": False}), "1-lazy")
D("gate", "P.peps", lambda x, H: ((H.arr((4, 4), "pg2"), ((0, 0), (0, 1))), {"contract": False}), "2-lazy")
D("gate", "P.peps", lambda x, H: ((H.arr((4, 4), "pg2"), ((0, 0), (1, 0))), {"contract": True}), "2-contract")
D("gate", "P.peps", lambda x, H: ((H.arr((4, 4), "pg2"), ((1, 1), (0, 1))), {"contract": "split", "cutoff": 0.0}), "2-split", "dense", why=GAUGE_WHY)
D("gate", "P.peps", lambda x, H: ((H.arr((4, 4), "pg2"), ((0, 0), (0, 1))), {"contract": "reduce-split", "cutoff": 0.0}), "2-reduce-split", "dense", why=GAUGE_WHY)
D("normalize", "P.peps", lambda x, H: ((), {"max_bond": 16, "cutoff": 0.0}), "exact", "dense", why=BND_WHY)
D("reindex_sites", "P.peps", lambda x, H: (("q{},{}",), {"where": [(0, 0), (1, 1)]}), "2d-q")
D("reindex_sites", "P.peps", lambda x, H: (("q{},{}",), {}), "2d-q-all")
D("reindex_lower_sites", "P.pepo", lambda x, H: (("q{},{}",), {"where": [(0, 1)]}), "2d-q")
D("reindex_upper_sites", "P.pepo", lambda x, H: (("q{},{}",), {}), "2d-q-all")
D("contract_boundary", "P.tn2d P.norm", lambda x, H: ((), {"max_bond": 64, "cutoff": 0.0}), "exact", "value collapses", why=BND_WHY)
D("contract_boundary", "P.tn2d", lambda x, H: ((), {"max_bond": 64, "cutoff": 0.0, "mode": "full-bond", "sequence": ["xmin", "ymax"]}), "full-bond-seq", "value collapses", why=BND_WHY)
D("contract_boundary_from", "P.tn2d", lambda x, H: (((0, 1), (0, 2), "xmin"), {"max_bond": 64, "cutoff": 0.0}), "xmin", "value", why=BND_WHY)
D("contract_boundary_from_xmin", "P.tn2d", lambda x, H: (((0, 1),), {"max_bond": 64, "cutoff": 0.0}), "01", "value", why=BND_WHY)
D("contract_boundary_from_xmax", "P.tn2d", lambda x, H: (((0, 1),), {"max_bond": 64, "cutoff": 0.0}), "01", "value", why=BND_WHY)
D("contract_boundary_from_ymin", "P.tn2d", lambda x, H: (((0, 1),), {"max_bond": 64, "cutoff": 0.0}), "01", "value", why=BND_WHY)
D("contract_boundary_from_ymax", "P.tn2d", lambda x, H: (((1, 2),), {"max_bond": 64, "cutoff": 0.0}), "12", "value", why=BND_WHY)
D("contract_mps_sweep", "P.tn2d", lambda x, H: ((), {"max_bond": 64, "cutoff": 0.0, "direction": "xmin"}), "xmin", "value collapses", why=BND_WHY)
D("contract_hotrg", "P.tn2d", lambda x, H: ((), {"max_bond": 64, "cutoff": 0.0}), "exact", "value collapses", why=BND_WHY)
D("contract_ctmrg", "P.tn2d", lambda x, H: ((), {"max_bond": 64, "cutoff": 0.0}), "exact", "value collapses", why=BND_WHY)
D("coarse_grain_hotrg", "P.tn2d", lambda x, H: (("y",), {"max_bond": 64, "cutoff": 0.0}), "y", "value", why=BND_WHY)
D("coarse_grain_hotrg", "P.tn2d", lambda x, H: (("x",), {"max_bond": 64, "cutoff": 0.0}), "x", "value", why=BND_WHY)

group("Q")
D("reindex_sites", "Q.peps3d", lambda x, H: (("q{},{},{}",), {"where": [(0, 0, 0), (1, 1, 0)]}), "3d-q")
D("reindex_sites", "Q.peps3d", lambda x, H: (("q{},{},{}",), {}), "3d-q-all", quick_too=True)
D("gate", "Q.peps3d", lambda x, H: ((H.arr((2, 2), "qg1"), ((0, 1, 0),)), {"contract": True}), "1-contract")
D("gate", "Q.peps3d", lambda x, H: ((H.arr((4, 4), "qg2"), ((0, 0, 0), (0, 1, 0))), {"contract": "reduce-split", "cutoff": 0.0}), "2-reduce-split", "dense", why=GAUGE_WHY)
D("gate", "Q.peps3d", lambda x, H: ((H.arr((4, 4), "qg2"), ((0, 0, 0), (1, 0, 0))), {"contract": False}), "2-lazy")
D("flatten", "Q.tn3d", lambda x, H: ((), {}), "flat-already")
D("conj", "Q.peps3d Q.tn3d")
D("multiply", "Q.peps3d", lambda x, H: ((2.5,), {}), "2.5", "dense", why=SPREAD_WHY)
D("contract_boundary", "Q.tn3d", lambda x, H: ((), {"max_bond": 64, "cutoff": 0.0}), "exact", "value collapses", why=BND_WHY)
D("contract_boundary_from", "Q.tn3d", lambda x, H: (((0, 1), (0, 1), (0, 1), "xmin"), {"max_bond": 64, "cutoff": 0.0}), "xmin", "value", why=BND_WHY, quick_too=True)
D("contract_hotrg", "Q.tn3d", lambda x, H: ((), {"max_bond": 64, "cutoff": 0.0}), "exact", "value collapses", why=BND_WHY)
D("contract_ctmrg", "Q.tn3d", lambda x, H: ((), {"max_bond": 64, "cutoff": 0.0}), "exact", "value collapses", why=BND_WHY)
D("coarse_grain_hotrg", "Q.tn3d", lambda x, H: (("z",), {"max_bond": 64, "cutoff": 0.0}), "z", "value", why=BND_WHY)
D("contract_peps_sweep", "Q.tn3d", lambda x, H: ((64,), {"cutoff": 0.0, "from_which": "xmin"}), "xmin", "value collapses", why=BND_WHY)
D("contract_simple_sweep", "Q.tn3d", lambda x, H: ((64,), {}), "default", "value inplace-returns-other", why=BND_WHY + "; returns the number in both spellings")


# --------------------------------------------------------------------------- #
#      queries (no in-place twin) and in-place-only mutators run on a copy    #
#      - "the result of ANY method depends only on labelled content"          #
# --------------------------------------------------------------------------- #

group("X")
D("q:norm", "T.abc T.sq N.loop N.hyper M.mps3 M.mpo3 P.peps G.vec")
D("q:to_dense", "T.abc", lambda x, H: ((("c",), ("a", "b")), {}), "c|ab")
D("q:to_dense", "T.abc", lambda x, H: ((("b", "a", "c"),), {}), "bac")
D("q:to_dense", "N.loop N.hyper", lambda x, H: ((("c",), ("b", "a")), {}), "c|ba")
D("q:to_dense", "M.mps3 M.mpo3 P.peps G.vec G.op", lambda x, H: ((), {}), "default-by-site")
D("q:split", "T.abc T.left", lambda x, H: ((("a", "b"),), {"cutoff": 0.0}), "ab|c", "dense", why=GAUGE_WHY)
D("q:split", "T.abc", lambda x, H: ((("c",),), {"method": "qr"}), "c|ab-qr", "dense", why=GAUGE_WHY)
D("q:split", "T.abc", lambda x, H: ((("b",),), {"method": "svd", "get": "values"}), "b-values", "value", why="spectrum")
D("q:singular_values", "T.abc T.sq", lambda x, H: ((("a", "c"),), {}), "ac")
D("q:entropy", "T.abc", lambda x, H: ((("b",),), {}), "b")
D("q:compute_reduced_factor", "T.abc", lambda x, H: (("right", ("a", "b"), ("c",)), {}), "right", "value noperm", why="triangular factor: gauge dependent")
D("q:contract", "T.abc", lambda x, H: ((H.tensor((3, 2, 4), ("b", "c", "d"), ("Z",), "qc1"), H.tensor((4, 2), ("d", "a"), ("W",), "qc2")), {}), "three-to-scalar")
D("q:contract", "T.abc", lambda x, H: ((H.tensor((3, 4), ("b", "d"), ("Z",), "qc3"),), {"output_inds": ("d", "c", "a")}), "out-dca")
D("q:contract", "T.abc", lambda x, H: ((), {"output_inds": ("c", "a", "b")}), "single-out-cab")
D("q:contract", "T.abc", lambda x, H: ((), {"output_inds": ("c", "a", "b"), "preserve_tensor": True}), "single-out-cab-keep")
D("q:distance", "T.abc", lambda x, H: ((H.tensor((2, 2, 3), ("c", "a", "b"), ("Z",), "qd"),), {}), "other")
D("q:overlap", "T.abc", lambda x, H: ((H.tensor((2, 2, 3), ("c", "a", "b"), ("Z",), "qd"),), {}), "other")
D("q:almost_equals", "T.abc", lambda x, H: ((build_receiver("T.abc").transpose("b", "c", "a"),), {}), "self-transposed")
D("q:bonds", "T.abc", lambda x, H: ((H.tensor((3, 2, 4), ("b", "c", "d"), ("Z",), "qb"),), {}), "bc", "value")
D("q:ind_size", "T.abc T.one", lambda x, H: (("b",), {}), "b")
D("q:inds_size", "T.abc", lambda x, H: ((("c", "b"),), {}), "cb")
D("q:idxmax", "T.sq", lambda x, H: ((), {}), "labelled-argmax")
D("q:idxmin", "T.sq", lambda x, H: (("abs",), {}), "labelled-argmin-abs")
D("q:largest_element", "T.abc N.loop")
D("q:as_network", "T.abc", None, "", "alias-ok", why="documented view (virtual=True default)")
D("p:H", "T.abc T.left N.loop N.hyper M.mps3 P.peps")
D("mut:expand_ind", "T.abc", lambda x, H: (("b", 5), {}), "b5")
D("mut:expand_ind", "T.abc", lambda x, H: (("a", 4), {"mode": "repeat"}), "a4-repeat")
D("mut:new_ind", "T.abc", lambda x, H: (("n",), {"size": 2, "axis": 1}), "n2", "", why=None)
D("mut:new_ind", "T.abc", lambda x, H: (("n",), {"size": 3, "mode": "repeat"}), "n3-repeat")
D("mut:new_bond", "T.abc", lambda x, H: ((H.tensor((3, 4), ("b", "d"), ("Z",), "nb"),), {"size": 2, "name": "nbnd"}), "to-other", "impure-ok", why="new_bond is documented to modify both tensors in place")
D("mut:add_tag", "T.abc N.loop", lambda x, H: (("NEW",), {}), "NEW")
D("mut:drop_tags", "T.abc", lambda x, H: ((["X"],), {}), "X")
D("mut:drop_tags", "N.loop", lambda x, H: ((["G"],), {}), "G")

D("q:make_norm", "N.loop M.mps3 G.vec", lambda x, H: ((), {}), "default", "dense", why="bra labels are mangled")
D("q:select", "N.loop N.tree", lambda x, H: ((["A", "C"],), {"which": "any"}), "AC-any", "alias-ok", why="documented view (virtual=True default)")
D("q:select", "N.loop", lambda x, H: ((["A", "G"],), {"which": "all"}), "AG-all", "alias-ok", why="documented view (virtual=True default)")
D("q:select", "N.loop", lambda x, H: ((["A"],), {"which": "!any"}), "notA", "alias-ok", why="documented view (virtual=True default)")
D("q:select", "N.loop", lambda x, H: ((["A", "B"],), {"virtual": False}), "AB-copy")
D("q:select_neighbors", "N.tree N.loop", lambda x, H: (("A",), {}), "A", "unordered alias-ok", why="returns the neighbouring tensors (the network's own objects, documented) as a tuple without documented order: compared as a set")
D("q:select_local", "N.tree", lambda x, H: (("A",), {"max_distance": 1}), "A-d1", "alias-ok", why="documented view (virtual=True default)")
D("q:trace", "N.op", lambda x, H: ((["k0", "k1"], ["b0", "b1"]), {}), "full")
D("q:overlap", "N.loop", lambda x, H: ((build_receiver("N.loop").multiply_each(0.9),), {}), "self-scaled")
D("q:distance", "N.loop", lambda x, H: ((build_receiver("N.loop").multiply_each(0.9),), {}), "self-scaled")
D("q:outer_size", "N.loop N.hyper")
D("q:ind_sizes", "N.loop N.hyper")
D("q:get_multibonds", "N.multi N.loop", lambda x, H: ((), {}), "default", "value noorder", why="maps labels to tids (positional)")
D("q:get_hyperinds", "N.hyper N.loop", lambda x, H: ((), {}), "default", "value")
D("q:max_bond", "N.loop N.multi M.mps4 P.peps")
D("q:geometry_hash", "N.loop N.hyper N.multi", lambda x, H: ((), {"strict_index_order": False}), "loose", "noorder", why="hash is documented to depend on tensor order (but NOT on the order of labels on a tensor)")
D("q:istree", "N.loop N.tree N.multi")
D("q:isconnected", "N.loop N.hyper")
D("q:split", "N.loop", lambda x, H: ((("a", "b"),), {"cutoff": 0.0}), "tn-ab|c", "dense", why=GAUGE_WHY)
D("q:compute_reduced_factor", "N.loop", lambda x, H: (("left", ("a",), ("b", "c")), {}), "tn-left", "value noperm noorder", why="triangular factor: gauge dependent")
D("mut:canonize_between", "N.loop N.tree", lambda x, H: (("A", "B"), {}), "AB", "dense", why=GAUGE_WHY)
D("mut:compress_between", "N.loop N.multi", lambda x, H: (("A", "B"), {"cutoff": 0.0}), "AB", "dense", why=GAUGE_WHY)
D("mut:compress_between", "N.loop", lambda x, H: (("A", "B"), {"max_bond": 1, "cutoff": 0.0}), "AB-chi1", "dense", why=GAUGE_WHY)
D("mut:contract_between", "N.loop N.multi N.hyper", lambda x, H: (("A", "B"), {}), "AB")
D("mut:contract_ind", "N.loop N.multi", lambda x, H: (("x",), {}), "x")
D("mut:contract_ind", "N.hyper", lambda x, H: (("h",), {"output_inds": ("a", "b", "c")}), "hyper-h")
D("mut:cut_bond", "N.loop", lambda x, H: (("x",), {"new_left_ind": "xl", "new_right_ind": "xr"}), "x", "noorder", why="which tensor is 'left' is defined by tensor order only")
D("mut:cut_between", "N.loop", lambda x, H: (("A", "B", "xl", "xr"), {}), "AB")
D("mut:insert_gauge", "N.loop", lambda x, H: ((H.arr((2, 2), "ig") + 2 * np.eye(2), "A", "B"), {}), "AB")
D("mut:split_tensor", "N.loop", lambda x, H: (("B", ("x", "b")), {"cutoff": 0.0}), "B-xb|y", "dense", why=GAUGE_WHY)
D("mut:distribute_exponent", "N.loop N.tree")
D("mut:mangle_inner_", "N.loop", lambda x, H: ((), {"append": "*"}), "star")
D("mut:add_tensor", "N.loop", lambda x, H: ((H.tensor((2, 3), ("c", "d"), ("Z",), "at"),), {}), "tensor")
D("mut:delete", "N.loop", lambda x, H: ((["A"],), {}), "A")
D("mut:convert_to_zero", "N.loop")
D("mut:gauge_simple_insert", "N.loop", lambda x, H: ((_gauges_for(x),), {}), "all-bonds", "impure-ok noorder", why="returns the (outer, inner) lists of absorbed gauges in network order; gauges dict is in/out")

D("q:expec", "M.mps3", lambda x, H: ((H.mps((2, 3, 2), (2, 2), "ex"),), {}), "other")
D("q:overlap", "M.mps3", lambda x, H: ((H.mps((2, 3, 2), (2, 2), "ex"),), {}), "mps-other")
CANON_WHY = "moves the orthogonality centre of its receiver in place (by design, tracked through info=); the purity clause is about (f, f_) pairs"
D("q:entropy", "M.mps4", lambda x, H: ((2,), {}), "cut2", "impure-ok", why=CANON_WHY)
D("q:schmidt_values", "M.mps4 M.mps3", lambda x, H: ((1,), {}), "cut1", "impure-ok", why=CANON_WHY)
D("q:bond_sizes", "M.mps4 M.mpo3")
D("q:magnetization", "M.mps4", lambda x, H: ((1,), {}), "site1", "impure-ok", why=CANON_WHY)
D("q:partial_trace_to_mpo", "M.mps4", lambda x, H: (([1, 2],), {}), "12", "dense", why=GAUGE_WHY)
D("q:local_expectation_canonical", "M.mps4", lambda x, H: ((H.arr((4, 4), "lec"), (1, 2)), {}), "12", "value impure-ok", why=CANON_WHY)
D("q:correlation", "M.mps4", lambda x, H: ((H.arr((2, 2), "corr"), 0, 2), {}), "02", "value")
D("q:trace", "M.mpo3", lambda x, H: ((), {}), "mpo")
D("q:sample_configuration", "M.mps3", lambda x, H: ((), {"seed": 11}), "seeded", "value", why="returns (configuration, probability)")
D("q:local_expectation_exact", "P.peps G.vec", lambda x, H: ((H.arr((2, 2), "gle1"), (x.sites[1],)), {}), "site1", "value")
D("q:partial_trace_exact", "G.vec", lambda x, H: (((0, 1),), {}), "01", "value")

# --------------------------------------------------------------------------- #
#     universal entries: base-class methods on EVERY network receiver, with   #
#     labels / tags picked from the receiver by name order (storage-free)     #
# --------------------------------------------------------------------------- #

group("U")
ALLNETS = "N.loop N.multi N.hyper N.struct N.tree N.left N.braket N.op G.vec G.op M.mps3 M.mps4 M.mpo3 M.submpo P.peps P.pepo P.tn2d P.norm Q.peps3d Q.tn3d"


def _o(x, i=0):
    """i-th outer label in name order (independent of storage)"""
    return sorted(x.outer_inds(), key=str)[i]


def _tg(x, i=0):
    """i-th tag in name order that does not cover every tensor"""
    tags = [t for t in sorted(x.tags, key=str) if len(x.tag_map[t]) < x.num_tensors]
    return tags[i]


def _has_outer(names):
    return " ".join(n for n in names.split() if n not in ("P.tn2d", "Q.tn3d", "P.norm"))


def U(name, recvs, args=None, label="", flags="", **kw):
    """universal entry (both tiers; the tiers differ in the storage variants)"""
    D(name, recvs.split(), args, label, flags, **kw)


WITH_OUTER = _has_outer(ALLNETS)
U("conj", ALLNETS, None, "u")
U("astype", ALLNETS, lambda x, H: (("complex64",), {}), "u-c64")
U("multiply", ALLNETS, lambda x, H: ((-1.5,), {}), "u-neg1.5", "dense", why=SPREAD_WHY)
U("multiply_each", ALLNETS, lambda x, H: ((0.5,), {}), "u-0.5")
U("negate", ALLNETS, None, "u", "dense", why=SPREAD_WHY)
U("equalize_norms", ALLNETS, lambda x, H: ((1.0,), {}), "u-one")
U("equalize_norms", ALLNETS, None, "u-none")
U("retag", ALLNETS, lambda x, H: (({_tg(x): "QQ"},), {}), "u-first->QQ")
U("reindex", WITH_OUTER, lambda x, H: (({_o(x): "qq"},), {}), "u-first->qq")
U("isel", WITH_OUTER, lambda x, H: (({_o(x): 1},), {}), "u-first=1")
U("isel", WITH_OUTER, lambda x, H: (({_o(x): 0, _o(x, -1): 1},), {}), "u-first=0,last=1")
U("sum_reduce", WITH_OUTER, lambda x, H: ((_o(x),), {}), "u-first")
U("vector_reduce", WITH_OUTER, lambda x, H: ((_o(x, -1), H.arr((x.ind_size(_o(x, -1)),), "uvr")), {}), "u-last")
U("flip", WITH_OUTER.replace("M.mps3", "").replace("M.mps4", ""), lambda x, H: (([_o(x)],), {}), "u-first")  # (MatrixProductState.flip is a different method: site reversal)
U("squeeze", ALLNETS, None, "u")
U("fuse_multibonds", ALLNETS, None, "u")
U("randomize", ALLNETS, lambda x, H: ((), {"seed": 2}), "u-seed", "noperm noorder", why="positional by definition")
U("to", ALLNETS, lambda x, H: ((), {"dtype": "complex64"}), "u-dtype")
U("rank_simplify", ALLNETS, lambda x, H: ((), {"output_inds": tuple(x.outer_inds())}), "u", "value", why="simplification; value compared")
U("full_simplify", ALLNETS, lambda x, H: ((), {"output_inds": tuple(x.outer_inds())}), "u", "value", why="simplification; value compared")
# (N.struct has over-sized bonds by construction - a 2x3 tensor on a size-3
# bond: how far QR/SVD sweeps shrink them depends legitimately on the sweep
# order, so the bond-size skeleton is only compared on the other receivers)
FULLRANK = ALLNETS.replace("N.hyper", "").replace("N.struct", "")
U("compress_all", FULLRANK, lambda x, H: ((), {"cutoff": 1e-12}), "u", "dense", why=GAUGE_WHY)
U("gauge_all_simple", FULLRANK, lambda x, H: ((), {"max_iterations": 2}), "u", "dense", why=GAUGE_WHY)
U("gauge_all_canonize", FULLRANK, lambda x, H: ((), {"max_iterations": 1}), "u", "dense", why=GAUGE_WHY)
U("canonize_around", FULLRANK, lambda x, H: ((_tg(x),), {}), "u-first-tag", "dense", why=GAUGE_WHY)
U("compress_all", "N.struct", lambda x, H: ((), {"cutoff": 1e-12}), "u-rankdef", "value", why=GAUGE_WHY + "; over-sized bonds: value only")
U("gauge_all_canonize", "N.struct", lambda x, H: ((), {"max_iterations": 1}), "u-rankdef", "value", why=GAUGE_WHY + "; over-sized bonds: value only")
U("gauge_all_simple", "N.struct", lambda x, H: ((), {"max_iterations": 2}), "u-rankdef", "value", why=GAUGE_WHY + "; over-sized bonds: value only")
U("canonize_around", "N.struct", lambda x, H: ((_tg(x),), {}), "u-rankdef", "value", why=GAUGE_WHY + "; over-sized bonds: value only")
U("gate_inds", WITH_OUTER, lambda x, H: ((H.arr((x.ind_size(_o(x)),) * 2, "ugi"), [_o(x)]), {"contract": True}), "u-first-contract")
U("gate_inds", WITH_OUTER, lambda x, H: ((H.arr((x.ind_size(_o(x)),) * 2, "ugi"), [_o(x)]), {"contract": False}), "u-first-lazy")
U("contract_tags", ALLNETS, lambda x, H: (([_tg(x, 0), _tg(x, 1)],), {}), "u-first-two-tags", "collapses", why="two-tensor receivers contract to one tensor: the in-place spelling keeps a one-tensor network (documented)")
U("partition", ALLNETS, lambda x, H: (([_tg(x)],), {}), "u-first-tag", "inplace-returns-other")
U("expand_bond_dimension", "N.loop N.multi N.struct N.tree N.left N.braket N.op G.vec G.op P.tn2d P.norm Q.tn3d", lambda x, H: ((3,), {}), "u-to3")
U("q:norm", ALLNETS, None, "u")
U("p:H", ALLNETS, None, "u")
U("q:make_norm", _has_outer("N.loop N.tree G.vec M.mps4 M.mpo3 P.peps Q.peps3d"), None, "u", "dense", why="bra labels are mangled")
U("q:select", ALLNETS, lambda x, H: (([_tg(x)],), {"virtual": False}), "u-first-tag-copy")
U("mut:add_tag", ALLNETS, lambda x, H: (("NEWTAG",), {}), "u")
U("mut:drop_tags", ALLNETS, lambda x, H: (([_tg(x)],), {}), "u-first-tag")
U("mut:distribute_exponent", ALLNETS, None, "u")
U("q:contract", "N.loop N.multi N.struct N.tree N.left N.braket N.op G.vec G.op M.mps3 M.mps4 M.mpo3 M.submpo P.peps P.tn2d P.norm Q.peps3d Q.tn3d", lambda x, H: ((), {"output_inds": tuple(sorted(x.outer_inds(), key=str))}), "u-all-sorted-out")


# --------------------------------------------------------------------------- #
#   compress / canonize family: every documented value of reduced= / absorb=  #
#   / mode= (the non-default branches align the new factors by label one by   #
#   one: a seeded change dropping one `transpose_like_` was only visible with  #
#   reduced=False and a right tensor whose bond is not its first axis)        #
# --------------------------------------------------------------------------- #

group("C")
REDUCED = (True, False, "left", "right", "lazy")
ABSORB = ("both", "left", "right", None)


def _tb(H):
    # right tensor: the bond 'c' is stored in the MIDDLE, all sizes coincide
    # with a neighbour's so a misplaced axis is not always a shape error
    return H.tensor((2, 2, 3), ("d", "c", "e"), ("Z",), "ctb")


for _r in REDUCED:
    for _a in ABSORB:
        D(
            "fn:tensor_compress_bond",
            "T.abc",
            (lambda r, a: lambda x, H: ((_tb(H),), {"reduced": r, "absorb": a, "cutoff": 1e-10}))(_r, _a),
            "reduced=%r,absorb=%r" % (_r, _a),
            "dense",
            why=GAUGE_WHY,
        )
D("fn:tensor_compress_bond", "T.abc", lambda x, H: ((_tb(H),), {"reduced": False, "max_bond": 1, "cutoff": 0.0}), "reduced=False,chi1", "dense", why=GAUGE_WHY)
D("fn:tensor_compress_bond", "T.abc", lambda x, H: ((_tb(H),), {"reduced": True, "max_bond": 1, "cutoff": 0.0, "absorb": "left"}), "reduced=True,chi1,left", "dense", why=GAUGE_WHY)
for _a in ("right", "left", "both"):
    D("fn:tensor_canonize_bond", "T.abc", (lambda a: lambda x, H: ((_tb(H),), {"absorb": a}))(_a), "absorb=%r" % (_a,), "dense", why=GAUGE_WHY)
D("fn:tensor_balance_bond", "T.abc", lambda x, H: ((_tb(H),), {}), "default", "dense", why="gauge")

for _r in REDUCED:
    for _a in ("both", "left", "right"):
        D(
            "mut:compress_between",
            "N.loop N.multi M.mps4",
            (lambda r, a: lambda x, H: ((_tg(x, 0), _tg(x, 1)), {"reduced": r, "absorb": a, "cutoff": 1e-10}))(_r, _a),
            "reduced=%r,absorb=%r" % (_r, _a),
            "dense",
            why=GAUGE_WHY,
        )
    D(
        "compress_all",
        "N.loop N.tree M.mps4 G.vec P.peps",
        (lambda r: lambda x, H: ((), {"mode": "basic", "reduced": r, "cutoff": 1e-10}))(_r),
        "basic,reduced=%r" % (_r,),
        "dense spelling-dense" if _r == "lazy" else "dense",
        why=GAUGE_WHY + ("; 'lazy' uses the iterative isvd with a random start vector: spellings compared as labelled wholes" if _r == "lazy" else ""),
    )
    D("compress_all_tree", "N.tree M.mps4", (lambda r: lambda x, H: ((), {"reduced": r, "cutoff": 1e-10}))(_r), "reduced=%r" % (_r,), "dense spelling-dense" if _r == "lazy" else "dense", why=GAUGE_WHY)
    D("compress_all_1d", "N.multi M.mps4", (lambda r: lambda x, H: ((), {"reduced": r, "cutoff": 1e-10}))(_r), "reduced=%r" % (_r,), "dense spelling-dense" if _r == "lazy" else "dense", why=GAUGE_WHY)
    D("compress_all_1d", "M.mps4", (lambda r: lambda x, H: ((), {"reduced": r, "canonize": False, "cutoff": 1e-10}))(_r), "nocanon,reduced=%r" % (_r,), "dense spelling-dense" if _r == "lazy" else "dense", why=GAUGE_WHY)
    D("mut:compress", "M.mps4 M.mps3", (lambda r: lambda x, H: ((), {"reduced": r, "cutoff": 1e-10}))(_r), "1d,reduced=%r" % (_r,), "dense", why=GAUGE_WHY)
D("compress_all", "N.loop M.mps4", lambda x, H: ((), {"canonize": False, "mode": "basic", "reduced": False, "cutoff": 1e-10}), "basic,nocanon,reduced=False", "dense", why=GAUGE_WHY)
D("compress_all", "N.tree M.mps4", lambda x, H: ((), {"mode": "virtual-tree", "tree_gauge_distance": 2, "cutoff": 1e-10}), "virtual-tree,d2", "dense", why=GAUGE_WHY)
D("compress_all_simple", "N.loop N.tree M.mps4", lambda x, H: ((), {"max_iterations": 3, "cutoff": 1e-10, "max_bond": 8}), "maxbond8", "dense", why=GAUGE_WHY)
for _f in ("left", "right", "flat", 1):
    D("mut:compress", "M.mps4", (lambda f: lambda x, H: ((), {"form": f, "reduced": False, "cutoff": 1e-10}))(_f), "1d,form=%r,reduced=False" % (_f,), "dense", why=GAUGE_WHY)
for _a in ("right", "left", "both"):
    D("mut:canonize_between", "N.loop N.tree M.mps4", (lambda a: lambda x, H: ((_tg(x, 0), _tg(x, 1)), {"absorb": a}))(_a), "absorb=%r" % (_a,), "dense", why=GAUGE_WHY)
    D("canonize_around", "N.tree M.mps4", (lambda a: lambda x, H: ((_tg(x, 0),), {"absorb": a}))(_a), "c-absorb=%r" % (_a,), "dense", why=GAUGE_WHY)


# --------------------------------------------------------------------------- #
#   round 2 of blind seeded changes                                           #
#   - isel with the eager 'r' (random vector) selection mixed with int/slice  #
#     selections on the same tensor (axis bookkeeping after the removed axis) #
#   - simplifiers with DEFAULT output_inds on OPEN networks holding chains of #
#     diagonal / antidiagonal / one-hot tensors, presented so that the tensor #
#     inserted last (visited first) is the outermost one                      #
# --------------------------------------------------------------------------- #

group("R")
RWHY = "the random vector of the 'r' selection comes from quimb's global generator, re-seeded before every run of the cell"
for _lab, _sel in [
    ("a=r,c=1", {"a": "r", "c": 1}),
    ("c=r,a=0", {"c": "r", "a": 0}),
    ("b=r,a=1", {"b": "r", "a": 1}),
    ("a=r,b=slice", {"a": "r", "b": slice(0, 2)}),
    ("b=r,c=slice", {"b": "r", "c": slice(1, 2)}),
    ("b=r,a=1,c=0", {"b": "r", "a": 1, "c": 0}),
    ("a=r,b=slice,c=1", {"a": "r", "b": slice(1, 3), "c": 1}),
    ("a=r", {"a": "r"}),
    ("a='1'", {"a": "1", "b": 1}),
]:
    D("isel", "T.abc T.sq T.left", (lambda sel: lambda x, H: ((dict(sel),), {}))(_sel), "r:" + _lab, why=RWHY)
for _lab, _sel in [
    ("a=r,x=1", {"a": "r", "x": 1}),
    ("b=r,x=0,y=1", {"b": "r", "x": 0, "y": 1}),
    ("c=r,z=1,a=0", {"c": "r", "z": 1, "a": 0}),
    ("a=r,x=slice", {"a": "r", "x": slice(0, 1)}),
    ("c=r,b=slice,y=1", {"c": "r", "b": slice(1, 3), "y": 1}),
]:
    D("isel", "N.loop", (lambda sel: lambda x, H: ((dict(sel),), {}))(_sel), "r:" + _lab, "dense", why=RWHY + " ('r' only on open labels: an inner label would get one vector per holder, in network order)")
D("isel", "M.mps4 G.vec", lambda x, H: (({"k1": "r", sorted(x.inner_inds())[0]: 0},), {}), "r:k1=r,bond=0", "dense", why=RWHY)
D("isel", "P.peps", lambda x, H: (({"k0,1": "r", sorted(x.inner_inds())[0]: 1, "k1,1": 0},), {}), "r:peps", "dense", why=RWHY)


def _chain(key, kinds, out_left="a", out_right="e", dtype="complex128", order=None, tail=True):
    """open chain  a --X0-- m0 --X1-- m1 ... --Z-- e  of structured square
    tensors (one kind per simplification shortcut) closed by a dense tensor.
    ``order`` = insertion order (default: INNERMOST first, so the outermost
    structured tensor has the highest tid and is visited first)."""
    n = len(kinds)
    labels = [out_left] + ["m%d" % i for i in range(n)]
    ts = []
    for i, kd in enumerate(kinds):
        ts.append(_T((3, 3), (labels[i], labels[i + 1]), ("X%d" % i,), (key, i), dtype=dtype, kind=kd))
    if tail:
        ts.append(_T((3, 4), (labels[n], out_right), ("Z",), (key, "z"), dtype=dtype))
    if order is None:
        order = list(range(len(ts) - (1 if tail else 0)))[::-1] + ([len(ts) - 1] if tail else [])
    return _TN([ts[i] for i in order])


@receiver("S.dd")
def _():
    # a--D--m0--D--m1--Z--e ; inserted as [X1, X0, Z]: X0 (outermost) visited first
    return _chain("S.dd", ["diag", "diag"])


@receiver("S.dd2")
def _():
    # the same chain without the dense tail: two open labels on diagonal tensors
    return _chain("S.dd2", ["diag", "diag"], tail=False)


@receiver("S.aa")
def _():
    return _chain("S.aa", ["antidiag", "antidiag"])


@receiver("S.da")
def _():
    return _chain("S.da", ["diag", "antidiag"])


@receiver("S.cc")
def _():
    return _chain("S.cc", ["onehot-column", "diag"], dtype="float64")


@receiver("S.ddd")
def _():
    # three diagonal tensors + tail (4 tensors)
    return _chain("S.ddd", ["diag", "diag", "diag"])


SIMP_WHY = "simplification with DEFAULT output_inds on an open network: open labels and dense value must survive every presentation"
SCHAINS = "S.dd S.dd2 S.aa S.da S.cc S.ddd"
for _m in ("diagonal_reduce", "antidiag_gauge", "column_reduce", "rank_simplify", "split_simplify", "loop_simplify", "full_simplify", "compress_simplify"):
    D(_m, SCHAINS + " N.struct N.loop N.tree", None, "default-output-inds", "value keep-outer", why=SIMP_WHY)
D("pair_simplify", SCHAINS, None, "default-output-inds", "value keep-outer", why=SIMP_WHY)
D("full_simplify", SCHAINS, lambda x, H: (("DACR",), {}), "seq-DACR-default-out", "value keep-outer", why=SIMP_WHY)
D("full_simplify", SCHAINS, lambda x, H: (("ADCRS",), {"output_inds": tuple(sorted(x.outer_inds()))}), "seq-ADCRS-explicit-out", "value keep-outer", why=SIMP_WHY)
D("q:contract", SCHAINS, lambda x, H: ((), {"output_inds": tuple(sorted(x.outer_inds()))}), "chain-value")
